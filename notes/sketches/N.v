From Coq Require Import String Ascii ZArith List Bool Lia.
Import ListNotations.
Open Scope string_scope.

Inductive node := Node (a : nat) (c : string) (kids : list (string * option nat * node)).

Fixpoint size (n : node) : nat :=
  match n with Node _ _ ks => S (list_sum (map (fun e => size (snd e)) ks)) end.

Section Enc.
  Variable H : string -> string.
  Fixpoint cid_data (n : node) : string :=
    match n with
    | Node _ c ks => c ++ String.concat "" (map (fun e => ":" ++ fst (fst e) ++ "=" ++ H (cid_data (snd e))) ks)
    end.
End Enc.

(* iterative dfs with explicit stack and fuel, vs recursive preorder *)
Fixpoint pre (n : node) : list nat :=
  match n with Node a _ ks => a :: flat_map (fun e => pre (snd e)) ks end.
Definition kids (n : node) := match n with Node _ _ ks => map snd ks end.
Fixpoint iter (fuel : nat) (stack : list node) (acc : list nat) : option (list nat) :=
  match stack with
  | [] => Some (rev acc)
  | n :: st => match fuel with 0 => None | S f =>
      match n with Node a _ _ => iter f (kids n ++ st) (a :: acc) end end
  end.
Definition t := Node 0 "A" [("x", None, Node 1 "B" []); ("y", Some 0, Node 2 "C" [("z", None, Node 3 "D" [])])].
Eval vm_compute in (pre t, iter 10 [t] [], cid_data (fun s => "<" ++ s ++ ">") t).
Require Import ExtrOcamlBasic.
Extraction "n_ext.ml" cid_data iter pre.
