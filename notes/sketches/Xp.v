From Coq Require Import List Arith Lia Bool.
Import ListNotations.

(* A position on the chain root -> node: class id, field, index (root: None, None) *)
Record pos := { p_cls : nat; p_field : option nat; p_idx : option nat }.
(* An xpath element: class test, optional field / index constraint, "gap above" flag *)
Record el := { e_cls : nat -> bool; e_field : option nat; e_idx : option nat; e_any : bool }.

Definition opt_ok (c : option nat) (v : option nat) : bool :=
  match c with None => true | Some x => match v with Some y => Nat.eqb x y | None => false end end.
Definition match_el (p : pos) (e : el) : bool :=
  e_cls e (p_cls p) && opt_ok (e_field e) (p_field p) && opt_ok (e_idx e) (p_idx p).

(* ---- documented semantics, root-first ---- *)
Inductive R : list el -> list pos -> Prop :=
| R_nil : R [] []
| R_step e es p rest : match_el p e = true -> R es rest -> R (e :: es) (p :: rest)
| R_skip e es p rest : e_any e = true -> R (e :: es) rest -> R (e :: es) (p :: rest).

(* ---- findall, seen from one chain: top-down, root-first (work list collapsed onto the chain) ---- *)
Fixpoint G (es : list el) (ps : list pos) {struct es} : bool :=
  match es with
  | [] => match ps with [] => true | _ => false end
  | e :: es' =>
    (fix scan (ps : list pos) : bool :=
       match ps with
       | [] => false
       | p :: rest => (match_el p e && G es' rest) || (e_any e && scan rest)
       end) ps
  end.

Lemma G_R es : forall ps, G es ps = true <-> R es ps.
Proof.
  induction es as [|e es IH]; intros ps.
  - destruct ps; simpl; split; intro H; try constructor; try discriminate; inversion H.
  - induction ps as [|p rest IHp].
    + simpl. split; intro H; [discriminate|inversion H].
    + change (G (e :: es) (p :: rest)) with ((match_el p e && G es rest) || (e_any e && G (e :: es) rest)).
      rewrite orb_true_iff, !andb_true_iff, IH, IHp. split.
      * intros [[Hm Hr]|[Ha Hr]]; [now apply R_step | now apply R_skip].
      * intro H; inversion H; subst; auto.
Qed.

(* ---- match(): bottom-up, leaf-first lists (elements reversed, chain reversed) ---- *)
Definition is_nil {A} (l : list A) := match l with [] => true | _ => false end.
Fixpoint suffixes {A} (l : list A) : list (list A) :=   (* non-empty suffixes = node's ancestors chains *)
  match l with [] => [] | x :: r => (x :: r) :: suffixes r end.

Fixpoint M (res : list el) (rc : list pos) {struct res} : bool :=
  match res, rc with
  | e :: tail, p :: up =>
    match_el p e &&
    match tail with
    | [] => e_any e || is_nil up
    | _ :: _ => match up with
                | [] => false
                | _ :: _ => if e_any e then existsb (fun suf => M tail suf) (suffixes up) else M tail up
                end
    end
  | _, _ => false
  end.

(* leaf-first reading of the same semantics *)
Inductive R' : list el -> list pos -> Prop :=
| R'_one e p up : match_el p e = true -> (e_any e = true \/ up = []) -> R' [e] (p :: up)
| R'_cons e e2 tail p up suf :
    match_el p e = true -> In suf (suffixes up) -> (e_any e = true \/ suf = up) ->
    R' (e2 :: tail) suf -> R' (e :: e2 :: tail) (p :: up).

Lemma suffixes_self {A} (l : list A) : l <> [] -> In l (suffixes l).
Proof. destruct l; [congruence|simpl; auto]. Qed.

Ltac inv H := inversion H; subst; clear H.

Lemma M_R' res : forall rc, M res rc = true <-> R' res rc.
Proof.
  induction res as [|e tail IH]; intros rc.
  - simpl. split; [discriminate|intro H; inversion H].
  - destruct rc as [|p up].
    + simpl. split; [discriminate|intro H; inversion H].
    + cbn [M]. rewrite andb_true_iff. destruct tail as [|e2 tail].
      * rewrite orb_true_iff. split.
        -- intros [Hm [Ha|Hn]]; constructor; auto. right. destruct up; [auto|discriminate].
        -- intro H; inv H. split; auto.
           match goal with Hd : _ \/ _ |- _ => destruct Hd as [Ha| ->]; auto end.
      * destruct up as [|q up].
        -- split; [intros [_ H]; discriminate|]. intro H; inv H.
           match goal with Hi : In _ (suffixes []) |- _ => simpl in Hi; contradiction end.
        -- destruct (e_any e) eqn:Ea.
           ++ rewrite existsb_exists. split.
              ** intros [Hm [suf [Hin Hs]]]. apply IH in Hs. eapply R'_cons; eauto.
              ** intro H; inv H. split; auto. exists suf. split; auto. now apply IH.
           ++ rewrite IH. split.
              ** intros [Hm Hs]. eapply R'_cons with (suf := q :: up); eauto. simpl; auto.
              ** intro H; inv H. split; auto.
                 match goal with Hd : _ \/ _ |- _ => destruct Hd as [Hd| ->]; [congruence|assumption] end.
Qed.

(* ---- the two readings coincide: R es ps <-> R' (rev es) (rev ps), for non-empty es ---- *)
(* snoc view of R *)
Lemma R_app_skip e es : forall ps p, e_any e = true -> R (e :: es) ps -> R (e :: es) (p :: ps).
Proof. intros; now apply R_skip. Qed.

Lemma suffixes_rev_prefix {A} (l suf : list A) :
  In suf (suffixes l) <-> exists pre, l = pre ++ suf /\ suf <> [].
Proof.
  induction l as [|x l IH]; simpl.
  - split; [tauto|]. intros [pre [E Hn]]. destruct pre; simpl in E; [subst; congruence|discriminate].
  - split.
    + intros [<-|H]. { exists []. split; auto. discriminate. }
      apply IH in H as [pre [-> Hn]]. exists (x :: pre). auto.
    + intros [pre [E Hn]]. destruct pre as [|y pre]; simpl in E.
      * left. auto.
      * injection E as -> ->. right. apply IH. eauto.
Qed.

(* inversion lemmas, so that proofs never depend on generated names *)
Lemma R_nil_inv ps : R [] ps -> ps = [].
Proof. intro H; inversion H; auto. Qed.
Lemma R_cons_nil e es : ~ R (e :: es) [].
Proof. intro H; inversion H. Qed.
Lemma R_cons_inv e es p rest : R (e :: es) (p :: rest) ->
  (match_el p e = true /\ R es rest) \/ (e_any e = true /\ R (e :: es) rest).
Proof. intro H; inversion H; subst; auto. Qed.

(* R, last element / last position exposed *)
Lemma R_snoc_one e : forall ps p, R [e] (ps ++ [p]) <-> match_el p e = true /\ (e_any e = true \/ ps = []).
Proof.
  induction ps as [|q ps IH]; intros p; simpl.
  - split.
    + intro H. apply R_cons_inv in H as [[Hm _]|[_ Hr]]; [auto|]. now apply R_cons_nil in Hr.
    + intros [Hm _]. apply R_step; auto. constructor.
  - split.
    + intro H. apply R_cons_inv in H as [[Hm Hr]|[Ha Hr]].
      * apply R_nil_inv in Hr. destruct ps; discriminate.
      * apply IH in Hr as [Hm _]. auto.
    + intros [Hm [Ha|Hn]]; [|discriminate]. apply R_skip; auto. apply IH. auto.
Qed.

Lemma R_snoc es : forall e0 e ps p,
  R ((e0 :: es) ++ [e]) (ps ++ [p]) <->
  match_el p e = true /\ exists ps1 ps2, ps = ps1 ++ ps2 /\ ps1 <> [] /\ (e_any e = true \/ ps2 = []) /\ R (e0 :: es) ps1.
Proof.
  induction es as [|e1 es IH]; intros e0 e ps p.
  - (* two elements e0, e *)
    simpl. revert p. induction ps as [|q ps IHp]; intros p; simpl.
    + split.
      * intro H. apply R_cons_inv in H as [[_ Hr]|[_ Hr]]; now apply R_cons_nil in Hr.
      * intros [_ [ps1 [ps2 [E [Hn _]]]]]. destruct ps1; [congruence|discriminate].
    + split.
      * intro H. apply R_cons_inv in H as [[Hm0 Hr]|[Ha Hr]].
        -- apply R_snoc_one in Hr as [Hm Hd]. split; auto.
           exists [q], ps. repeat split; auto; try discriminate. apply R_step; auto. constructor.
        -- apply IHp in Hr as [Hm [ps1 [ps2 [-> [Hn [Hd Hr]]]]]]. split; auto.
           exists (q :: ps1), ps2. repeat split; auto; try discriminate. now apply R_skip.
      * intros [Hm [ps1 [ps2 [E [Hn [Hd Hr]]]]]]. destruct ps1 as [|q' ps1]; [congruence|].
        simpl in E. injection E as <- ->.
        apply R_cons_inv in Hr as [[Hm0 Hr]|[Ha Hr]].
        -- apply R_nil_inv in Hr. subst ps1. simpl. apply R_step; auto. apply R_snoc_one. auto.
        -- apply R_skip; auto. apply IHp. split; auto. exists ps1, ps2. repeat split; auto.
           intro; subst. now apply R_cons_nil in Hr.
  - simpl. revert p. induction ps as [|q ps IHp]; intros p; simpl.
    + split.
      * intro H. apply R_cons_inv in H as [[_ Hr]|[_ Hr]]; [|now apply R_cons_nil in Hr].
        destruct es; simpl in Hr; now apply R_cons_nil in Hr.
      * intros [_ [ps1 [ps2 [E [Hn _]]]]]. destruct ps1; [congruence|discriminate].
    + split.
      * intro H. apply R_cons_inv in H as [[Hm0 Hr]|[Ha Hr]].
        -- apply (IH e1 e ps p) in Hr as [Hm [ps1 [ps2 [-> [Hn [Hd Hr]]]]]]. split; auto.
           exists (q :: ps1), ps2. repeat split; auto; try discriminate. now apply R_step.
        -- apply IHp in Hr as [Hm [ps1 [ps2 [-> [Hn [Hd Hr]]]]]]. split; auto.
           exists (q :: ps1), ps2. repeat split; auto; try discriminate. now apply R_skip.
      * intros [Hm [ps1 [ps2 [E [Hn [Hd Hr]]]]]]. destruct ps1 as [|q' ps1]; [congruence|].
        simpl in E. injection E as <- ->.
        apply R_cons_inv in Hr as [[Hm0 Hr]|[Ha Hr]].
        -- apply R_step; auto. apply (IH e1 e). split; auto. exists ps1, ps2. repeat split; auto.
           intro; subst. now apply R_cons_nil in Hr.
        -- apply R_skip; auto. apply IHp. split; auto. exists ps1, ps2. repeat split; auto.
           intro; subst. now apply R_cons_nil in Hr.
Qed.

Lemma R'_one_inv e p up : R' [e] (p :: up) -> match_el p e = true /\ (e_any e = true \/ up = []).
Proof. intro H; inversion H; subst; auto. Qed.
Lemma R'_cons_inv e e2 tail p up : R' (e :: e2 :: tail) (p :: up) ->
  match_el p e = true /\ exists suf, In suf (suffixes up) /\ (e_any e = true \/ suf = up) /\ R' (e2 :: tail) suf.
Proof. intro H; inversion H; subst; eauto 6. Qed.
Lemma R'_nil_r res : ~ R' res [].
Proof. intro H; inversion H. Qed.

Lemma rev_nil_inv {A} (l : list A) : rev l = [] -> l = [].
Proof. intro E. apply (f_equal (@rev A)) in E. now rewrite rev_involutive in E. Qed.

Theorem R_R' : forall es ps, es <> [] -> (R es ps <-> R' (rev es) (rev ps)).
Proof.
  intros es. induction es as [|e es IH] using rev_ind; [congruence|]. intros ps _.
  destruct ps as [|p ps] using rev_ind.
  - simpl. split.
    + intro H. destruct es; simpl in H; now apply R_cons_nil in H.
    + intro H. now apply R'_nil_r in H.
  - clear IHps. rewrite !rev_app_distr. simpl.
    destruct es as [|e0 es].
    + simpl. rewrite R_snoc_one. split.
      * intros [Hm Hd]. constructor; auto. destruct Hd as [Ha| ->]; auto.
      * intro H. apply R'_one_inv in H as [Hm [Ha|Hn]]; split; auto.
        right. now apply rev_nil_inv.
    + rewrite R_snoc.
      assert (Hne : e0 :: es <> []) by discriminate.
      destruct (rev (e0 :: es)) as [|e2 tail] eqn:Erev.
      { apply (f_equal (@length el)) in Erev. rewrite rev_length in Erev. discriminate. }
      split.
      * intros [Hm [ps1 [ps2 [-> [Hn [Hd Hr]]]]]].
        apply (IH ps1 Hne) in Hr. rewrite rev_app_distr.
        eapply R'_cons with (suf := rev ps1); eauto.
        -- apply suffixes_rev_prefix. exists (rev ps2). split; auto.
           intro E. now apply rev_nil_inv in E.
        -- destruct Hd as [Ha| ->]; auto.
      * intro H. apply R'_cons_inv in H as [Hm [suf [Hin [Hd Hr]]]]. split; auto.
        apply suffixes_rev_prefix in Hin as [pre [E Hn]].
        exists (rev suf), (rev pre).
        assert (Eps : ps = rev suf ++ rev pre).
        { rewrite <- rev_app_distr, <- E. now rewrite rev_involutive. }
        repeat split; auto.
        -- intro E2. now apply rev_nil_inv in E2.
        -- destruct Hd as [Ha|Hs]; auto. right. subst suf.
           destruct pre; auto. apply (f_equal (@length pos)) in E. rewrite app_length in E. simpl in E. lia.
        -- apply (IH (rev suf) Hne). rewrite rev_involutive. auto.
Qed.

Theorem match_eq_findall es ps : es <> [] ->
  M (rev es) (rev ps) = G es ps.
Proof.
  intro Hn. apply eq_true_iff_eq. rewrite M_R', G_R. symmetry. now apply R_R'.
Qed.
Print Assumptions match_eq_findall.
