let rec s2l s i = if i >= String.length s then N_ext.EmptyString else
  let c = Char.code s.[i] in let b k = (c lsr k) land 1 = 1 in
  N_ext.String (N_ext.Ascii (b 0,b 1,b 2,b 3,b 4,b 5,b 6,b 7), s2l s (i+1))
let rec l2s = function N_ext.EmptyString -> "" | N_ext.String (N_ext.Ascii (a,b,c,d,e,f,g,h), r) ->
  let v x k = if x then 1 lsl k else 0 in
  String.make 1 (Char.chr (v a 0+v b 1+v c 2+v d 3+v e 4+v f 5+v g 6+v h 7)) ^ l2s r
let () =
  let h s = s2l ("H[" ^ string_of_int (String.length (l2s s)) ^ "]") 0 in
  let t = N_ext.Node (O, s2l "A" 0, [ ((s2l "x" 0, None), N_ext.Node (S O, s2l "B" 0, [])) ]) in
  print_endline (l2s (N_ext.cid_data h t))
