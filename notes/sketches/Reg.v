From Coq Require Import List Arith Lia Bool PeanoNat.
Import ListNotations.

(* ids: (digest, suffix); suffix 0 = bare digest, k>0 = "digest_k" *)
Definition id := (nat * nat)%type.
Definition id_eqb (a b : id) : bool := Nat.eqb (fst a) (fst b) && Nat.eqb (snd a) (snd b).
Lemma id_eqb_spec a b : reflect (a = b) (id_eqb a b).
Proof.
  destruct a as [a1 a2], b as [b1 b2]. unfold id_eqb; simpl.
  destruct (Nat.eqb_spec a1 b1), (Nat.eqb_spec a2 b2); simpl; constructor; congruence.
Qed.

Record cell := { k_data : nat (* the id preimage, abstracted *); k_kids : list nat; k_id : id }.
Record st := { heap : list cell; reg : list (id * nat); roots : list nat; det : list nat (* ghost *) }.

Section Reg.
  Variable H : nat -> nat.           (* arbitrary digest: collisions allowed *)

  Fixpoint assoc (i : id) (r : list (id * nat)) : option nat :=
    match r with [] => None | (j, a) :: r' => if id_eqb i j then Some a else assoc i r' end.
  Fixpoint remove_id (i : id) (r : list (id * nat)) : list (id * nat) :=
    match r with [] => [] | (j, a) :: r' => if id_eqb i j then remove_id i r' else (j, a) :: remove_id i r' end.

  (* _get_next_unique_id: try base, base_1, base_2, ... ; fuel makes it total *)
  Fixpoint next_unique (d : nat) (k fuel : nat) (r : list (id * nat)) : option id :=
    match assoc (d, k) r with
    | None => Some (d, k)
    | Some _ => match fuel with 0 => None | S f => next_unique d (S k) f r end
    end.

  Definition cell_at (s : st) (a : nat) : option cell := nth_error (heap s) a.

  (* ---- operations (repaired detach_self: remove the entry only if it is this very node) ---- *)
  Definition op_new (s : st) (data : nat) (kids : list nat) : option (st * nat) :=
    match next_unique (H data) 0 (length (reg s)) (reg s) with
    | None => None
    | Some i =>
      let a := length (heap s) in
      Some ({| heap := heap s ++ [{| k_data := data; k_kids := kids; k_id := i |}];
               reg := (i, a) :: reg s; roots := a :: roots s; det := det s |}, a)
    end.

  Definition op_detach_self (fixed : bool) (s : st) (a : nat) : st * bool :=
    match cell_at s a with
    | None => (s, false)
    | Some c =>
      match assoc (k_id c) (reg s) with
      | None => ({| heap := heap s; reg := reg s; roots := roots s; det := a :: det s |}, false)
      | Some b =>
        if fixed && negb (Nat.eqb a b)
        then ({| heap := heap s; reg := reg s; roots := roots s; det := a :: det s |}, false)
        else ({| heap := heap s; reg := remove_id (k_id c) (reg s); roots := roots s; det := a :: det s |}, true)
      end
    end.

  (* ---- invariant ---- *)
  Definition keys (r : list (id * nat)) := map fst r.
  Record Inv (s : st) : Prop := {
    I_fun  : NoDup (keys (reg s));
    I_ok   : forall i a, In (i, a) (reg s) -> exists c, cell_at s a = Some c /\ k_id c = i;
    I_all  : forall a c, cell_at s a = Some c -> ~ In a (det s) -> In (k_id c, a) (reg s)
  }.

  (* ---- lemmas about assoc / remove ---- *)
  Lemma assoc_in i r a : assoc i r = Some a -> In (i, a) r.
  Proof.
    induction r as [|[j b] r IH]; simpl; [discriminate|].
    destruct (id_eqb_spec i j); [intros [= ->]; subst; auto|auto].
  Qed.
  Lemma assoc_none i r : assoc i r = None -> ~ In i (keys r).
  Proof.
    induction r as [|[j b] r IH]; simpl; [tauto|].
    destruct (id_eqb_spec i j); [discriminate|]. intros E [->|Hin]; [congruence|]. now apply IH.
  Qed.
  Lemma in_assoc i a r : NoDup (keys r) -> In (i, a) r -> assoc i r = Some a.
  Proof.
    induction r as [|[j b] r IH]; simpl; [tauto|]. intros Hnd [E|Hin].
    - injection E as -> ->. destruct (id_eqb_spec i i); congruence.
    - inversion Hnd; subst. destruct (id_eqb_spec i j).
      + subst. exfalso. apply H2. change j with (fst (j, a)). now apply in_map.
      + auto.
  Qed.
  Lemma remove_keys i r : forall j, In j (keys (remove_id i r)) -> In j (keys r) /\ j <> i.
  Proof.
    induction r as [|[k b] r IH]; simpl; [tauto|]. intros j.
    destruct (id_eqb_spec i k).
    - intro Hin. apply IH in Hin as [? ?]. auto.
    - simpl. intros [<-|Hin]; [auto|]. apply IH in Hin as [? ?]. auto.
  Qed.
  Lemma remove_in i r : forall j a, In (j, a) (remove_id i r) <-> In (j, a) r /\ j <> i.
  Proof.
    induction r as [|[k b] r IH]; simpl; [tauto|]. intros j a.
    destruct (id_eqb_spec i k).
    - rewrite IH. subst. split; [tauto|]. intros [[E|Hin] Hne]; [congruence|auto].
    - simpl. rewrite IH. split.
      + intros [E|[Hin Hne]]; [injection E as <- <-; auto|auto].
      + intros [[E|Hin] Hne]; auto.
  Qed.
  Lemma remove_nodup i r : NoDup (keys r) -> NoDup (keys (remove_id i r)).
  Proof.
    induction r as [|[k b] r IH]; simpl; [auto|]. intro Hnd. inversion Hnd; subst.
    destruct (id_eqb_spec i k); [auto|]. simpl. constructor; auto.
    intro Hin. apply remove_keys in Hin as [? _]. auto.
  Qed.

  (* ---- the suffix loop terminates and returns a fresh id (pigeonhole) ---- *)
  (* candidates (d,k),(d,k+1),...: those present in r are distinct keys, so at most |r| of them *)
  Lemma next_unique_fresh d : forall fuel k r i, next_unique d k fuel r = Some i -> ~ In i (keys r).
  Proof.
    induction fuel as [|f IH]; intros k r i; simpl.
    - destruct (assoc (d, k) r) eqn:E; [discriminate|]. intros [= <-]. now apply assoc_none.
    - destruct (assoc (d, k) r) eqn:E.
      + apply IH.
      + intros [= <-]. now apply assoc_none.
  Qed.

  Lemma filter_mono_len {A} (P Q : A -> bool) l :
    (forall x, Q x = true -> P x = true) -> length (filter Q l) <= length (filter P l).
  Proof.
    intro Himp. induction l as [|x l IH]; simpl; auto.
    destruct (Q x) eqn:Eq.
    - rewrite (Himp _ Eq). simpl. lia.
    - destruct (P x); simpl; lia.
  Qed.
  Lemma filter_strict {A} (P Q : A -> bool) l x :
    (forall y, Q y = true -> P y = true) -> In x l -> P x = true -> Q x = false ->
    S (length (filter Q l)) <= length (filter P l).
  Proof.
    intros Himp Hin HP HQ. induction l as [|y l IH]; simpl; [destruct Hin|].
    destruct Hin as [->|Hin].
    - rewrite HP, HQ. simpl. pose proof (filter_mono_len P Q l Himp). lia.
    - specialize (IH Hin). destruct (Q y) eqn:Eq.
      + rewrite (Himp _ Eq). simpl. lia.
      + destruct (P y); simpl; lia.
  Qed.

  Lemma filter_le_len {A} (P : A -> bool) l : length (filter P l) <= length l.
  Proof. induction l as [|x l IH]; simpl; auto. destruct (P x); simpl; lia. Qed.

  Lemma in_length_pos {A} (x : A) l : In x l -> 1 <= length l.
  Proof. destruct l; simpl; [tauto|lia]. Qed.

  Lemma next_unique_total d : forall fuel k r,
      NoDup (keys r) ->
      length (filter (fun j => Nat.eqb (fst j) d && Nat.leb k (snd j)) (keys r)) <= fuel ->
      next_unique d k fuel r <> None.
  Proof.
    induction fuel as [|f IH]; intros k r Hnd Hlen; simpl.
    - destruct (assoc (d, k) r) eqn:E; [|discriminate].
      exfalso. apply assoc_in in E. apply (in_map fst) in E. simpl in E.
      assert (Hin : In (d, k) (filter (fun j => Nat.eqb (fst j) d && Nat.leb k (snd j)) (keys r))).
      { apply filter_In. split; auto. simpl. now rewrite Nat.eqb_refl, Nat.leb_refl. }
      apply in_length_pos in Hin. lia.
    - destruct (assoc (d, k) r) eqn:E; [|discriminate].
      apply IH; auto.
      apply assoc_in in E. apply (in_map fst) in E. simpl in E.
      (* the filter for S k misses (d,k), which the filter for k contains *)
      pose (P := fun j : id => Nat.eqb (fst j) d && Nat.leb k (snd j)).
      pose (Q := fun j : id => Nat.eqb (fst j) d && Nat.leb (S k) (snd j)).
      assert (Hstep : S (length (filter Q (keys r))) <= length (filter P (keys r))).
      { apply filter_strict with (x := (d, k)); auto.
        - intros y. unfold P, Q. rewrite !andb_true_iff, !Nat.leb_le. intros [? ?]; split; auto; lia.
        - unfold P; cbn [fst snd]. now rewrite Nat.eqb_refl, Nat.leb_refl.
        - unfold Q; cbn [fst snd]. rewrite Nat.eqb_refl. cbn [andb]. apply Nat.leb_gt. lia. }
      change (length (filter P (keys r)) <= S f) in Hlen.
      change (length (filter Q (keys r)) <= f). lia.
  Qed.

  Lemma next_unique_ok d r : NoDup (keys r) -> exists i, next_unique d 0 (length r) r = Some i /\ ~ In i (keys r).
  Proof.
    intro Hnd. destruct (next_unique d 0 (length r) r) eqn:E.
    - exists i. split; auto. eapply next_unique_fresh; eauto.
    - exfalso. revert E. apply next_unique_total; auto.
      etransitivity; [apply filter_le_len|]. unfold keys. now rewrite map_length.
  Qed.

  (* ---- preservation ---- *)
  Lemma cell_at_app_old s c a x : cell_at s a = Some c ->
    nth_error (heap s ++ [x]) a = Some c.
  Proof. unfold cell_at. intro E. rewrite nth_error_app1; auto. apply nth_error_Some. congruence. Qed.

  Theorem new_inv s data kids : Inv s -> exists s' a, op_new s data kids = Some (s', a) /\ Inv s'.
  Proof.
    intros [Hf Hok Hall]. unfold op_new.
    destruct (next_unique_ok (H data) (reg s) Hf) as [i [-> Hfresh]].
    eexists _, _. split; [reflexivity|]. constructor; simpl.
    - constructor; auto.
    - intros j a [E|Hin].
      + injection E as <- <-. eexists. split.
        * unfold cell_at; simpl. rewrite nth_error_app2, Nat.sub_diag by lia. reflexivity.
        * reflexivity.
      + destruct (Hok _ _ Hin) as [c [Hc Hi]]. exists c. split; auto.
        unfold cell_at; simpl. now apply cell_at_app_old.
    - intros a c Hc Hnd. unfold cell_at in Hc; simpl in Hc.
      destruct (Nat.lt_ge_cases a (length (heap s))) as [Hlt|Hge].
      + rewrite nth_error_app1 in Hc by auto. right. now apply Hall.
      + rewrite nth_error_app2 in Hc by auto.
        destruct (a - length (heap s)) eqn:Ed; simpl in Hc.
        * injection Hc as <-. simpl. left. f_equal. lia.
        * destruct n; discriminate.
  Qed.

  Theorem detach_self_inv s a : Inv s -> Inv (fst (op_detach_self true s a)).
  Proof.
    intros [Hf Hok Hall]. unfold op_detach_self.
    destruct (cell_at s a) as [c|] eqn:Ec; [|constructor; auto].
    destruct (assoc (k_id c) (reg s)) as [b|] eqn:Ea; simpl.
    - destruct (Nat.eqb_spec a b) as [->|Hne]; simpl.
      + constructor; simpl.
        * now apply remove_nodup.
        * intros i x Hin. apply remove_in in Hin as [Hin _]. now apply Hok.
        * intros x cx Hx Hnd. apply remove_in. split.
          -- apply Hall; auto.
          -- intro E. assert (Hx' : In (k_id cx, x) (reg s)) by (apply Hall; auto).
             rewrite E in Hx'. apply in_assoc in Hx'; auto. rewrite Ea in Hx'. injection Hx' as ->. auto.
      + constructor; simpl; auto.
    - constructor; simpl; auto.
  Qed.

  (* ---- the defect: the unrepaired detach_self breaks the invariant ---- *)
  Definition s0 : st := {| heap := []; reg := []; roots := []; det := [] |}.
End Reg.

Definition demo (fixed : bool) : option (list (id * nat) * list nat) :=
  let H := fun n : nat => n in
  match op_new H s0 7 [] with                                   (* x = Leaf(..)            *)
  | Some (s1, x) =>
    let s2 := fst (op_detach_self fixed s1 x) in                (* x.detach_self()         *)
    match op_new H s2 7 [] with                                 (* y = same content        *)
    | Some (s3, y) =>
      let s4 := fst (op_detach_self fixed s3 x) in              (* x.detach_self() again   *)
      Some (reg s4, det s4)
    | None => None end
  | None => None end.
Eval vm_compute in (demo false, demo true).
(* unrepaired: registry empty although y (address 1) is live and was never detached *)
Lemma refuted_double_detach : exists r d, demo false = Some (r, d) /\ r = [] /\ ~ In 1 d.
Proof. eexists _, _. split; [vm_compute; reflexivity|]. split; [reflexivity|]. simpl. lia. Qed.

Print Assumptions new_inv.
Print Assumptions detach_self_inv.
