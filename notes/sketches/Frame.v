From Coq Require Import String Ascii List Arith Lia Bool DecimalString Decimal DecimalNat.
Import ListNotations.
Open Scope list_scope.

Definition pystr := list ascii.
Definition lit (s : string) : pystr := list_ascii_of_string s.
Local Open Scope char_scope.

Lemma split_unique (P : ascii -> bool) (sep : ascii) :
  P sep = false ->
  forall (a b x y : pystr), forallb P a = true -> forallb P b = true ->
    a ++ sep :: x = b ++ sep :: y -> a = b /\ x = y.
Proof.
  intros Hsep. induction a as [|c a IH]; intros b x y Ha Hb E.
  - destruct b as [|d b]; simpl in *.
    + injection E as ->. auto.
    + injection E as <- _. apply andb_prop in Hb as [Hd _]. congruence.
  - destruct b as [|d b]; simpl in *.
    + injection E as -> _. apply andb_prop in Ha as [Hc _]. congruence.
    + injection E as -> E. apply andb_prop in Ha as [_ Ha]. apply andb_prop in Hb as [_ Hb].
      destruct (IH b x y Ha Hb E) as [-> ->]. auto.
Qed.

Definition dec (n : nat) : pystr := lit (NilZero.string_of_uint (Nat.to_uint n)).
Definition is_digit (c : ascii) : bool :=
  let n := nat_of_ascii c in (Nat.leb 48 n && Nat.leb n 57)%bool.

Lemma digits_string_of_uint d : forallb is_digit (lit (NilEmpty.string_of_uint d)) = true.
Proof. induction d; simpl; auto. Qed.

Lemma dec_digits n : forallb is_digit (dec n) = true.
Proof.
  unfold dec, NilZero.string_of_uint. destruct (Nat.to_uint n); try reflexivity;
    apply (digits_string_of_uint (_ _)).
Qed.

Lemma to_uint_nonnil n : Nat.to_uint n <> Nil.
Proof.
  intro H. assert (E : n = 0).
  { rewrite <- (DecimalNat.Unsigned.of_to n), H. reflexivity. }
  subst n. vm_compute in H. discriminate.
Qed.

Lemma lit_inj a b : lit a = lit b -> a = b.
Proof. unfold lit. intro E. apply (f_equal string_of_list_ascii) in E.
  now rewrite !string_of_list_ascii_of_string in E. Qed.

Lemma dec_inj n m : dec n = dec m -> n = m.
Proof.
  unfold dec. intros E. apply lit_inj in E. apply (f_equal NilZero.uint_of_string) in E.
  rewrite !NilZero.usu in E by apply to_uint_nonnil.
  injection E as E. now apply DecimalNat.Unsigned.to_uint_inj.
Qed.

Definition is_cont (c : ascii) : bool :=
  match c with Ascii _ _ _ _ _ _ b6 b7 => b7 && negb b6 end.
Fixpoint cplen (s : pystr) : nat :=
  match s with [] => 0 | c :: r => (if is_cont c then 0 else 1) + cplen r end.
Lemma cplen_app a b : cplen (a ++ b) = cplen a + cplen b.
Proof. induction a; simpl; lia. Qed.

Definition frame (s : pystr) : pystr := dec (cplen s) ++ ":" :: s.

Lemma app_eq_prefix {A} : forall a b x y : list A, a ++ x = b ++ y ->
  (exists t, b = a ++ t /\ x = t ++ y) \/ (exists t, a = b ++ t /\ y = t ++ x).
Proof.
  induction a as [|c a IH]; intros b x y E; simpl in *.
  - left. exists b. auto.
  - destruct b as [|d b]; simpl in *.
    + right. exists (c :: a). auto.
    + injection E as -> E. destruct (IH _ _ _ E) as [[t [-> ->]]|[t [-> ->]]].
      * left; exists t; auto.
      * right; exists t; auto.
Qed.

Theorem frame_unique s s' r r' :
  frame s ++ ")" :: r = frame s' ++ ")" :: r' -> s = s' /\ r = r'.
Proof.
  unfold frame. rewrite <- !app_assoc. simpl.
  intros E.
  assert (Hc : is_digit ":" = false) by reflexivity.
  destruct (split_unique is_digit ":" Hc _ _ _ _ (dec_digits _) (dec_digits _) E) as [Hd E'].
  apply dec_inj in Hd.
  destruct (app_eq_prefix _ _ _ _ E') as [[t [Ht Hx]]|[t [Ht Hx]]].
  - destruct t as [|c t].
    + rewrite app_nil_r in Ht. subst s'. simpl in Hx. injection Hx as ->. auto.
    + simpl in Hx. injection Hx as <- _. subst s'. rewrite cplen_app in Hd. simpl in Hd. lia.
  - destruct t as [|c t].
    + rewrite app_nil_r in Ht. subst s. simpl in Hx. injection Hx as ->. auto.
    + simpl in Hx. injection Hx as <- _. subst s. rewrite cplen_app in Hd. simpl in Hd. lia.
Qed.
Print Assumptions frame_unique.
Eval vm_compute in string_of_list_ascii (frame (lit "a):b")).
