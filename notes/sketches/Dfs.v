From Coq Require Import List Arith Lia Bool.
Import ListNotations.

(* rose tree: identity tag + labelled edges; edge = (field id, optional index) *)
Definition edge := (nat * option nat)%type.
Inductive node := Node (a : nat) (kids : list (edge * node)).

Definition addr (n : node) := match n with Node a _ => a end.
Definition kids (n : node) := match n with Node _ ks => ks end.

(* traversal info: node, parent, edge *)
Definition tinfo := (node * node * edge)%type.
Definition infos (p : node) : list tinfo := map (fun en => (snd en, p, fst en)) (kids p).

Section Trav.
  Variables (prune filt : tinfo -> bool).

  (* ---------- spec: recursive preorder with prune / filter ---------- *)
  Fixpoint size (n : node) : nat :=
    match n with Node _ ks => S (list_sum (map (fun en => size (snd en)) ks)) end.

  (* preorder over the info stream of p's children *)
  Fixpoint pre_node (fuel : nat) (p : node) : list tinfo :=
    match fuel with
    | 0 => []
    | S f => flat_map (fun ti : tinfo =>
               (if filt ti then [ti] else []) ++
               (if prune ti then [] else pre_node f (fst (fst ti)))) (infos p)
    end.

  (* ---------- model: the build-stack machine of node.py:546-580 (top-down) ---------- *)
  (* stack holds infos; children are pushed reversed so that the first child is popped first *)
  Fixpoint run (fuel : nat) (stack : list tinfo) (acc : list tinfo) : option (list tinfo) :=
    match stack with
    | [] => Some (rev acc)
    | ti :: st =>
      match fuel with
      | 0 => None
      | S f =>
        let acc' := if filt ti then ti :: acc else acc in
        if prune ti then run f st acc'
        else run f (infos (fst (fst ti)) ++ st) acc'
      end
    end.
  (* Python pushes reversed(children) onto a list used as a stack (pop from the end):
     equivalent to prepending children in order to a cons-stack. *)
  Definition dfs_iter (fuel : nat) (n : node) := run fuel (infos n) [].

  (* structural spec, no fuel: via nested fix *)
  Fixpoint pre (p : node) : list tinfo :=
    match p with
    | Node a ks =>
      (fix go (P : node) (l : list (edge * node)) : list tinfo :=
         match l with
         | [] => []
         | (e, c) :: l' =>
           let ti := (c, P, e) in
           (if filt ti then [ti] else []) ++ (if prune ti then [] else pre c) ++ go P l'
         end) (Node a ks) ks
    end.

  Definition work (st : list tinfo) : nat := list_sum (map (fun ti : tinfo => size (fst (fst ti))) st).

  Definition pre_info (ti : tinfo) : list tinfo :=
    (if filt ti then [ti] else []) ++ (if prune ti then [] else pre (fst (fst ti))).

  Lemma pre_unfold p : pre p = flat_map pre_info (infos p).
  Proof.
    destruct p as [a ks]. unfold infos. simpl kids. simpl pre.
    generalize (Node a ks) as P. intro P.
    induction ks as [|[e c] ks IH]; [reflexivity|].
    cbn [map flat_map]. unfold pre_info at 1. cbn [fst snd]. rewrite <- app_assoc.
    f_equal. f_equal. exact IH.
  Qed.

  Lemma work_infos n : work (infos n) = size n - 1.
  Proof.
    destruct n as [a ks]. unfold work, infos. simpl kids. rewrite map_map. simpl.
    rewrite Nat.sub_0_r. reflexivity.
  Qed.

  Lemma size_pos n : 1 <= size n. Proof. destruct n; simpl; lia. Qed.

  Lemma work_app a b : work (a ++ b) = work a + work b.
  Proof. unfold work. rewrite map_app. induction (map _ a); simpl; lia. Qed.

  Theorem run_spec : forall fuel st acc,
      work st <= fuel ->
      run fuel st acc = Some (rev acc ++ flat_map pre_info st).
  Proof.
    induction fuel as [|f IH]; intros st acc Hw.
    - destruct st as [|ti st]; simpl.
      + now rewrite app_nil_r.
      + exfalso. unfold work in Hw. simpl in Hw. pose proof (size_pos (fst (fst ti))). lia.
    - destruct st as [|ti st]; simpl.
      + now rewrite app_nil_r.
      + unfold work in Hw. simpl in Hw. fold (work st) in Hw.
        pose proof (size_pos (fst (fst ti))) as Hp.
        unfold pre_info at 1.
        destruct (prune ti) eqn:Ep.
        * rewrite IH by lia.
          destruct (filt ti); simpl; rewrite ?app_nil_r, <- ?app_assoc; reflexivity.
        * rewrite IH.
          2:{ rewrite work_app, work_infos. lia. }
          rewrite flat_map_app, <- pre_unfold.
          destruct (filt ti); simpl; rewrite <- ?app_assoc; reflexivity.
  Qed.

  Theorem dfs_iter_pre n : dfs_iter (size n) n = Some (pre n).
  Proof.
    unfold dfs_iter. rewrite run_spec.
    - simpl. now rewrite pre_unfold.
    - rewrite work_infos. lia.
  Qed.
End Trav.
Print Assumptions dfs_iter_pre.
