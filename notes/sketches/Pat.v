From Coq Require Import List Arith Bool.
Import ListNotations.

(* ---- pattern syntax, as the grammar has it (three mutually recursive sorts, nested in lists) ---- *)
Inductive pat := PTree (cls : option (list nat)) (fs : list (nat * fspec))
with fspec := FAny (cap : option nat)
            | FVal (v : vpat) (cap : option nat)
            | FSeq (items : list (vpat * option nat)) (tail : option (option nat)) (cap : option nat)
with vpat := VTree (p : pat) | VVar (x : nat) | VNone | VRegex (r : nat).

(* ---- matcher graph, as pattern.py has it: every matcher carries an optional capture name ---- *)
Inductive mconst := KNone | KEmpty.
Inductive matcher :=
| MAny (name : option nat)
| MValue (name : option nat) (k : mconst)
| MRegex (name : option nat) (r : nat)
| MVar (name : option nat) (x : nat)
| MSeq (name : option nat) (ms : list matcher) (tail : option (option nat))
| MNode (name : option nat) (types : option (list nat)) (content : list (nat * matcher)).

Definition set_name (n : option nat) (m : matcher) : matcher :=
  match m with
  | MAny _ => MAny n | MValue _ k => MValue n k | MRegex _ r => MRegex n r | MVar _ x => MVar n x
  | MSeq _ ms t => MSeq n ms t | MNode _ ty c => MNode n ty c
  end.

(* compile: structural over the three sorts (capture-uniqueness / var-order checks omitted here) *)
Fixpoint c_pat (p : pat) : matcher :=
  match p with
  | PTree cls fs => MNode None cls (map (fun nf => (fst nf, c_fspec (snd nf))) fs)
  end
with c_fspec (f : fspec) : matcher :=
  match f with
  | FAny cap => MAny cap
  | FVal v cap => set_name cap (c_vpat v)
  | FSeq items tail cap =>
    match items, tail with
    | [], None => MValue cap KEmpty
    | _, _ => MSeq cap (map (fun ic => set_name (snd ic) (c_vpat (fst ic))) items) tail
    end
  end
with c_vpat (v : vpat) : matcher :=
  match v with
  | VTree p => c_pat p
  | VVar x => MVar None x
  | VNone => MValue None KNone
  | VRegex r => MRegex None r
  end.

(* ---- values ---- *)
Inductive node := Node (a : nat) (cls : nat) (fields : list (nat * value))
with value := XNone | XStr (s : nat) | XNode (n : node) | XTuple (ns : list node).

Definition ctx := list (nat * value).
Definition bind (n : option nat) (v : value) (c : ctx) : ctx :=
  match n with None => c | Some x => (x, v) :: c end.
Fixpoint lookup (x : nat) (c : ctx) : option value :=
  match c with [] => None | (y, v) :: c' => if Nat.eqb x y then Some v else lookup x c' end.
Fixpoint field_of (f : nat) (fs : list (nat * value)) : option value :=
  match fs with [] => None | (g, v) :: r => if Nat.eqb f g then Some v else field_of f r end.

Section Run.
  Variable re_match : nat -> nat -> bool.        (* oracle: Python re.match on str(value) *)
  Variable veq : value -> value -> bool.         (* is_equal for nodes, == otherwise *)
  Variable isinst : nat -> list nat -> bool.

  (* run: returns the captures made (newest first) or None; ctx = captures visible so far *)
  Fixpoint run (m : matcher) (v : value) (c : ctx) {struct m} : option ctx :=
    let named n (r : option ctx) := match r with None => None | Some caps => Some (bind n v caps) end in
    match m with
    | MAny n => named n (Some [])
    | MValue n KNone => named n (match v with XNone => Some [] | _ => None end)
    | MValue n KEmpty => named n (match v with XTuple [] => Some [] | _ => None end)
    | MRegex n r => named n (match v with XStr s => if re_match r s then Some [] else None | _ => None end)
    | MVar n x => named n (match lookup x c with Some w => if veq w v then Some [] else None | None => None end)
    | MSeq n ms tail =>
      named n
        match v with
        | XTuple ns =>
          (fix go (ms : list matcher) (ns : list node) (c : ctx) (acc : ctx) {struct ms} : option ctx :=
             match ms, ns with
             | [], rest =>
               match tail with
               | None => match rest with [] => Some acc | _ => None end
               | Some tn => Some (bind tn (XTuple rest) acc)
               end
             | m1 :: ms', x :: ns' =>
               match run m1 (XNode x) c with
               | None => None
               | Some caps => go ms' ns' (caps ++ c) (caps ++ acc)
               end
             | _ :: _, [] => None
             end) ms ns c []
        | _ => None
        end
    | MNode n types content =>
      named n
        match v with
        | XNode (Node _ cls fields) =>
          if match types with None => true | Some ts => isinst cls ts end then
            (fix go (cs : list (nat * matcher)) (c : ctx) (acc : ctx) {struct cs} : option ctx :=
               match cs with
               | [] => Some acc
               | (f, m1) :: cs' =>
                 match field_of f fields with
                 | None => None
                 | Some fv => match run m1 fv c with
                              | None => None
                              | Some caps => go cs' (caps ++ c) (caps ++ acc)
                              end
                 end
               end) content c []
          else None
        | _ => None
        end
    end.
End Run.
Check run.
Definition demo := c_pat (PTree (Some [1]) [(5, FSeq [(VTree (PTree None []), Some 9); (VVar 9, None)] (Some (Some 3)) None)]).
Eval vm_compute in demo.
Eval vm_compute in
  run (fun _ _ => true) (fun a b => match a, b with XNode (Node _ c1 _), XNode (Node _ c2 _) => Nat.eqb c1 c2 | _, _ => false end)
      (fun c ts => existsb (Nat.eqb c) ts) demo
      (XNode (Node 0 1 [(5, XTuple [Node 1 2 []; Node 2 2 []; Node 3 4 []])])) [].
