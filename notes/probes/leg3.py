import warnings; warnings.simplefilter("ignore")
import signal, traceback
from dataclasses import dataclass, field
from pyoak.legacy.node import AwareASTNode as N
from pyoak.origin import NO_ORIGIN
@dataclass
class Lf(N):
    v: str = "v"
@dataclass
class In(N):
    req: N = None
    opt: N | None = None
a = Lf("a", origin=NO_ORIGIN)
p = In(req=a, origin=NO_ORIGIN)
def h(*x): raise TimeoutError()
signal.signal(signal.SIGALRM, h); signal.alarm(2)
try:
    a.replace_with(p)   # replace a child by its own parent
except TimeoutError:
    traceback.print_exc(limit=4)
except Exception as e:
    print(type(e).__name__, str(e)[:100])
