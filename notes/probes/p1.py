from __future__ import annotations
import gc
from dataclasses import dataclass, field
from pyoak.node import ASTNode, NODE_REGISTRY
from pyoak import config

@dataclass(frozen=True)
class Leaf(ASTNode):
    a: str
    b: str

@dataclass(frozen=True)
class FS(ASTNode):
    s: frozenset

@dataclass(frozen=True)
class Falsy(ASTNode):
    items: tuple[ASTNode, ...] = ()
    def __len__(self): return len(self.items)

@dataclass(frozen=True)
class P(ASTNode):
    c: ASTNode | None = None
    items: tuple[ASTNode, ...] = ()

# C01 separator collision
x = Leaf(a="1):b=<class 'str'>(2", b="3"); y = Leaf(a="1", b="2):b=<class 'str'>(3")
print("C01 sep collision:", x.content_id == y.content_id, x.is_equal(y))
print("C01 frozenset:", FS(frozenset([8,16,0])).content_id == FS(frozenset([16,8,0])).content_id, frozenset([8,16,0])==frozenset([16,8,0]), str(frozenset([8,16,0])), str(frozenset([16,8,0])))
# C05 falsy child
f = Falsy()
p = P(c=f)
print("C05 falsy child children:", p.children, list(p.dfs()))
print("   content ids", p.content_id == P().content_id)
# C03 double detach
a = Leaf("x","y")
print(a.detach_self())
b = Leaf("x","y")
print("same id", a.id == b.id)
print(a.detach_self(), ASTNode.get_any(b.id))
