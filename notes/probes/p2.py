import warnings; warnings.simplefilter("ignore")
from dataclasses import dataclass, field
from typing import Any
from pyoak.node import ASTNode
from pyoak import config
from pyoak.match.xpath import ASTXpath
from pyoak.match.pattern import NodeMatcher, MultiPatternMatcher, validate_pattern
from pyoak.typing import is_instance

@dataclass(frozen=True)
class A(ASTNode):
    x: str = "a"
@dataclass(frozen=True)
class B(ASTNode):
    y: str = "b"
@dataclass(frozen=True)
class L(ASTNode):
    items: tuple[ASTNode, ...] = ()

its = tuple(A(x=str(i)) for i in range(14))
root = L(items=its)
r = list(ASTXpath("/L/@items[12]").findall(root)) if False else None
print("C07 idx:", [n.x for n in root.findall("/L/@items[12]A")])
print("C07 child:", list(ASTXpath("/@child L").findall(root)) == [root], ASTXpath("/@child L").match(root, root))
# C08
a=A(); b=B()
m,_ = NodeMatcher.from_pattern("(L @items=[(A) (B) *])")
print("C08 seq short:", m.match(L(items=(a,))))
m,_ = NodeMatcher.from_pattern("(L @items=[(A) *] -> c)")
print("C08 tail lost:", m.match(L(items=(a,b))), m.match(L(items=(a,))))
mm = MultiPatternMatcher([("r1","(A @x -> v)"),("r2","(B @y)")])
print("C08 multi:", mm.match(A()))
print("C17:", validate_pattern("(L @items=[*] -> c)"), NodeMatcher.from_pattern("(L @items=[*] -> c)"))
print("C13:", is_instance(False,bool), is_instance(True,bool), is_instance(True,int), is_instance(False,int), is_instance(False,str))
# C12
@dataclass(frozen=True)
class NC(ASTNode):
    p: str = "p"
    q: str = field(default="q", init=False, compare=False)
    r: str = field(default="r", init=False)
    s: str = field(default="s", compare=False)
n = NC()
print("C12:", [f.name for _,f in n.get_properties(skip_non_init=True)], [f.name for f in NC.get_property_fields(skip_non_init=True)])
