import warnings; warnings.simplefilter("ignore")
from dataclasses import dataclass, field
from pyoak.legacy.node import AwareASTNode as N
from pyoak.legacy.match.xpath import ASTXpath
from pyoak.origin import NO_ORIGIN
@dataclass
class Lf(N):
    v: str = "v"
@dataclass
class In(N):
    a: N | None = None
    items: tuple[N, ...] = ()
c1 = Lf("1", origin=NO_ORIGIN); c2 = Lf("2", origin=NO_ORIGIN)
p = In(a=c1, items=(c2,), origin=NO_ORIGIN)
print(c1.parent is p, c2.parent is p, p.detached)
try:
    p.replace(items=(c1,))
except Exception as e:
    print("rejected:", type(e).__name__)
print("C19 after:", c1.parent, c2.parent, p.detached, c1.detached, c1.detach(), c1.detached)
# C20 index
its = tuple(Lf(str(i), origin=NO_ORIGIN) for i in range(14))
r = In(items=its, origin=NO_ORIGIN)
print("C20:", [n.v for n in its if ASTXpath("/In/@items[12]Lf").match(n)])
r.calculate_xpath(); print(its[12].xpath, its[0].xpath)
