from dataclasses import dataclass, field
from typing import Any
from pyoak.node import ASTNode
@dataclass(frozen=True)
class Lit(ASTNode):
    value: Any
@dataclass(frozen=True)
class NoneLit(Lit):
    value: None = field(default=None, init=False)
try:
    print(NoneLit())
except Exception as e:
    print("C11:", type(e).__name__, e)
