import warnings, random, sys, hashlib; warnings.simplefilter("ignore")
from dataclasses import dataclass, field, fields
from pyoak.legacy.node import AwareASTNode as N
from pyoak.legacy import error as E
from pyoak.origin import NO_ORIGIN
@dataclass
class Lf(N):
    v: str = "v"
@dataclass
class In(N):
    req: N = None
    opt: N | None = None
    tup: tuple[N, ...] = ()
    lst: list[N] = field(default_factory=list)

def kids(n):
    return list(n.get_child_nodes_with_field())
def all_nodes(pool):
    seen = {}; 
    def rec(n):
        if id(n) in seen: return
        seen[id(n)] = n
        for c,_,_ in kids(n): rec(c)
    for n in pool: rec(n)
    return list(seen.values())
def independent_cid(n):
    h = hashlib.sha256(); h.update(type(n).__name__.encode())
    if isinstance(n, Lf): h.update(b":v="); h.update(str(n.v).encode())
    for c,f,i in sorted(kids(n), key=lambda x:(x[1].name, x[2] or -1)):
        h.update(f":{f.name}[{i or -1}]=".encode()); h.update(independent_cid(c).encode())
    return h.hexdigest()
def check(pool):
    errs = []
    for n in all_nodes(pool):
        if n.detached: continue
        if N.get_any(n.id) is not n: errs.append(("lookup", n.id[:6]))
        for c,f,i in kids(n):
            if c.detached: errs.append(("child-detached", n.id[:6], f.name, i))
            elif c.parent is not n or c.parent_field is not f or c.parent_index != i: errs.append(("child-parent", n.id[:6], f.name, i, c.parent_index))
        p = n.parent
        if p is not None:
            pf, pi = n.parent_field, n.parent_index
            val = getattr(p, pf.name)
            got = val[pi] if pi is not None and isinstance(val,(list,tuple)) and pi < len(val) else (val if pi is None else None)
            if got is not n: errs.append(("parent-slot", n.id[:6]))
        if n.content_id != independent_cid(n): errs.append(("cid", n.id[:6]))
    return errs
def snapshot(pool):
    return {id(n): (n.detached, id(n.parent) if n.parent is not None else None, n.parent_field.name if n.parent_field else None, n.parent_index, n.id, n.original_id, n.content_id, tuple((f.name, tuple(id(x) for x in (getattr(n,f.name) if isinstance(getattr(n,f.name),(list,tuple)) else [getattr(n,f.name)]))) for f in fields(n) if f.name in("req","opt","tup","lst"))) for n in all_nodes(pool)}
REJ = (E.ASTNodeError, E.ASTTransformError)
def run(seed, steps=8):
    rnd = random.Random(seed); pool = []; log = []
    N._nodes.clear()
    ctr = [0]
    def leaf(): ctr[0]+=1; return Lf(str(rnd.randint(0,2)), origin=NO_ORIGIN)
    for _ in range(steps):
        op = rnd.choice(["leaf","inner","attach","detach","detach_self","replace","replace_with","replace_with_none","dup"])
        nodes = all_nodes(pool)
        before = snapshot(pool)
        try:
            if op == "leaf": pool.append(leaf())
            elif op == "inner":
                cand = [n for n in nodes] + [leaf() for _ in range(3)]
                rnd.shuffle(cand)
                pool.append(In(req=cand[0], opt=rnd.choice([None, cand[1]]), tup=tuple(cand[2:2+rnd.randint(0,2)]), lst=list(cand[4:4+rnd.randint(0,1)]), origin=NO_ORIGIN))
            elif not nodes: continue
            else:
                n = rnd.choice(nodes)
                if op == "attach": n.attach()
                elif op == "detach": n.detach()
                elif op == "detach_self": n.detach_self()
                elif op == "dup": pool.append(n.duplicate())
                elif op == "replace":
                    if isinstance(n, Lf): pool.append(n.replace(v=str(rnd.randint(0,2))))
                    else: pool.append(n.replace(**{rnd.choice(["opt"]): rnd.choice([None]+nodes+[leaf()])}))
                elif op == "replace_with": 
                    m = rnd.choice(nodes+[leaf(), leaf()]); 
                    if m is n: continue
                    pool.append(m); n.replace_with(m)
                elif op == "replace_with_none": n.replace_with(None)
            log.append(op)
        except REJ as e:
            log.append(op+"!"+type(e).__name__)
            after = snapshot(pool)
            diff = [k for k in before if before[k] != after.get(k)]
            if diff: return ("C19", log, len(diff))
            continue
        except Exception as e:
            return ("EXC", log+[op], type(e).__name__, str(e)[:80])
        errs = check(pool)
        if errs: return ("C18", log, errs[:3])
    return None
from collections import Counter
cnt = Counter(); ex = {}
import signal
class TO(Exception): pass
def _h(*a): raise TO()
signal.signal(signal.SIGALRM, _h)
for seed in range(600):
    signal.alarm(2)
    try:
        r = run(seed)
    except TO:
        r = ('HANG', ['hang'], seed)
    except RecursionError:
        r = ('RECURSION', ['rec'], seed)
    signal.alarm(0)
    if r:
        key = (r[0], r[1][-1])
        cnt[key]+=1; ex.setdefault(key, (seed, r))
print(sum(cnt.values()), "of 600 histories fail")
for k,v in cnt.most_common(): print(k, v, ex[k][0], ex[k][1][2:] , len(ex[k][1][1]))
