import warnings; warnings.simplefilter("ignore")
from dataclasses import dataclass, field
from typing import NewType
from pyoak.node import ASTNode, AST_SERIALIZE_DIALECT_KEY, ASTSerializationDialects
from pyoak.serialize import SerializationOption
from pyoak.typing import is_instance
from pyoak import config

@dataclass(frozen=True)
class A(ASTNode):
    x: str = "a"
NA = NewType("NA", A)
try:
    @dataclass(frozen=True)
    class Hide(ASTNode):
        t: tuple[NA, ...] = ()
    h = Hide(t=(A(),))
    print("C11 nested NewType: child fields", [f.name for f in Hide.get_child_fields()], "props", [f.name for f in Hide.get_property_fields()], h.children)
except Exception as e:
    print("rejected", type(e).__name__, e)

# Tree foreign twin
@dataclass(frozen=True)
class P(ASTNode):
    c: A
x = A("q"); x.detach_self(); y = A("q"); print("same id", x.id == y.id)
t = P(y).to_tree()
print("C06 foreign twin in tree:", t.is_in_tree(x), t.get_parent(x))
# sort keys + explorer
d = P(A("z")).as_dict(serialization_options={SerializationOption.SORT_KEYS: True, AST_SERIALIZE_DIALECT_KEY: ASTSerializationDialects.AST_EXPLORER})
print("C16 keys:", list(d.keys()))
print("C13 union:", is_instance(True, int | None), is_instance(True, float), is_instance(1, bool))
