from __future__ import annotations
import warnings; warnings.simplefilter("ignore")
from dataclasses import dataclass, field
from typing import Any, Literal, NewType, Union, Optional, Sequence, Mapping
import enum
from mashumaro.types import SerializableType
from pyoak.node import ASTNode
from pyoak.serialize import DataClassSerializeMixin, SerializationOption
import pyoak.serialize as S

class Boom(SerializableType):
    def __init__(self, fail): self.fail = fail
    def _serialize(self):
        if self.fail: raise RuntimeError("boom")
        return {"ok": 1}
    @classmethod
    def _deserialize(cls, v):
        if v.get("bad"): raise RuntimeError("deboom")
        return Boom(False)

@dataclass(frozen=True)
class L(ASTNode):
    b: Boom = field(default_factory=lambda: Boom(False))
@dataclass(frozen=True)
class P(ASTNode):
    kids: tuple[L, ...] = ()

def opts(): return S.DataClassSerializeMixin._DataClassSerializeMixin__serialization_options, S.DataClassSerializeMixin._DataClassSerializeMixin__mashumaro_dialect
p = P(kids=(L(), L(Boom(True)), L()))
try:
    p.as_dict(serialization_options={SerializationOption.SKIP_CLASS: True})
except Exception as e:
    print("ser raised", type(e).__name__, e)
print("opts after", opts())
print(P(kids=(L(),)).as_dict().keys())
good = P(kids=(L(),L())).as_dict()
good["kids"][1]["b"] = {"bad": 1}
good["kids"][1]["id"] = "zzz"
good["id"] = "yyy"
try:
    P.as_obj(good, serialization_options={SerializationOption.SKIP_CLASS: True})
except Exception as e:
    print("deser raised", type(e).__name__, str(e)[:80])
print("opts after", opts())
# isinstance TypeError table
class C(enum.Enum): A=1
NT = NewType("NT", int)
import typing
for t in [int, Any, Literal["a"], NT, int|None, Optional[int], Union[int,str], tuple[int,...], tuple, Sequence[int], frozenset[int], type[int], C, None, type(None)]:
    try:
        r = isinstance(1, t)
    except TypeError as e:
        r = "TypeError"
    print(t, r)
