import warnings; warnings.simplefilter("ignore")
from dataclasses import dataclass, field
from pyoak.node import ASTNode
from pyoak.match.pattern import validate_pattern, NodeMatcher, pattern_def_parser
from pyoak.match.xpath import ASTXpath
from pyoak.match.error import *
@dataclass(frozen=True)
class A(ASTNode):
    x: str = "a"
    items: tuple[ASTNode, ...] = ()
@dataclass(frozen=True)
class None_(ASTNode):
    pass
tests = ['(None)', '(A @x=Nonex)', '(A @x=None)', '(A @x -> ab_)', '(A @x -> a_b)', '(A @x - > v)', '(A@x->v)', '( A | A @x = "a\\"b" )',
 '(A @x="a\nb")', '(A @items=[ * ])', '(A @items=[(A)->a $a *->t])', '(A @x -> v @items=[$v])', '(A @x=$v -> v)', '(A @x="(")', '(*|A)', '(A|*)', '(* @x)', '(A @x @x)',
 '(A @x -> v @x -> v)', '(Source)', '(Zzz)', '', '(', '(A @x="[")', '(A @1x)', '(a)', '(A @x ->V)', '(A @x -> v1)', '(A @dfs)', '(A @x="a" "b")', '(A @items=[None None])','(A @items=[[*]])']
for t in tests:
    v = validate_pattern(t)
    try:
        m = NodeMatcher.from_pattern(t)
        ok = m[0] is not None
    except Exception as e:
        ok = "EXC "+type(e).__name__
    print(repr(t), v[0], ok, v[1].split("\n")[0][:50])
for t in ['/A', 'A', '//A', '/ @ x [ 1 2 ] A', '/@x[]A', '/[1]', '/A/', '/A//', '///A', '/@x', '', '/', '/A B', '/Zzz', '/Source', '/@x[*]A', '/A/@items[0]', '/A/@items[0]/A']:
    try:
        x = ASTXpath(t); print(repr(t), "ok", x._elements)
    except ASTXpathDefinitionError as e:
        print(repr(t), "DEF", str(e).split("\n")[0][:60])
    except Exception as e:
        print(repr(t), "OTHER", type(e).__name__, e)
