from __future__ import annotations
import json, enum
from dataclasses import dataclass, field
from pathlib import Path
from typing import Literal
from pyoak.node import ASTNode, NODE_REGISTRY
from pyoak.origin import *
from pyoak.serialize import SerializationOption

class Color(enum.Enum):
    RED = "r"; BLUE = 2

@dataclass(frozen=True)
class Leaf(ASTNode):
    s: str; i: int = 0; f: float = 1.5; b: bool = False; n: None = None; e: Color = Color.RED
    p: Path = Path("a/b"); l: Literal["x","y"] = "x"; t: tuple[str, ...] = (); o: int | None = None
    nc: str = field(default="nc", compare=False)
    ni: str = field(default="ni", init=False)

@dataclass(frozen=True)
class Par(ASTNode):
    one: Leaf
    opt: Leaf | None = None
    many: tuple[ASTNode, ...] = ()

src = MemoryTextSource("hello world", source_uri="mem1")
src2 = TextSource(source_uri="u2", source_type="text/plain", _raw="abcdef")
o1 = CodeOrigin(src, get_code_range(0,1,0,5,1,5))
o2 = CodeOrigin(src2, get_code_range(1,1,1,3,1,3))
mo = merge_origins(o1, o2)
x = get_xml_origin(Path("f.xml"), "/a/b")
g = GeneratedCodeOrigin(src)
l1 = Leaf("a", origin=o1); l2 = Leaf("b", t=("q","r"), origin=mo); l3 = Leaf("c", origin=x); l4=Leaf("d", origin=g)
p = Par(one=l1, opt=l2, many=(l3,l4,l1), origin=NO_ORIGIN)
d = p.as_dict()
print(json.dumps(d, indent=1, default=str))
print(json.dumps(p.as_dict(serialization_options={SerializationOption.SORT_KEYS: True, SOURCE_OPTIMIZED_SERIALIZATION_KEY: True}), default=str)[:600])
for fmt in ("json","msgpck","yaml"):
    ser = getattr(p, "to_"+fmt)()
    back = getattr(Par, "from_"+fmt)(ser)
    print(fmt, back is p)
NODE_REGISTRY.clear()
for fmt in ("json","msgpck","yaml"):
    ser = getattr(p, "to_"+fmt)()
    NODE_REGISTRY.clear()
    back = getattr(Par, "from_"+fmt)(ser)
    print(fmt, back == p, back.id == p.id, back.many[2] is back.one, back.opt.origin == mo, back.one.ni, back.one.nc)
