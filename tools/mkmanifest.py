#!/usr/bin/env python3
"""Assemble /verif/MANIFEST.json from manifest.d/<id>.json fragments (one per claimed property)."""
import glob, json, os
root = os.path.dirname(os.path.dirname(os.path.abspath(__file__)))
props = [json.loads(l)["id"] for l in open(os.path.join(root, "properties.jsonl"))]
frags = {}
for f in sorted(glob.glob(os.path.join(root, "manifest.d", "C*.json"))):
    d = json.load(open(f))
    frags[d["property_id"]] = d
na_reasons = {}
p = os.path.join(root, "manifest.d", "not_applicable.json")
if os.path.exists(p):
    na_reasons = json.load(open(p))
checks = []
for pid in props:
    if pid not in frags:
        continue
    d = frags[pid]
    checks.append({
        "property_id": pid,
        "quick_cmd": f"./check {pid} --tier quick",
        "thorough_cmd": f"./check {pid} --tier thorough",
        "evidence_file": f"/verif/evidence/{pid}.json",
        "replay_cmd_template": f"./check {pid} --replay {{path}}",
        "engine": "rocq-model+correspondence",
        "level_claimed": {"category": "proof", "text": d["level_text"], "design_ref": d.get("design_ref", "DESIGN.md section 3 " + pid)},
        "level_note": d["level_note"],
        "technique": d.get("technique", "machine-checked proof in Rocq (Coq 8.16.1) of theorems about a Gallina model + differential correspondence of the extracted model with the implementation"),
    })
man = {
    "version": 1,
    "setup_cmd": "tools/build.sh",
    "hooks": {
        "guard": "PYOAK_VERIF",
        "enable": "no source hooks are needed: checks import /repo/src/pyoak unmodified (PYTHONPATH=/repo/src)",
        "baseline_off_cmd": "cd /repo && /venv/bin/python -m pytest -ra -q -p no:cacheprovider --timeout=900 --continue-on-collection-errors",
        "source_commits": [],
        "add_only": True,
    },
    "engines": [{
        "name": "rocq-model+correspondence",
        "path": "/verif/coq + /verif/harness",
        "serves_properties": [c["property_id"] for c in checks],
        "kind_free_text": "Gallina model with kernel-checked theorems (coq/Props/Cxx.v); the same definitions are extracted to OCaml and run against pyoak on generated inputs; a sample is re-evaluated in the kernel by vm_compute",
    }],
    "checks": checks,
    "not_applicable": [{"property_id": pid, "reason": na_reasons.get(pid, "not claimed yet: model and theorems for this property are not built in this revision; no check is registered rather than a weaker technique")}
                       for pid in props if pid not in frags],
    "notes": "All checks: ./check <id> [--tier quick|thorough] [--seed N]; VERIF_SEED / VERIF_TIER honoured. See DESIGN.md.",
}
json.dump(man, open(os.path.join(root, "MANIFEST.json"), "w"), indent=1)
print("MANIFEST.json:", len(checks), "checks,", len(man["not_applicable"]), "not claimed")
