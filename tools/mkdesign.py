#!/usr/bin/env python3
"""Assemble /verif/DESIGN.md from design.d/00_head.md + design.d/Cxx.md (one per property, as built) + design.d/99_tail.md."""
import glob, os, re
root = os.path.dirname(os.path.dirname(os.path.abspath(__file__)))
d = os.path.join(root, "design.d")
parts = [open(os.path.join(d, "00_head.md")).read().rstrip() + "\n"]
parts.append("\n---------------------------------------------------------------------------------------------------\n\n"
             "## 3. The properties (as built)\n\n"
             "One subsection per property: files, what is modelled, the theorems of `coq/Props/Cxx*.v` (all checked for\n"
             "*Closed under the global context* on every run), what is partial / trusted / outside the model, the tie, and which\n"
             "mutants, fix reversals and independently seeded changes the check catches. The round-0 plans these replace are kept in\n"
             "`notes/DESIGN_round0_property_plans.md`.\n\n")
for f in sorted(glob.glob(os.path.join(d, "C[0-9][0-9].md"))):
    parts.append(open(f).read().rstrip() + "\n\n")
parts.append("---------------------------------------------------------------------------------------------------\n\n")
import json
rows = ["| id | change (written blind to /verif) | needs, to manifest | result against the checks |", "|---|---|---|---|"]
for m in sorted(glob.glob(os.path.join(root, "seeded", "*", "meta.json"))):
    j = json.load(open(m))
    rows.append("| %s | %s | %s | %s |" % (os.path.basename(os.path.dirname(m)), j["change"].replace("|", "\\|"),
                                          j["needs_to_manifest"].replace("|", "\\|"), j["result"].replace("|", "\\|")))
parts.append(open(os.path.join(d, "99_tail.md")).read().replace("{{SEEDED_TABLE}}", "\n".join(rows)))
open(os.path.join(root, "DESIGN.md"), "w").write("".join(parts))
print("DESIGN.md assembled:", sum(len(p) for p in parts), "bytes")
