#!/bin/bash
# Full build of the Rocq development and of the extracted driver. Offline. Used by MANIFEST.setup_cmd.
set -e
cd "$(dirname "$0")/.."
ROOT=$(pwd)
python3 tools/gen_extract.py >/dev/null
cd coq
{ echo "-Q . Oak"; find Base Model Spec Proofs Props Refuted Run Extract -name "*.v" | sort; } > _CoqProject
coq_makefile -f _CoqProject -o Makefile.coq >/dev/null
mkdir -p "$ROOT/build"
# Extraction writes oak_ext.ml into the cwd of coqc = coq/ ; moved below
timeout 3000 make -f Makefile.coq -j"${JOBS:-16}" 2>&1 | tee "$ROOT/build/make.log" | grep -v '^COQC\|^COQDEP\|Closed under\|^CLEAN' || true
test "${PIPESTATUS[0]}" = 0
if [ -f oak_ext.ml ]; then mv -f oak_ext.ml oak_ext.mli "$ROOT/build/"; fi
cd "$ROOT/build"
if [ ! -x driver ] || [ oak_ext.ml -nt driver ] || [ ../ocaml/driver.ml -nt driver ]; then
  cp ../ocaml/driver.ml .
  ocamlfind ocamlopt -O2 -w -a oak_ext.mli oak_ext.ml driver.ml -o driver 2>/dev/null || ocamlfind ocamlopt -w -a oak_ext.mli oak_ext.ml driver.ml -o driver
fi
echo "build ok"
