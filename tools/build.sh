#!/bin/bash
# Full build of the Rocq development and of the extracted driver. Offline. Used by MANIFEST.setup_cmd and by
# every check (a no-op when nothing changed). A file that fails to compile does not stop the others (make -k):
# each check verifies that the .vo files of its own property exist and are up to date.
cd "$(dirname "$0")/.."
ROOT=$(pwd)
mkdir -p "$ROOT/build"
mkdir -p "$ROOT/coq/Extract" "$ROOT/coq/Gen" "$ROOT/evidence" "$ROOT/replays"   # generated / ignored directories
exec 9>"$ROOT/build/.buildlock"
flock 9          # one build at a time (several checks / agents may run concurrently)
# regenerate the translated part of the model from the source tree (fail-closed: no file on unsupported syntax)
python3 "$ROOT/tools/translate_origin.py" > "$ROOT/build/translate.log" 2>&1 || { echo "translator: origin.py not translatable:"; tail -2 "$ROOT/build/translate.log"; }
cd coq
{ echo "-Q . Oak"; find Base Model Gen Spec Proofs Props Run -name "*.v" | sort; } > _CoqProject.new
if ! cmp -s _CoqProject.new _CoqProject || [ ! -f Makefile.coq ]; then
  mv _CoqProject.new _CoqProject
  coq_makefile -f _CoqProject -o Makefile.coq >/dev/null
else
  rm -f _CoqProject.new
fi
timeout 3300 make -k -f Makefile.coq -j"${JOBS:-16}" > "$ROOT/build/make.log" 2>&1
MAKE_RC=$?
grep -B1 -A6 '^Error\|Error:' "$ROOT/build/make.log" | head -60
for core in Base/PyStr Base/Term Model/Origin Model/ClassTable Model/Node Model/Access Model/Traverse Model/Encode Run/Codec; do
  if [ ! -f "$core.vo" ] || [ "$core.v" -nt "$core.vo" ]; then echo "build FAILED: core file $core.v did not compile"; exit 2; fi
done
python3 "$ROOT/tools/gen_extract.py" >/dev/null || exit 2
if [ ! -f Extract/Extract.vo ] || [ Extract/Extract.v -nt Extract/Extract.vo ] || [ -n "$(find Run Model Base -name '*.vo' -newer Extract/Extract.vo 2>/dev/null | head -1)" ] || [ ! -f "$ROOT/build/oak_ext.ml" ]; then
  timeout 900 coqc -Q . Oak Extract/Extract.v > "$ROOT/build/extract.log" 2>&1 || { echo "build FAILED: extraction"; tail -20 "$ROOT/build/extract.log"; exit 2; }
  mv -f oak_ext.ml oak_ext.mli "$ROOT/build/"
fi
cd "$ROOT/build"
if [ ! -x driver ] || [ oak_ext.ml -nt driver ] || [ ../ocaml/driver.ml -nt driver ]; then
  cp ../ocaml/driver.ml .
  ocamlfind ocamlopt -O2 -w -a oak_ext.mli oak_ext.ml driver.ml -o driver.new 2>/dev/null || ocamlfind ocamlopt -w -a oak_ext.mli oak_ext.ml driver.ml -o driver.new || { echo "build FAILED: driver"; exit 2; }
  mv -f driver.new driver
fi
if [ "$MAKE_RC" != 0 ]; then echo "build ok (core + driver); some files failed to compile, see build/make.log"; else echo "build ok"; fi
exit 0
