#!/usr/bin/env python3
"""tools/try_seeds.py <PROP> <worktree> [check ...]: confirm the seeded changes <worktree>/_out/{1,2,3} (tests pass with the patch,
demo fails with / passes without) and run the given checks (default: PROP) against each. One summary line per change."""
import os, re, subprocess, sys
P, W = sys.argv[1], sys.argv[2]
checks = sys.argv[3:] or [P]
def sh(cmd, **kw):
    return subprocess.run(cmd, shell=True, capture_output=True, text=True, **kw)
head = sh("git -C /repo rev-parse HEAD").stdout.strip()
sh(f"git -C {W} checkout -q -- . && git -C {W} checkout -q --detach {head}")
for n in sorted(int(x) for x in os.listdir(W + '/_out') if x.isdigit()):
    D = f"{W}/_out/{n}"
    if not os.path.exists(D + "/patch.diff"):
        print(f"{P}/{n}: missing"); continue
    sh(f"git -C {W} checkout -q -- .")
    a = sh(f"git -C {W} apply {D}/patch.diff")
    if a.returncode:
        print(f"{P}/{n}: APPLY FAILED {a.stderr[:100]}"); continue
    t = sh(f"cd {W} && PYTHONPATH={W}/src /venv/bin/python -m pytest -q -p no:cacheprovider tests 2>&1 | tail -1").stdout.strip()
    dw = sh(f"cd {W} && PYTHONPATH={W}/src timeout 180 /venv/bin/python {D}/demo.py").returncode
    res = []
    for c in checks:
        o = sh(f"cd /verif && VERIF_PYOAK_SRC={W}/src ./check {c} --no-build 2>&1").stdout
        m = re.search(r"disagreements=(\d+)", o)
        v = len(re.findall(r"^VIOLATION", o, re.M))
        nf = "no-failing-input-found" in o
        res.append(f"{c}:{'VIOLATION' if v else 'quiet'}(dis={m.group(1) if m else '?'}{',nofail' if nf else ''})")
    sh(f"git -C {W} checkout -q -- .")
    dwo = sh(f"cd {W} && PYTHONPATH={W}/src timeout 180 /venv/bin/python {D}/demo.py").returncode
    print(f"{P}/{n}: tests[{t[:12]}] demo with={dw} without={dwo} | " + " ".join(res), flush=True)
