#!/usr/bin/env python3
"""tools/try_harmless.py <PROP> <worktree> [check ...]: behaviour-preserving rewrites <worktree>/_out/<n>/patch.diff must leave every
check quiet.  The checks run are <PROP> plus those owning the files the patch touches (or the ones given). One line per change."""
import os, re, subprocess, sys
P, W = sys.argv[1], sys.argv[2]
BYFILE = {"node.py": ["C01", "C03", "C10", "C14", "C05", "C12"], "origin.py": ["C15", "C04"], "typing.py": ["C11", "C13"],
          "types.py": ["C11", "C13"], "pattern.py": ["C08", "C17"], "xpath.py": ["C06", "C07", "C17"], "tree.py": ["C05", "C06"],
          "visitor.py": ["C07", "C09"], "serialize.py": ["C04", "C16"], "helpers.py": ["C06", "C08"], "codegen.py": ["C01", "C12", "C05"],
          "methods.py": ["C01", "C12", "C05"], "grammar.py": ["C17", "C08", "C06"], "legacy": ["C18", "C19", "C20"]}
def sh(cmd, **kw):
    return subprocess.run(cmd, shell=True, capture_output=True, text=True, **kw)
head = sh("git -C /repo rev-parse HEAD").stdout.strip()
sh(f"git -C {W} checkout -q -- . && git -C {W} checkout -q --detach {head}")
for n in sorted(int(x) for x in os.listdir(W + '/_out') if x.isdigit()):
    D = f"{W}/_out/{n}"
    sh(f"git -C {W} checkout -q -- .")
    a = sh(f"git -C {W} apply {D}/patch.diff")
    if a.returncode:
        print(f"{P}/{n}: APPLY FAILED {a.stderr[:100]}"); continue
    files = re.findall(r"^\+\+\+ b/(\S+)", open(D + "/patch.diff").read(), re.M)
    checks = list(sys.argv[3:]) or [P]
    if not sys.argv[3:]:
        for f in files:
            for k, v in BYFILE.items():
                if (k == "legacy" and "/legacy/" in f) or (k != "legacy" and "/legacy/" not in f and f.endswith("/" + k)):
                    checks += [c for c in v if c not in checks]
    t = sh(f"cd {W} && PYTHONPATH={W}/src /venv/bin/python -m pytest -q -p no:cacheprovider tests 2>&1 | tail -1").stdout.strip()
    res = []
    for c in checks:
        o = sh(f"cd /verif && VERIF_PYOAK_SRC={W}/src ./check {c} --no-build 2>&1").stdout
        m = re.search(r"disagreements=(\d+)", o)
        v = re.findall(r"^VIOLATION.*", o, re.M)
        nf = "no-failing-input-found" in o
        res.append(f"{c}:{'ALARM' if v else 'quiet'}(dis={m.group(1) if m else '?'}{',nofail' if nf else ''})")
    sh(f"git -C {W} checkout -q -- .")
    print(f"{P}/{n}: tests[{t[:12]}] files={','.join(os.path.basename(f) for f in files)} | " + " ".join(res), flush=True)
