#!/usr/bin/env python3
"""Fail-closed translator: the interval methods of CodePoint / CodeRange in /repo/src/pyoak/origin.py  ->  coq/Gen/OriginGen.v.

Only a small expression grammar is accepted (comparisons of `.index` integers, comparisons of CodePoint-valued
attributes through CodePoint's own __lt__/__le__ incl. Python's reflected-operand rule, `and`, `min`/`max` of points,
the CodeRange constructor, guard statements `if <cond>: raise ValueError(...)`, `isinstance` type guards that raise
NotImplementedError). Anything else aborts with exit code 3 and NO output file is left behind, so that the proof
obligations Proofs/OriginGenEquiv.v (generated definitions = hand-written model, for all integers) fail to build and
the C15 check reports it.
"""
import ast
import os
import sys

SRC = os.path.join(os.environ.get("VERIF_PYOAK_SRC", "/repo/src"), "pyoak", "origin.py")
ROOT = os.path.dirname(os.path.dirname(os.path.abspath(__file__)))
OUT = os.path.join(ROOT, "coq", "Gen", "OriginGen.v")


class Unsupported(Exception):
    pass


def fail(msg, node=None):
    where = f" (origin.py line {node.lineno})" if node is not None and hasattr(node, "lineno") else ""
    raise Unsupported(msg + where)


POINT_ATTRS = {"start": "r_start", "end": "r_end"}
INT_ATTRS = {"index": "p_idx", "line": "p_line", "column": "p_col"}


class Tr:
    def __init__(self, cls_methods):
        self.cls_methods = cls_methods  # class name -> set of method names

    # ---- typing of the tiny expression language: 'int' | 'point' | 'range' | 'bool'
    def expr(self, e, env):
        """returns (coq text, type)"""
        if isinstance(e, ast.Name):
            if e.id in env:
                return env[e.id]
            fail(f"unknown name {e.id}", e)
        if isinstance(e, ast.Constant) and isinstance(e.value, int) and not isinstance(e.value, bool):
            return (f"({e.value})" if e.value < 0 else str(e.value)), "int"
        if isinstance(e, ast.Attribute):
            base, ty = self.expr(e.value, env)
            if ty == "range" and e.attr in POINT_ATTRS:
                return f"({POINT_ATTRS[e.attr]} {base})", "point"
            if ty == "point" and e.attr in INT_ATTRS:
                return f"({INT_ATTRS[e.attr]} {base})", "int"
            fail(f"attribute .{e.attr} of a {ty}", e)
        if isinstance(e, ast.BoolOp) and isinstance(e.op, ast.And):
            parts = [self.expr(v, env) for v in e.values]
            if any(t != "bool" for _, t in parts):
                fail("'and' of non-boolean operands", e)
            return "(" + " && ".join(p for p, _ in parts) + ")", "bool"
        if isinstance(e, ast.BoolOp) and isinstance(e.op, ast.Or):
            parts = [self.expr(v, env) for v in e.values]
            if any(t != "bool" for _, t in parts):
                fail("'or' of non-boolean operands", e)
            return "(" + " || ".join(p for p, _ in parts) + ")", "bool"
        if isinstance(e, ast.UnaryOp) and isinstance(e.op, ast.Not):
            p, t = self.expr(e.operand, env)
            if t != "bool":
                fail("'not' of a non-boolean", e)
            return f"(negb {p})", "bool"
        if isinstance(e, ast.Compare):
            if len(e.ops) != 1:
                fail("chained comparison", e)
            (l, lt), (r, rt) = self.expr(e.left, env), self.expr(e.comparators[0], env)
            op = e.ops[0]
            if lt == "int" and rt == "int":
                tab = {ast.Lt: f"({l} <? {r})", ast.LtE: f"({l} <=? {r})", ast.Gt: f"({r} <? {l})", ast.GtE: f"({r} <=? {l})",
                       ast.Eq: f"({l} =? {r})"}
                if type(op) not in tab:
                    fail("integer comparison operator", e)
                return tab[type(op)], "bool"
            if lt == "point" and rt == "point":
                # CodePoint defines only __lt__ and __le__: a > b and a >= b are answered by b's reflected methods
                have = self.cls_methods["CodePoint"]
                if {"__gt__", "__ge__"} & have:
                    fail("CodePoint defines __gt__/__ge__: the reflected-operand rule of the translator no longer applies", e)
                if not {"__lt__", "__le__"} <= have:
                    fail("CodePoint lacks __lt__/__le__", e)
                tab = {ast.Lt: f"(g_p_lt {l} {r})", ast.LtE: f"(g_p_le {l} {r})", ast.Gt: f"(g_p_lt {r} {l})", ast.GtE: f"(g_p_le {r} {l})"}
                if type(op) not in tab:
                    fail("point comparison operator", e)
                return tab[type(op)], "bool"
            fail(f"comparison of {lt} with {rt}", e)
        if isinstance(e, ast.Call) and isinstance(e.func, ast.Name) and e.func.id in ("min", "max") and len(e.args) == 2 and not e.keywords:
            (a, at), (b, bt) = self.expr(e.args[0], env), self.expr(e.args[1], env)
            if at != "point" or bt != "point":
                fail("min/max of non-points", e)
            # builtin min(a, b): b if b < a else a ; max(a, b): b if b > a (reflected: a < b) else a
            if e.func.id == "min":
                return f"(if g_p_lt {b} {a} then {b} else {a})", "point"
            return f"(if g_p_lt {a} {b} then {b} else {a})", "point"
        if isinstance(e, ast.Call) and isinstance(e.func, ast.Name) and e.func.id == "CodeRange" and not e.args:
            kw = {k.arg: k.value for k in e.keywords}
            if set(kw) != {"start", "end"}:
                fail("CodeRange(...) keywords", e)
            (s, st), (t, tt) = self.expr(kw["start"], env), self.expr(kw["end"], env)
            if st != "point" or tt != "point":
                fail("CodeRange of non-points", e)
            return f"(g_mk_range {s} {t})", "optrange"
        fail(f"expression {ast.dump(e)[:80]}", e)

    def is_type_guard(self, st):
        """if not isinstance(other, X): raise NotImplementedError()"""
        return (isinstance(st, ast.If) and not st.orelse and isinstance(st.test, ast.UnaryOp) and isinstance(st.test.op, ast.Not)
                and isinstance(st.test.operand, ast.Call) and getattr(st.test.operand.func, "id", None) == "isinstance"
                and len(st.body) == 1 and isinstance(st.body[0], ast.Raise))

    def body_return(self, fn, env, want):
        stmts = [s for s in fn.body if not (isinstance(s, ast.Expr) and isinstance(s.value, ast.Constant) and isinstance(s.value.value, str))]
        stmts = [s for s in stmts if not self.is_type_guard(s)]
        if len(stmts) != 1 or not isinstance(stmts[0], ast.Return):
            fail(f"{fn.name}: body is not a single return", fn)
        txt, ty = self.expr(stmts[0].value, env)
        if ty != want:
            fail(f"{fn.name}: returns {ty}, expected {want}", fn)
        return txt

    def guards(self, fn, env):
        """__post_init__: a sequence of `if cond: raise ValueError(...)`; returns the list of rejecting conditions"""
        conds = []
        for st in fn.body:
            if isinstance(st, ast.Expr) and isinstance(st.value, ast.Constant):
                continue
            if not (isinstance(st, ast.If) and not st.orelse and len(st.body) == 1 and isinstance(st.body[0], ast.Raise)):
                fail(f"{fn.name}: statement is not `if cond: raise`", st)
            exc = st.body[0].exc
            name = getattr(exc.func, "id", None) if isinstance(exc, ast.Call) else getattr(exc, "id", None)
            if name != "ValueError":
                fail(f"{fn.name}: raises {name}, not ValueError", st)
            txt, ty = self.expr(st.test, env)
            if ty != "bool":
                fail("guard is not boolean", st)
            conds.append(txt)
        return conds


def main():
    tree = ast.parse(open(SRC).read())
    classes = {c.name: c for c in tree.body if isinstance(c, ast.ClassDef)}
    for c in ("CodePoint", "CodeRange"):
        if c not in classes:
            fail(f"class {c} not found")
    methods = {c: {f.name: f for f in classes[c].body if isinstance(f, ast.FunctionDef)} for c in ("CodePoint", "CodeRange")}
    tr = Tr({c: set(m) for c, m in methods.items()})
    P, R = methods["CodePoint"], methods["CodeRange"]
    need_p = ["__post_init__", "__lt__", "__le__"]
    need_r = ["__post_init__", "overlaps", "__contains__", "__lt__", "__le__", "__add__"]
    for n in need_p:
        if n not in P:
            fail(f"CodePoint.{n} missing")
    for n in need_r:
        if n not in R:
            fail(f"CodeRange.{n} missing")
    pe = {"self": ("self", "point"), "other": ("other", "point")}
    re_ = {"self": ("self", "range"), "other": ("other", "range")}
    out = ["(* GENERATED on every build by tools/translate_origin.py from src/pyoak/origin.py - do not edit.",
           "   The interval methods of CodePoint / CodeRange as the source text says them now. *)",
           "From Oak Require Import Model.Origin.", "Local Open Scope Z_scope.", ""]
    out.append(f"Definition g_p_lt (self other : point) : bool := {tr.body_return(P['__lt__'], pe, 'bool')}.")
    out.append(f"Definition g_p_le (self other : point) : bool := {tr.body_return(P['__le__'], pe, 'bool')}.")
    pg = tr.guards(P["__post_init__"], {"self": ("self", "point")})
    out.append("Definition g_point_rejected (self : point) : bool := " + (" || ".join(pg) if pg else "false") + ".")
    rg = tr.guards(R["__post_init__"], {"self": ("self", "range")})
    out.append("Definition g_range_rejected (self : range) : bool := " + (" || ".join(rg) if rg else "false") + ".")
    out.append("Definition g_mk_range (s e : point) : option range :=\n"
               "  let r := {| r_start := s; r_end := e |} in if g_range_rejected r then None else Some r.")
    out.append(f"Definition g_overlaps (self other : range) : bool := {tr.body_return(R['overlaps'], re_, 'bool')}.")
    out.append(f"Definition g_contains (self other : range) : bool := {tr.body_return(R['__contains__'], re_, 'bool')}.")
    out.append(f"Definition g_r_lt (self other : range) : bool := {tr.body_return(R['__lt__'], re_, 'bool')}.")
    out.append(f"Definition g_r_le (self other : range) : bool := {tr.body_return(R['__le__'], re_, 'bool')}.")
    out.append(f"Definition g_hull (self other : range) : option range := {tr.body_return(R['__add__'], re_, 'optrange')}.")
    txt = "\n".join(out) + "\n"
    os.makedirs(os.path.dirname(OUT), exist_ok=True)
    if not os.path.exists(OUT) or open(OUT).read() != txt:
        open(OUT, "w").write(txt)
    print(OUT)


if __name__ == "__main__":
    try:
        main()
    except Unsupported as e:
        print("translate_origin: UNSUPPORTED:", e, file=sys.stderr)
        if os.path.exists(OUT):
            os.remove(OUT)
        sys.exit(3)
