#!/usr/bin/env python3
"""tools/record_seeds.py <PROP> <worktree> <first-number> <json: {"1": [needs, result], ...}>: copy confirmed seeded changes from
<worktree>/_out/<n>/ to seeded/<PROP>-<first+n-1>/ with a meta.json (change title = first line of notes.md)."""
import json, os, shutil, sys
P, W, first, spec = sys.argv[1], sys.argv[2], int(sys.argv[3]), json.loads(sys.argv[4])
for n, (needs, result) in sorted(spec.items()):
    src = f"{W}/_out/{n}"
    dst = f"/verif/seeded/{P}-{first + int(n) - 1}"
    os.makedirs(dst, exist_ok=True)
    for f in os.listdir(src):
        if os.path.isfile(f"{src}/{f}") and os.path.getsize(f"{src}/{f}") < 200000:
            shutil.copy(f"{src}/{f}", f"{dst}/{f}")
    title = open(f"{src}/notes.md").readline().strip("# \n")
    title = title.split("—", 1)[-1].split(" - ", 1)[-1].strip() if title.lower().startswith("change") else title
    meta = {"property": P, "change": title, "needs_to_manifest": needs,
            "written_by": "independent sub-agent (fifth round: told the earlier rounds' changes in one line each, nothing from /verif) with its own scratch worktree",
            "confirmed": "applied in the scratch worktree: 244/244 tests pass with the patch; demo.py exits 1 with the patch and 0 without (tools/try_seeds.py)",
            "ran": "VERIF_PYOAK_SRC=<patched worktree>/src ./check <owning checks> (quick, seed 0)", "result": result}
    json.dump(meta, open(f"{dst}/meta.json", "w"), indent=1, ensure_ascii=False)
    print(dst, "|", title)
