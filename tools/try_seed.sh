#!/bin/bash
# tools/try_seed.sh <PROP> <worktree> <n> [check-prop ...]: confirm a seeded change and run checks against it
P=$1; W=$2; N=$3; shift 3; CHECKS=${@:-$P}
D=$W/_out/$N
cd $W && git checkout -q -- . && git apply $D/patch.diff || { echo "APPLY FAILED"; exit 2; }
T=$(cd $W && PYTHONPATH=$W/src /venv/bin/python -m pytest -q -p no:cacheprovider tests 2>&1 | tail -1)
DEMO_WITH=$(cd $W && PYTHONPATH=$W/src timeout 120 /venv/bin/python $D/demo.py >/dev/null 2>&1; echo $?)
echo "[$P/$N] tests: $T | demo with patch exit=$DEMO_WITH"
for c in $CHECKS; do
  OUT=$(cd /verif && VERIF_PYOAK_SRC=$W/src ./check $c 2>&1 | grep -E "VIOLATION|^\[$c\]" | cut -c1-160 | head -4)
  echo "  check $c: $OUT"
done
cd $W && git checkout -q -- .
DEMO_WITHOUT=$(cd $W && PYTHONPATH=$W/src timeout 120 /venv/bin/python $D/demo.py >/dev/null 2>&1; echo $?)
echo "  demo without patch exit=$DEMO_WITHOUT"
