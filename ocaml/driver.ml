(* Driver around the extracted model: one case per stdin line "<entry> <term text>", one result
   line per case.  The digest H is an oracle: on a miss the driver prints "?<hex preimage>" and
   reads the digest (text) from stdin. Only generic glue lives here. *)
type ascii = Oak_ext.ascii

let ascii_of_char (ch : char) : ascii =
  let c = Char.code ch in
  let b k = (c lsr k) land 1 = 1 in
  Oak_ext.Ascii (b 0, b 1, b 2, b 3, b 4, b 5, b 6, b 7)

let char_of_ascii (Oak_ext.Ascii (a, b, c, d, e, f, g, h)) : char =
  let v x k = if x then 1 lsl k else 0 in
  Char.chr (v a 0 + v b 1 + v c 2 + v d 3 + v e 4 + v f 5 + v g 6 + v h 7)

let s2l (s : string) : ascii list = List.init (String.length s) (fun i -> ascii_of_char s.[i])
let l2s (l : ascii list) : string =
  let b = Buffer.create 64 in
  List.iter (fun a -> Buffer.add_char b (char_of_ascii a)) l;
  Buffer.contents b

let hex (s : string) : string =
  let b = Buffer.create (2 * String.length s) in
  String.iter (fun c -> Buffer.add_string b (Printf.sprintf "%02x" (Char.code c))) s;
  Buffer.contents b

let cache : (string, ascii list) Hashtbl.t = Hashtbl.create 1024

let h (pre : ascii list) : ascii list =
  let k = l2s pre in
  match Hashtbl.find_opt cache k with
  | Some d -> d
  | None ->
      print_string ("?" ^ hex k ^ "\n");
      flush stdout;
      let d = s2l (input_line stdin) in
      Hashtbl.add cache k d;
      d

let () =
  try
    while true do
      let line = input_line stdin in
      if line = "!reset" then (Hashtbl.reset cache; print_string "ok\n"; flush stdout)
      else begin
        let name, rest =
          match String.index_opt line ' ' with
          | Some i -> (String.sub line 0 i, String.sub line (i + 1) (String.length line - i - 1))
          | None -> (line, "")
        in
        let out = Oak_ext.run_entry h (s2l name) (s2l rest) in
        print_string ("=" ^ l2s out ^ "\n");
        flush stdout
      end
    done
  with End_of_file -> ()
