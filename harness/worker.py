"""Worker: runs the implementation (pyoak from /repo/src) and the extracted model on a shard of cases.
Every implementation call runs under an alarm: pyoak has calls that never return."""
from __future__ import annotations

import importlib
import json
import os
import signal
import sys
import traceback

from .lib.driver import Driver, blake
from .lib.term import Con, from_text, to_text


class CaseTimeout(BaseException):
    pass


def _alarm(signum, frame):
    raise CaseTimeout()


def set_config(mode):
    """The configuration dimension of a case: 0 = pyoak's defaults, 3 = CODEGEN_DEBUG on, 1 = tracing on (pyoak.config.TRACE_LOGGING and the legacy
    package's own switch; the debug records go to loggers without handlers), 2 = the runtime type check on.  No property
    is stated relative to these switches.  Returns the function that puts the defaults back."""
    if not mode:
        return lambda: None
    import pyoak.config as cfg
    old = (cfg.TRACE_LOGGING, cfg.RUNTIME_TYPE_CHECK)
    leg = sys.modules.get("pyoak.legacy.node")
    if leg is None and mode == 1:
        try:
            import warnings
            with warnings.catch_warnings():
                warnings.simplefilter("ignore")
                import pyoak.legacy.node as leg
        except Exception:  # noqa: BLE001
            leg = None
    old_leg = getattr(leg, "TRACE_LOGGING", None)
    if mode == 1:
        cfg.TRACE_LOGGING = True
        if leg is not None:
            leg.TRACE_LOGGING = True
    elif mode == 2:
        cfg.RUNTIME_TYPE_CHECK = True
    old_dbg, old_out = cfg.CODEGEN_DEBUG, sys.stdout
    if mode == 3:
        # the generated accessor sources are printed: into the void (the worker's stdout is a pipe nobody reads while it runs)
        cfg.CODEGEN_DEBUG = True
        sys.stdout = open(os.devnull, "w")

    def restore():
        cfg.TRACE_LOGGING, cfg.RUNTIME_TYPE_CHECK = old
        if mode == 3:
            cfg.CODEGEN_DEBUG = old_dbg
            try:
                sys.stdout.close()
            finally:
                sys.stdout = old_out
        if leg is not None and old_leg is not None:
            leg.TRACE_LOGGING = old_leg
    return restore


def main():
    prop_id, inf, outf = sys.argv[1:4]
    prop = importlib.import_module("harness.props." + prop_id.lower())
    drv = Driver()
    tier = os.environ.get("VERIF_TIER", "quick")
    limit = float(os.environ.get("VERIF_CASE_TIMEOUT", "3" if tier == "quick" else "10"))
    signal.signal(signal.SIGALRM, _alarm)
    with open(outf, "w") as out:
        for line in open(inf):
            c = json.loads(line)
            inp = from_text(c["input"])
            ds = c.get("digest_size")
            H = blake(ds) if ds else None
            restore = set_config(c.get("cfg", 0))
            try:
                signal.setitimer(signal.ITIMER_REAL, limit)
                try:
                    impl = prop.impl(inp, c)
                finally:
                    signal.setitimer(signal.ITIMER_REAL, 0)
                    restore()
            except CaseTimeout:
                impl = Con("ImplTimeout")
            except BaseException as e:  # noqa
                tb = traceback.extract_tb(e.__traceback__)
                where = f"{os.path.basename(tb[-1].filename)}:{tb[-1].lineno}" if tb else ""
                impl = Con("ImplCrash", type(e).__name__, (str(e)[:200] + " @" + where))
            try:
                drv.reset()
                model_text = drv.run_text(getattr(prop, "ENTRY", prop_id), c["input"], H)
                table = {k.hex(): v.decode("ascii") for k, v in drv.table.items()}
            except BaseException as e:  # noqa
                model_text = to_text(Con("ModelError", "driver: " + str(e)[:200]))
                table = {}
                drv = Driver()
            out.write(json.dumps({"i": c["i"], "impl": to_text(impl), "model": model_text, "table": table}) + "\n")
            out.flush()
    drv.close()


if __name__ == "__main__":
    main()
