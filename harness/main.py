"""check <PROP> [--tier quick|thorough] [--seed N] [--replay FILE]

One run = (1) build + proof gates of coq/Props/<PROP>.v, (2) correspondence of the executable model
(extracted from the same Gallina definitions the theorems are about) with /repo/src/pyoak on the committed
corpus and on generated cases, (3) in-kernel re-evaluation of a sample, (4) verdict + evidence.
"""
from __future__ import annotations

import argparse
import fcntl
import hashlib
import importlib
import json
import os
import random
import re
import subprocess
import sys
import time

from .lib.term import Con, coq_string, from_text, shrink_candidates, size, to_text

ROOT = os.path.dirname(os.path.dirname(os.path.abspath(__file__)))
COQ = os.path.join(ROOT, "coq")
BUILD = os.path.join(ROOT, "build")
PY = "/venv/bin/python"

FORBIDDEN = re.compile(
    r"\b(Admitted|admit|Axiom|Axioms|Parameter|Parameters|Conjecture|Conjectures|bypass_check|give_up)\b"
    r"|Unset\s+Guard|Admit\s+Obligations|Unset\s+Positivity|Unset\s+Universe|type-in-type|impredicative-set"
)
ALLOWED_AXIOMS = {
    "functional_extensionality_dep", "FunctionalExtensionality.functional_extensionality_dep",
    "classic", "Classical_Prop.classic", "proof_irrelevance", "ProofIrrelevance.proof_irrelevance",
    "JMeq_eq", "JMeq.JMeq_eq", "Eqdep.Eq_rect_eq.eq_rect_eq", "eq_rect_eq",
    "propositional_extensionality", "PropExtensionality.propositional_extensionality",
}


def log(*a):
    print(*a, flush=True)


# ------------------------------------------------------------------------------------------ build + gates
def ensure_build():
    os.makedirs(BUILD, exist_ok=True)
    t0 = time.time()   # tools/build.sh serialises itself with flock
    r = subprocess.run([os.path.join(ROOT, "tools", "build.sh")], capture_output=True, text=True, timeout=3400)
    return r.returncode == 0, (r.stdout + r.stderr)[-4000:], time.time() - t0


def strip_comments(src: str) -> str:
    out = []
    depth = 0
    i = 0
    in_str = False
    while i < len(src):
        if not in_str and src.startswith("(*", i):
            depth += 1
            i += 2
            continue
        if not in_str and depth and src.startswith("*)", i):
            depth -= 1
            i += 2
            continue
        c = src[i]
        if depth == 0:
            if c == '"':
                in_str = not in_str
            out.append(c)
        i += 1
    return "".join(out)


def grep_gate():
    """No Admitted/admit/Axiom/Parameter/... anywhere, no Variable/Hypothesis outside a Section."""
    bad = []
    for dp, _, fs in os.walk(COQ):
        for f in fs:
            if not f.endswith(".v"):
                continue
            p = os.path.join(dp, f)
            src = strip_comments(open(p, encoding="utf-8").read())
            src_nostr = re.sub(r'"(?:[^"]|"")*"', '""', src)
            for m in FORBIDDEN.finditer(src_nostr):
                bad.append(f"{os.path.relpath(p, ROOT)}: {m.group(0)}")
            depth = 0
            for sent in re.split(r"\.\s", src_nostr):
                s = sent.strip()
                if re.match(r"^(Section|Module)\b", s) and ":=" not in s:
                    depth += 1
                elif re.match(r"^End\b", s):
                    depth -= 1
                elif depth == 0 and re.match(r"^(Local\s+|Global\s+)?(Variable|Variables|Hypothesis|Hypotheses|Context)\b", s):
                    bad.append(f"{os.path.relpath(p, ROOT)}: top-level {s[:40]}")
    return bad


def props_files(prop_id: str):
    """Props/<id>.v plus continuation files Props/<id>b.v, <id>c.v ..."""
    d = os.path.join(COQ, "Props")
    return sorted(f[:-2] for f in os.listdir(d) if re.fullmatch(re.escape(prop_id) + r"[a-z]?\.v", f))


def theorem_names(prop_id: str):
    names = []
    for mod in props_files(prop_id):
        src = strip_comments(open(os.path.join(COQ, "Props", mod + ".v")).read())
        names += re.findall(r"^\s*(?:Theorem|Lemma|Corollary)\s+(\w+)", src, re.M)
    return names


def assumption_gate(prop_id: str):
    """Compile a file printing the assumptions of every theorem of Props/<id>*.v.
    Returns (per-theorem dict name -> list of axioms or None when missing, raw log)."""
    names = theorem_names(prop_id)
    res = {n: None for n in names}
    mods = props_files(prop_id)
    for mod in mods:
        vo = os.path.join(COQ, "Props", mod + ".vo")
        src = os.path.join(COQ, "Props", mod + ".v")
        if not os.path.exists(vo) or os.path.getmtime(vo) < os.path.getmtime(src):
            return res, "Props/%s.vo missing or stale" % mod
        q = subprocess.run(["make", "-f", "Makefile.coq", "-q", "Props/" + mod + ".vo"], cwd=COQ, capture_output=True)
        if q.returncode != 0:
            return res, "Props/%s.vo is not up to date with its dependencies (a dependency failed to rebuild)" % mod
    if not names:
        return res, "no theorems"
    f = os.path.join(BUILD, f"assum_{prop_id}_{os.getpid()}.v")
    with open(f, "w") as fh:
        fh.write("From Oak Require Import " + " ".join("Props." + m for m in mods) + ".\nFrom Coq Require Import String.\n")
        for n in names:
            fh.write(f'Eval compute in "MARK {n}"%string.\nPrint Assumptions {n}.\n')
    r = subprocess.run(["coqc", "-Q", COQ, "Oak", f], capture_output=True, text=True, timeout=1200, cwd=BUILD)
    for ext in (".v", ".vo", ".vok", ".vos", ".glob"):
        try:
            os.remove(f[:-2] + ext)
        except OSError:
            pass
    out = r.stdout
    if r.returncode != 0:
        return res, (r.stdout + r.stderr)[-2000:]
    cur = None
    for line in out.splitlines():
        m = re.search(r'"MARK (\w+)"', line)
        if m:
            cur = m.group(1)
            res[cur] = None
            continue
        if cur is None:
            continue
        if "Closed under the global context" in line:
            res[cur] = []
        elif line.startswith("Axioms:"):
            res[cur] = []
        elif res.get(cur) is not None and re.match(r"^[\w.']+\s*:", line):
            res[cur].append(line.split(":")[0].strip())
        elif res.get(cur) is not None and re.match(r"^[\w.']+$", line.strip()) and line.strip():
            res[cur].append(line.strip())
    return res, out[-1500:]


# ------------------------------------------------------------------------------------------ cases
def load_corpus(prop_id: str):
    d = os.path.join(ROOT, "harness", "corpus", prop_id)
    cases = []
    if os.path.isdir(d):
        for f in sorted(os.listdir(d)):
            if f.endswith(".json"):
                c = json.load(open(os.path.join(d, f)))
                items = c if isinstance(c, list) else [c]
                for it in items:
                    it.setdefault("kind", "corpus:" + f[:-5])
                    it["corpus"] = f
                    cases.append(it)
    return cases


def run_shards(prop_id: str, cases, tier: str, seed: int, jobs: int):
    """cases: list of dicts with 'input' (term text) and optional 'digest_size'. Returns list of result dicts."""
    os.makedirs(os.path.join(BUILD, "shards"), exist_ok=True)
    n = len(cases)
    if n == 0:
        return []
    per = max(1, min(int(os.environ.get("VERIF_SHARD", "150")), (n + jobs - 1) // jobs))
    shards = [list(range(i, min(n, i + per))) for i in range(0, n, per)]
    procs = []
    results = [None] * n
    pending = list(enumerate(shards))
    running = []
    tag = f"{prop_id}-{os.getpid()}"

    def start(k, idxs):
        inf = os.path.join(BUILD, "shards", f"{tag}-{k}.in")
        outf = os.path.join(BUILD, "shards", f"{tag}-{k}.out")
        with open(inf, "w") as fh:
            for i in idxs:
                c = cases[i]
                fh.write(json.dumps({"i": i, "input": c["input"], "digest_size": c.get("digest_size"),
                                     "opts": c.get("opts"), "cfg": c.get("cfg", 0)}) + "\n")
        env = dict(os.environ)
        env["PYTHONPATH"] = os.environ.get("VERIF_PYOAK_SRC", "/repo/src") + ":" + ROOT
        env["PYTHONHASHSEED"] = str((seed * 7919 + k * 104729 + 1) % 4294967295)
        env["VERIF_TIER"] = tier
        p = subprocess.Popen([PY, "-m", "harness.worker", prop_id, inf, outf], env=env, cwd=ROOT,
                             stdout=subprocess.PIPE, stderr=subprocess.STDOUT, text=True)
        return (k, idxs, inf, outf, p, time.time())

    budget = 900 if tier == "quick" else 7200
    while pending or running:
        while pending and len(running) < jobs:
            k, idxs = pending.pop(0)
            running.append(start(k, idxs))
        still = []
        for (k, idxs, inf, outf, p, t0) in running:
            rc = p.poll()
            if rc is None and time.time() - t0 < budget:
                still.append((k, idxs, inf, outf, p, t0))
                continue
            if rc is None:
                p.kill()
            out = p.stdout.read() if p.stdout else ""
            got = {}
            if os.path.exists(outf):
                for line in open(outf):
                    try:
                        r = json.loads(line)
                        got[r["i"]] = r
                    except Exception:
                        pass
            for i in idxs:
                if i in got:
                    results[i] = got[i]
                else:
                    results[i] = {"i": i, "impl": to_text(Con("WorkerDied", (out or "")[-300:])),
                                  "model": to_text(Con("WorkerDied")), "table": {}}
            for f in (inf, outf):
                try:
                    os.remove(f)
                except OSError:
                    pass
        running = still
        if running:
            time.sleep(0.02)
    return results


# ------------------------------------------------------------------------------------------ kernel cross-check
def kernel_crosscheck(prop, sample):
    """sample: list of (input text, model output text, table dict hexpre->digest). coqc must print true."""
    if not sample:
        return True, 0, ""
    f = os.path.join(BUILD, f"kc_{prop.ID}_{os.getpid()}.v")
    files = sorted({m for m in prop.RUN_MODULES})
    with open(f, "w") as fh:
        fh.write("From Oak Require Import Base.Term " + " ".join(files) + ".\nOpen Scope string_scope.\n")
        fh.write("Definition cases : list (list (pystr * pystr) * (string * string)) := [\n")
        rows = []
        for inp, outp, tab in sample:
            tabs = "; ".join(f"(hx {coq_string(k)}, lit {coq_string(v)})" for k, v in tab.items())
            rows.append(f"  ([{tabs}], ({coq_string(inp)}, {coq_string(outp)}))")
        fh.write(";\n".join(rows) + "].\n")
        fh.write(f"Definition ok (c : list (pystr * pystr) * (string * string)) : bool :=\n"
                 f"  pystr_eqb (run_line {prop.RUNNER} (tab_lookup (fst c)) (lit (fst (snd c)))) (lit (snd (snd c))).\n")
        fh.write("Eval vm_compute in (forallb ok cases, List.length (List.filter (fun c => negb (ok c)) cases)).\n")
    r = subprocess.run(["bash", "-c", f"ulimit -s unlimited; exec coqc -Q {COQ} Oak {f}"], capture_output=True, text=True, timeout=1800, cwd=BUILD)
    ok = r.returncode == 0 and re.search(r"=\s*\(true,\s*0(%nat)?\)", r.stdout.replace("\n", " ")) is not None
    for ext in (".v", ".vo", ".vok", ".vos", ".glob"):
        try:
            os.remove(f[:-2] + ext)
        except OSError:
            pass
    return ok, len(sample), (r.stdout + r.stderr)[-800:]


# ------------------------------------------------------------------------------------------ findings
def load_findings(prop_id):
    p = os.path.join(ROOT, "known_findings.json")
    if not os.path.exists(p):
        return []
    return [f for f in json.load(open(p)).get("findings", []) if f.get("property") == prop_id and f.get("status") == "open"]


def write_replay(prop_id, n, payload):
    d = os.path.join(ROOT, "replays")
    os.makedirs(d, exist_ok=True)
    p = os.path.join(d, f"{prop_id}-{n}.json")
    payload = dict(payload)
    payload["replay_cmd"] = f"cd /verif && ./check {prop_id} --replay {p}"
    with open(p, "w") as fh:
        json.dump(payload, fh, indent=1)
    return p


# ------------------------------------------------------------------------------------------ main
def safe_search(prop, rng, tier):
    """the implementation-only search for a failing input; a search that itself dies on the changed code finds nothing
    (the violation is still reported, as no-failing-input-found, instead of the check crashing without a VIOLATION line)"""
    try:
        return prop.search(rng, tier)
    except Exception as e:  # noqa
        log(f"[search] raised {type(e).__name__}: {str(e)[:200]}")
        return None


def main():
    ap = argparse.ArgumentParser()
    ap.add_argument("prop")
    ap.add_argument("--tier", default=os.environ.get("VERIF_TIER", "quick"))
    ap.add_argument("--seed", type=int, default=int(os.environ.get("VERIF_SEED", "0") or 0))
    ap.add_argument("--replay")
    ap.add_argument("--jobs", type=int, default=int(os.environ.get("VERIF_JOBS", "16")))
    ap.add_argument("--no-build", action="store_true")
    args = ap.parse_args()
    tier = "thorough" if args.tier.startswith("t") else "quick"
    prop_id = args.prop
    t_start = time.time()
    prop = importlib.import_module("harness.props." + prop_id.lower())
    rng = random.Random(f"{prop_id}:{args.seed}:{tier}")

    # ---- 1. build + gates
    if args.no_build:
        build_ok, build_log, build_s = True, "", 0.0
    else:
        build_ok, build_log, build_s = ensure_build()
    names = theorem_names(prop_id)
    assum, assum_log = assumption_gate(prop_id)
    grep_bad = grep_gate()
    obligations = []
    for n in names:
        ax = assum.get(n)
        ok = ax is not None and all(a.split(".")[-1] in {x.split(".")[-1] for x in ALLOWED_AXIOMS} for a in ax)
        obligations.append({"name": "theorem:" + n, "ok": ok, "axioms": ax})
    obligations.append({"name": "gate:no-admitted-axiom-parameter", "ok": not grep_bad, "detail": grep_bad[:10]})
    obligations.append({"name": "gate:build", "ok": build_ok and bool(names), "detail": "" if build_ok else build_log[-600:]})
    driver_ok = os.path.exists(os.path.join(BUILD, "driver"))
    if tier == "thorough" and names and not args.replay:
        # independent re-check of the compiled theorems and everything they depend on; prints the axioms relied upon
        try:
            r = subprocess.run(["coqchk", "-silent", "-o", "-Q", COQ, "Oak"] + ["Oak.Props." + m for m in props_files(prop_id)],
                               capture_output=True, text=True, timeout=3000, cwd=COQ)
            out = r.stdout + r.stderr
            m = re.search(r"\* Axioms:(.*?)\n\s*\n\* Constants/Inductives relying on type-in-type:(.*?)\n\s*\n"
                          r"\* Constants/Inductives relying on unsafe \(co\)fixpoints:(.*?)\n\s*\n\* Inductives whose positivity is assumed:(.*?)\n",
                          out, re.S)
            if r.returncode == 0 and m:
                axioms = [a.strip() for a in m.group(1).split("\n") if a.strip() and a.strip() != "<none>"]
                unsafe = [x.strip() for g in (2, 3, 4) for x in m.group(g).split("\n") if x.strip() and x.strip() != "<none>"]
                allowed = {x.split(".")[-1] for x in ALLOWED_AXIOMS}
                okc = not unsafe and all(a.split(".")[-1].split(" ")[0] in allowed for a in axioms)
                obligations.append({"name": "coqchk:independent-recheck", "ok": okc, "axioms": axioms, "detail": unsafe})
            else:
                obligations.append({"name": "coqchk:independent-recheck", "ok": False, "detail": out[-600:]})
        except subprocess.TimeoutExpired:
            obligations.append({"name": "coqchk:independent-recheck", "ok": False, "detail": "timeout"})

    # ---- replay mode
    if args.replay:
        rp = json.load(open(args.replay))
        cases = [{"input": rp["input"], "digest_size": rp.get("digest_size"), "opts": rp.get("opts"), "cfg": rp.get("cfg", 0),
                  "kind": "replay"}]
        res = run_shards(prop_id, cases, tier, args.seed, 1)
        r = res[0]
        diffs = prop.compare(from_text(cases[0]["input"]), from_text(r["impl"]), from_text(r["model"]))
        log("input :", cases[0]["input"][:2000])
        log("impl  :", r["impl"][:2000])
        log("model :", r["model"][:2000])
        if diffs:
            log(f"VIOLATION property={prop_id} replay={args.replay}")
            sys.exit(1)
        log("replay: implementation and model agree")
        sys.exit(0)

    # ---- 2. correspondence
    corpus = load_corpus(prop_id)
    gen = prop.gen_cases(rng, tier) if driver_ok else []
    cases = corpus + gen
    for c in cases:
        if not isinstance(c["input"], str):
            c["input"] = to_text(c["input"])
    # the configuration dimension (harness/worker.py): no property depends on pyoak's tracing switch, and building
    # well-typed trees does not depend on the runtime type check; a quarter of the generated cases runs with tracing on,
    # an eighth with the type check on (properties whose generators build ill-typed values opt out: CONFIG_MODES)
    # (the type check only where every generated tree is well typed by construction: histories and mutation pairs of the
    # other properties deliberately contain children / values of other types, which pyoak without the check accepts)
    rtc_ok = prop_id in ("C04", "C05", "C06", "C07", "C08", "C12", "C15", "C16")
    modes = getattr(prop, "CONFIG_MODES", (0, 0, 0, 0, 1, 1, 2, 0, 3, 0) if rtc_ok else (0, 0, 0, 1, 0, 1, 0, 0, 3, 0))
    for k, c in enumerate(gen):
        c.setdefault("cfg", modes[k % len(modes)])
    results = run_shards(prop_id, cases, tier, args.seed, args.jobs) if driver_ok else []

    # a time-out or a dead worker on a loaded machine is not a verdict: re-run those cases alone with a long limit
    retry = [i for i, r in enumerate(results) if r["impl"].startswith("(ImplTimeout") or r["impl"].startswith("(WorkerDied")
             or r["model"].startswith("(WorkerDied") or r["model"].startswith("(ModelError \"64726976")
             or (hasattr(prop, "flaky") and prop.flaky(r["impl"], r["model"]))]
    if retry and len(retry) <= 200:
        os.environ["VERIF_CASE_TIMEOUT"] = "30" if tier == "quick" else "60"
        os.environ["VERIF_STEP_LIMIT"] = "10"
        os.environ["VERIF_SHARD"] = "1"
        again = run_shards(prop_id, [cases[i] for i in retry], tier, args.seed + 1, min(4, args.jobs))
        os.environ.pop("VERIF_CASE_TIMEOUT", None)
        os.environ.pop("VERIF_STEP_LIMIT", None)
        os.environ.pop("VERIF_SHARD", None)
        for i, r in zip(retry, again):
            results[i] = r

    disagreements = []
    distribution = {}
    distinct = set()
    nontrivial = 0
    infra_errors = []
    for c, r in zip(cases, results):
        distribution[c.get("kind", "?")] = distribution.get(c.get("kind", "?"), 0) + 1
        inp = from_text(c["input"])
        impl = from_text(r["impl"])
        model = from_text(r["model"])
        if isinstance(model, Con) and model.name in ("ModelError", "WorkerDied"):
            infra_errors.append({"input": c["input"][:500], "model": r["model"][:300], "impl": r["impl"][:300]})
            continue
        key = hashlib.sha1(c["input"].encode()).hexdigest()
        if key not in distinct:
            distinct.add(key)
            if prop.nontrivial(inp, model):
                nontrivial += 1
        diffs = prop.compare(inp, impl, model)
        if diffs:
            disagreements.append((c, r, diffs))

    # ---- 3. kernel cross-check of a sample
    ksize = 40 if tier == "quick" else 400
    pool = [(c["input"], r["model"], r.get("table", {})) for c, r in zip(cases, results)
            if not r["model"].startswith("(ModelError") and not r["model"].startswith("(WorkerDied") and len(c["input"]) < 6000]
    rng2 = random.Random(args.seed + 17)
    ksample = pool if len(pool) <= ksize else rng2.sample(pool, ksize)
    k_ok, k_n, k_log = kernel_crosscheck(prop, ksample) if driver_ok and pool else (False, 0, "no driver / no cases")
    obligations.append({"name": "kernel-crosscheck:extracted-driver-vs-vm_compute", "ok": k_ok, "detail": "" if k_ok else k_log})
    obligations.append({"name": f"corr:{prop_id}:infrastructure", "ok": not infra_errors and driver_ok and len(cases) > 0,
                        "detail": infra_errors[:3]})

    # ---- 4. verdict
    findings = load_findings(prop_id)
    known_hit = {}
    violations = []
    for c, r, diffs in disagreements:
        inp, impl, model = from_text(c["input"]), from_text(r["impl"]), from_text(r["model"])
        fk = prop.finding_key(inp, impl, model, diffs) if hasattr(prop, "finding_key") else None
        hit = next((f for f in findings if fk is not None and f.get("key") == fk), None)
        if hit:
            known_hit.setdefault(hit["key"], (hit, c))
            continue
        violations.append((c, r, diffs))
    obligations.append({"name": f"corr:{prop_id}:model-vs-implementation", "ok": not violations,
                        "detail": [d for _, _, d in violations[:3]]})

    for key, (hit, c) in sorted(known_hit.items()):
        log(f"KNOWN-FINDING: property={prop_id} {hit.get('what', key)}")

    exit_code = 0
    vio_lines = []
    n_rep = 0
    if violations:
        # violations of the property's own clauses first (one per distinct clause set), shrunk;
        # if only model-specific detail differs, the tie is broken: search, else no-failing-input-found
        def is_spec(c, r, diffs):
            if not hasattr(prop, "spec_violation"):
                return True
            return bool(prop.spec_violation(from_text(c["input"]), from_text(r["impl"]), from_text(r["model"]), diffs))
        spec_v, seen_cl = [], set()
        for c, r, diffs in violations:
            if is_spec(c, r, diffs) and tuple(diffs) not in seen_cl:
                seen_cl.add(tuple(diffs))
                spec_v.append((c, r, diffs))
        for c, r, diffs in spec_v[:3]:
            small = shrink(prop, prop_id, c, tier, args.seed)
            if not is_spec(small, small, small["diffs"]):
                small = dict(c, impl=r["impl"], model=r["model"], diffs=diffs)
            n_rep += 1
            p = write_replay(prop_id, n_rep, {"property": prop_id, "kind": "failing-input", "clauses": small["diffs"],
                                             "input": small["input"], "digest_size": small.get("digest_size"), "opts": small.get("opts"), "cfg": small.get("cfg", 0),
                                             "impl": small["impl"], "model": small["model"], "case_kind": c.get("kind")})
            vio_lines.append(f"VIOLATION property={prop_id} replay={p}")
        if not spec_v:
            c, r, diffs = violations[0]
            found = safe_search(prop, rng, tier) if hasattr(prop, "search") else None
            n_rep += 1
            if found:
                p = write_replay(prop_id, n_rep, {"property": prop_id, "kind": "failing-input-from-search", **found})
                vio_lines.append(f"VIOLATION property={prop_id} replay={p}")
            else:
                p = write_replay(prop_id, n_rep, {"property": prop_id, "kind": "broken-correspondence",
                                                 "broken": f"corr:{prop_id}:" + ",".join(diffs),
                                                 "note": "the implementation no longer matches the model the theorems are about, on an observable "
                                                         "the property does not fix; no input violating the property's own clauses was found",
                                                 "disagreeing_cases": len(violations),
                                                 "input": c["input"], "digest_size": c.get("digest_size"), "opts": c.get("opts"), "cfg": c.get("cfg", 0),
                                                 "impl": r["impl"], "model": r["model"]})
                vio_lines.append(f"VIOLATION property={prop_id} replay={p} no-failing-input-found")
    failed_obl = [o for o in obligations if not o["ok"] and not o["name"].startswith(f"corr:{prop_id}:model-vs")]
    if failed_obl and not vio_lines:
        # a theorem / gate / infrastructure obligation no longer checks: search the implementation directly
        found = safe_search(prop, rng, tier) if hasattr(prop, "search") and driver_ok else None
        n_rep += 1
        if found:
            p = write_replay(prop_id, n_rep, {"property": prop_id, "kind": "failing-input-from-search", **found})
            vio_lines.append(f"VIOLATION property={prop_id} replay={p}")
        else:
            p = write_replay(prop_id, n_rep, {"property": prop_id, "kind": "broken-obligation",
                                             "broken": [o["name"] for o in failed_obl], "detail": failed_obl[:5]})
            vio_lines.append(f"VIOLATION property={prop_id} replay={p} no-failing-input-found")
    if vio_lines:
        exit_code = 1

    # ---- evidence
    wall = time.time() - t_start
    samples = []
    for c, r in list(zip(cases, results))[:: max(1, len(cases) // 5)][:6]:
        samples.append({"kind": c.get("kind"), "input": c["input"][:700], "model": r["model"][:500], "impl_agrees": r["impl"] == r["model"]})
    ev = {
        "property_id": prop_id, "tier": tier, "seed": args.seed, "level": "proof",
        "coverage": {
            "obligations": len(obligations), "discharged": sum(1 for o in obligations if o["ok"]),
            "obligation_list": [{k: v for k, v in o.items() if k != "detail" or v} for o in obligations],
            "checker_cmd": f"cd /verif && tools/build.sh && ./check {prop_id} --tier {tier}",
            "trusted_base": prop.TRUSTED_BASE + COMMON_TRUSTED,
            "evaluations": len(cases), "distinct_nontrivial": nontrivial,
            "rule": prop.RULE, "samples": samples or [{"note": "no cases ran"}],
            "distribution": distribution, "kernel_crosschecked_cases": k_n,
            "disagreements": len(disagreements), "known_finding_hits": sorted(known_hit.keys()),
            "corpus_cases": len(corpus), "build_s": round(build_s, 1),
        },
        "assumptions": prop.ASSUMPTIONS,
        "wall_s": round(wall, 2), "violations": len(vio_lines),
    }
    # runs against a patched copy of pyoak (VERIF_PYOAK_SRC: mutant / seeded-change experiments) never overwrite
    # the evidence of the real tree
    ev_dir = os.path.join(ROOT, "evidence") if not os.environ.get("VERIF_PYOAK_SRC") else os.path.join(BUILD, "evidence-scratch")
    os.makedirs(ev_dir, exist_ok=True)
    with open(os.path.join(ev_dir, prop_id + ".json"), "w") as fh:
        json.dump(ev, fh, indent=1, sort_keys=True)
    log(f"[{prop_id}] tier={tier} seed={args.seed} theorems={len(names)} obligations={ev['coverage']['discharged']}/{len(obligations)} "
        f"cases={len(cases)} nontrivial={nontrivial} disagreements={len(disagreements)} kernel={k_n}:{'ok' if k_ok else 'FAIL'} wall={wall:.1f}s")
    for o in obligations:
        if not o["ok"]:
            log("  FAILED obligation:", o["name"], json.dumps(o.get("detail", o.get("axioms")))[:600])
    for l in vio_lines:
        log(l)
    sys.exit(exit_code)


def shrink(prop, prop_id, c, tier, seed):
    """Greedy structural shrinking: keep a candidate iff model accepts it and the disagreement persists."""
    cur = dict(c)
    res = run_shards(prop_id, [cur], tier, seed, 1)[0]
    cur.update(impl=res["impl"], model=res["model"],
               diffs=prop.compare(from_text(cur["input"]), from_text(res["impl"]), from_text(res["model"])))
    if not cur["diffs"]:
        cur["diffs"] = ["(not reproducible in isolation)"]
        return cur
    deadline = time.time() + (40 if tier == "quick" else 300)
    improved = True
    while improved and time.time() < deadline:
        improved = False
        cands = []
        for t in shrink_candidates(from_text(cur["input"])):
            cands.append(t)
            if len(cands) >= 32:
                break
        if not cands:
            break
        batch = [dict(cur, input=to_text(t)) for t in cands]
        out = run_shards(prop_id, batch, tier, seed, 8)
        best = None
        for b, r in zip(batch, out):
            if r["model"].startswith("(ModelError") or r["model"].startswith("(WorkerDied"):
                continue
            d = prop.compare(from_text(b["input"]), from_text(r["impl"]), from_text(r["model"]))
            if d and (best is None or len(b["input"]) < len(best["input"])):
                best = dict(b, impl=r["impl"], model=r["model"], diffs=d)
        if best is not None and len(best["input"]) < len(cur["input"]):
            cur = best
            improved = True
    return cur


COMMON_TRUSTED = [
    "Coq 8.16.1 kernel (coqc); vm_compute for Examples, refutation witnesses and the in-kernel re-evaluation; no native_compute",
    "extraction with ExtrOcamlBasic directives only (bool, option, list, prod, unit, sumbool, sumor mapped to OCaml's); no Extract Constant / Extract Inductive of our own",
    "ocaml/driver.ml (string <-> list ascii, the H pipe) and OCaml 4.13.1 - cross-checked each run against vm_compute on a sample",
    "Python harness: generators, concretisation printers, canonicalisation of observables, hashlib.blake2b",
]

if __name__ == "__main__":
    main()
