"""Generic case terms shared with the Gallina side (coq/Base/Term.v).

Python representation:  int -> TInt, bytes/str -> TStr (str is UTF-8 encoded), Con(name, *args) -> TCon,
list/tuple -> TList, True/False -> (T)/(F), None -> (None).
Text format: ints in decimal, strings as "hex", (Name a b), [a b].
"""
from __future__ import annotations


class Con:
    __slots__ = ("name", "args")

    def __init__(self, name: str, *args):
        self.name = name
        self.args = tuple(norm(a) for a in args)

    def __eq__(self, other):
        return isinstance(other, Con) and self.name == other.name and self.args == other.args

    def __hash__(self):
        return hash((self.name, self.args))

    def __repr__(self):
        return to_text(self)


def norm(t):
    if isinstance(t, bool):
        return Con("T") if t else Con("F")
    if t is None:
        return Con("None")
    if isinstance(t, str):
        return t.encode("utf-8")
    if isinstance(t, (list, tuple)):
        return tuple(norm(x) for x in t)
    if isinstance(t, (int, bytes, Con)):
        return t
    raise TypeError(f"not a term: {t!r}")


def Some(x):
    return Con("Some", x)


def to_text(t) -> str:
    t = norm(t)
    if isinstance(t, int):
        return str(t)
    if isinstance(t, bytes):
        return '"' + t.hex() + '"'
    if isinstance(t, Con):
        return "(" + t.name + "".join(" " + to_text(a) for a in t.args) + ")"
    if isinstance(t, tuple):
        return "[" + "".join(" " + to_text(a) for a in t) + "]"
    raise TypeError(t)


def from_text(s: str):
    toks = _tokenize(s)
    pos = 0

    def parse():
        nonlocal pos
        k = toks[pos]
        pos += 1
        if k == "(":
            name = toks[pos]
            pos += 1
            args = []
            while toks[pos] != ")":
                args.append(parse())
            pos += 1
            return Con(name, *args)
        if k == "[":
            items = []
            while toks[pos] != "]":
                items.append(parse())
            pos += 1
            return tuple(items)
        if k.startswith('"'):
            return bytes.fromhex(k[1:-1])
        return int(k)

    r = parse()
    if pos != len(toks):
        raise ValueError("trailing tokens")
    return r


def _tokenize(s: str):
    out = []
    i = 0
    n = len(s)
    while i < n:
        c = s[i]
        if c == " ":
            i += 1
        elif c in "()[]":
            out.append(c)
            i += 1
        elif c == '"':
            j = s.index('"', i + 1)
            out.append(s[i : j + 1])
            i = j + 1
        else:
            j = i
            while j < n and s[j] not in ' ()[]"':
                j += 1
            out.append(s[i:j])
            i = j
    return out


def size(t) -> int:
    t = norm(t)
    if isinstance(t, Con):
        return 1 + sum(size(a) for a in t.args)
    if isinstance(t, tuple):
        return 1 + sum(size(a) for a in t)
    return 1


def coq_string(s: str) -> str:
    """A Coq string literal for printable-ASCII text."""
    return '"' + s.replace('"', '""') + '"'


def shrink_candidates(t):
    """Generic structural shrinking: yields smaller terms (drop list elements, shrink ints/strings,
    replace a constructor by one of its same-shaped arguments)."""
    t = norm(t)
    if isinstance(t, int):
        if t != 0:
            yield 0
            if abs(t) > 1:
                yield t // 2
        return
    if isinstance(t, bytes):
        if len(t) > 0:
            yield t[: len(t) // 2]
            yield t[1:]
            yield t[:-1]
        return
    if isinstance(t, tuple):
        for i in range(len(t)):
            yield t[:i] + t[i + 1 :]
        for i, x in enumerate(t):
            for y in shrink_candidates(x):
                yield t[:i] + (y,) + t[i + 1 :]
        return
    if isinstance(t, Con):
        for a in t.args:
            if isinstance(a, Con) and a.name == t.name:
                yield a
        for i, x in enumerate(t.args):
            for y in shrink_candidates(x):
                yield Con(t.name, *(t.args[:i] + (y,) + t.args[i + 1 :]))


def canon(t):
    """Canonical form for comparisons: the element list of every (VFset [...]) is sorted (sets are unordered)."""
    t = norm(t)
    if isinstance(t, Con):
        args = tuple(canon(a) for a in t.args)
        if t.name == "VFset" and len(args) == 1 and isinstance(args[0], tuple):
            args = (tuple(sorted(args[0], key=to_text)),)
        c = Con.__new__(Con)
        c.name, c.args = t.name, args
        return c
    if isinstance(t, tuple):
        return tuple(canon(a) for a in t)
    return t
