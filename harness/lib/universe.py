"""Universes (families of ASTNode dataclasses) and trees over them, generated in the model's vocabulary and
concretised to Python source / pyoak objects.  Nothing here reads pyoak introspection: the class table given
to the model is what the generator decided, and the Python classes are printed from the same decision."""
from __future__ import annotations

import itertools
import sys
import types

from .term import Con, Some

_uid = itertools.count()

PTYPES = ["int", "str", "bool", "optint", "enum", "tupint", "tupstr", "fsetstr", "fsetint", "float", "path", "any"]
PY_ANN = {
    "int": "int", "str": "str", "bool": "bool", "optint": "int | None", "enum": "{enum}", "tupint": "tuple[int, ...]",
    "tupstr": "tuple[str, ...]", "fsetstr": "frozenset[str]", "fsetint": "frozenset[int]", "float": "float",
    "path": "Path", "any": "Any",
}
SEP_ALPHABET = list(":=()[]@<>'\",\\ ") + ["a", "b", "1", "é", "雪", "<class 'str'>", "):b=<class 'str'>(", "-1]="]


class FieldSpec:
    def __init__(self, name, role, compare=True, init=True, kw_only=False, ptype=None, child_types=(), fixed=0,
                 default=None, has_default=False):
        self.name, self.role, self.compare, self.init, self.kw_only = name, role, compare, init, kw_only
        self.ptype, self.child_types, self.fixed = ptype, tuple(child_types), fixed
        self.default, self.has_default = default, has_default  # default: model value term (props) / None

    def term(self):
        return Con("F", self.name, Con(self.role), self.compare, self.init, self.kw_only)


class ClassSpec:
    def __init__(self, name, base, own, falsy=False, slots=False, mixins=()):
        self.name, self.base, self.own, self.falsy, self.slots = name, base, own, falsy, slots
        self.mixins = tuple(mixins)   # secondary base classes (multiple inheritance), after the primary base


class Universe:
    def __init__(self, classes, enum_name, future, uid):
        self.classes = classes  # list[ClassSpec], bases before subclasses
        self.by_name = {c.name: c for c in classes}
        self.enum_name = enum_name
        self.future = future
        self.uid = uid
        self.module = None

    def clone(self, rng):
        """same structure under fresh class names (classes are process-global in pyoak: serialize.TYPES)"""
        uid = next(_uid)
        old = self.enum_name[len("Color"):]
        new = f"_u{uid}x{rng.randint(0, 10**6)}"
        d = universe_to_json(self)
        import json
        txt = json.dumps(d).replace(old, new).replace(old.encode().hex(), new.encode().hex())
        d2 = json.loads(txt)
        d2["uid"] = uid
        return universe_from_json(d2)

    # ----- what the model is told
    def direct_bases(self, cname):
        c = self.by_name[cname]
        return ([c.base] if c.base is not None else []) + list(c.mixins)

    def linearize(self, cname):
        """C3 linearisation (Python's MRO) without ASTNode/object"""
        bs = self.direct_bases(cname)
        seqs = [self.linearize(b) for b in bs] + [list(bs)]
        out = [cname]
        while any(seqs):
            for sq in seqs:
                if not sq:
                    continue
                h = sq[0]
                if not any(h in o[1:] for o in seqs):
                    break
            else:
                raise ValueError("inconsistent hierarchy")
            out.append(h)
            seqs = [[x for x in sq if x != h] if sq and sq[0] == h else sq for sq in seqs]
            seqs = [sq for sq in seqs]
        return out

    def bases(self, cname):
        """MRO tail: nearest first, ASTNode excluded"""
        return self.linearize(cname)[1:]

    def term(self):
        return Con("CT", [Con("Cls", c.name, self.bases(c.name), [f.term() for f in c.own]) for c in self.classes])

    def merged(self, cname):
        """dataclass field order (the generator's own computation; the model computes fields_of itself and the
        accessor observables compare both with dataclasses.fields)."""
        chain = [cname] + self.bases(cname)
        fields = []
        for cn in reversed(chain):
            for f in self.by_name[cn].own:
                for i, g in enumerate(fields):
                    if g.name == f.name:
                        fields[i] = f
                        break
                else:
                    fields.append(f)
        return fields

    def subclasses_of(self, cname):
        return [c.name for c in self.classes if c.name == cname or cname in self.bases(c.name)]

    def is_sub(self, c, d):
        return d == "ASTNode" or c == d or d in self.bases(c)

    # ----- Python source
    def source(self):
        L = []
        if self.future:
            L.append("from __future__ import annotations")
        L += ["import enum", "from dataclasses import dataclass, field", "from pathlib import Path", "from typing import Any, Optional, Union",
              "from pyoak.node import ASTNode", "from pyoak.origin import NO_ORIGIN", "",
              f"class {self.enum_name}(enum.Enum):", "    RED = 1", "    GREEN = 'g'", "    BLUE = 3", ""]
        for c in self.classes:
            deco = "@dataclass(frozen=True, slots=True)" if c.slots else "@dataclass(frozen=True)"
            L.append(deco)
            L.append(f"class {c.name}({', '.join(self.direct_bases(c.name)) or 'ASTNode'}):")
            body = []
            for f in c.own:
                body.append("    " + self.field_line(f))
            if c.falsy:
                body.append("    def __len__(self):\n        return 0")
                if len(c.name) % 2:
                    # an empty, iterable container-like node (seeded change C12-10: iterable nodes taken for sequences)
                    body.append("    def __iter__(self):\n        return iter(())")
            if not body:
                body.append("    pass")
            L += body
            L.append("")
        return "\n".join(L)

    def field_line(self, f):
        if f.role == "Prop":
            ann = PY_ANN[f.ptype].format(enum=self.enum_name)
        else:
            u = " | ".join(f.child_types)
            if f.role == "One":
                ann = u
            elif f.role == "Opt":
                ann = u + " | None"
                if (len(f.name) + len(u)) % 3 == 0:
                    # the older spellings of the same annotation: typing.Optional / typing.Union are not types.UnionType
                    # objects (seeded change C12-13: optionality recognised for the `X | None` spelling only)
                    ann = f"Optional[{u}]" if len(f.child_types) == 1 else "Union[" + ", ".join(f.child_types) + ", None]"
            elif f.fixed:
                ann = "tuple[" + ", ".join([u] * f.fixed) + "]"
            else:
                ann = f"tuple[{u}, ...]"
        opts = []
        if f.has_default:
            opts.append("default=" + self.py_default(f))
        if not f.compare:
            opts.append("compare=False")
        if not f.init:
            opts.append("init=False")
        if f.kw_only:
            opts.append("kw_only=True")
        if f.role == "Prop" and (len(f.name) + len(ann)) % 4 == 0:
            # dataclasses' own hash= option, set against compare=: "comparable" is what compare= says, nothing else
            # (seeded change C12-12)
            opts.append("hash=False" if f.compare else "hash=True")
        if not opts:
            return f"{f.name}: {ann}"
        if f.has_default and len(opts) == 1:
            return f"{f.name}: {ann} = {self.py_default(f)}"
        return f"{f.name}: {ann} = field({', '.join(opts)})"

    def py_default(self, f):
        if f.role == "Prop":
            return py_value_src(f.default, self.enum_name)
        if f.role == "Opt":
            return "None"
        if f.role == "Tup":
            return "()"
        raise ValueError("required child has no default")

    def shadow_source(self):
        """the same class names and bases with other fields (one defaulted property each): declared, classified and
        instantiated BEFORE the real classes in the same module, as a notebook / REPL / reload would - whatever the library
        remembers per class must be remembered per class OBJECT, not per name (seeded changes C01-10, C02-10, C16-10)"""
        L = ["from dataclasses import dataclass, field", "from pyoak.node import ASTNode", ""]
        for c in self.classes:
            L.append("@dataclass(frozen=True)")
            L.append(f"class {c.name}({', '.join(self.direct_bases(c.name)) or 'ASTNode'}):")
            L.append(f"    zz_shadow_{len(L)}: int = field(default=0, kw_only=True)")
            L.append("")
        for c in self.classes:
            L.append(f"_n = {c.name}()")
            L.append("list(_n.get_properties()); list(_n.get_child_nodes()); list(_n.dfs()); _n.as_dict(); _n.to_properties_dict()")
            L.append(f"{c.name}.get_child_fields(); {c.name}.get_property_fields()")
        L.append("del _n")
        return "\n".join(L)

    def load(self):
        if self.module is None:
            m = types.ModuleType(f"verif_universe_{self.uid}")
            sys.modules[m.__name__] = m
            if self.uid % 3 == 1:
                try:
                    exec(compile(self.shadow_source(), m.__name__, "exec", dont_inherit=True), m.__dict__)
                except Exception:  # noqa: BLE001 - the shadow is only a disturbance; the real classes are what is tested
                    pass
                for c in self.classes:
                    m.__dict__.pop(c.name, None)       # forward references must not resolve to a shadow
                import gc
                gc.collect()
            exec(compile(self.source(), m.__name__, "exec", dont_inherit=True), m.__dict__)
            self.module = m
            if self.uid % 2 == 0:
                self.warm_first_bases()
        return self.module

    def warm_first_bases(self):
        """For every class that declares nothing itself and assembles its fields from two node bases, an instance of its FIRST
        base is built (and its accessors used) before the class is ever used: the accessors specialised for the base must
        not be taken over (seeded changes C14-9, C03-12, C09-10 - three independent adversaries found this one)."""
        import gc
        import random

        try:
            from ..props.c15 import mk_origin
            for c in self.classes:
                if c.mixins and not c.own and c.base is not None:
                    t = TreeGen(random.Random(self.uid), self, max_nodes=4, max_depth=2).node(c.base)
                    n = Built(self, mk_origin).build(t)
                    list(n.dfs()), list(n.get_properties()), list(n.get_child_nodes()), list(n.get_child_nodes_with_field())
                    list(n.iter_child_fields())
                    del n
            gc.collect()
        except Exception:  # noqa: BLE001 - only a disturbance
            pass


def py_value_src(v, enum_name):
    n = v.name
    if n == "VNone":
        return "None"
    if n == "VBool":
        return "True" if v.args[0].name == "T" else "False"
    if n == "VInt":
        return repr(v.args[0])
    if n == "VStr":
        return repr(v.args[0].decode())
    if n == "VEnum":
        return f"{enum_name}.{v.args[1].decode()}"
    if n == "VFloat":
        return f"float({v.args[0].decode()!r})"
    if n == "VPath":
        return f"Path({v.args[0].decode()!r})"
    if n == "VTuple":
        return "(" + "".join(py_value_src(x, enum_name) + ", " for x in v.args[0]) + ")"
    if n == "VFset":
        return "frozenset([" + ", ".join(py_value_src(x, enum_name) for x in v.args[0]) + "])"
    raise ValueError(v)


ENUM_MEMBERS = {"RED": Con("VInt", 1), "GREEN": Con("VStr", b"g"), "BLUE": Con("VInt", 3)}


def gen_value(rng, ptype, enum_name, hard=False):
    def gstr():
        k = rng.random()
        if k < 0.25:
            return rng.choice(["", "a", "b", "ab", "1", "test", "True", "None", "é", "café", "雪", "aé1"])
        n = rng.randint(1, 6 if not hard else 12)
        return "".join(rng.choice(SEP_ALPHABET) for _ in range(n))

    def gint():
        return rng.choice([0, 1, -1, 2, 7, 10, 12, 2**63 - 1, -(2**63)]) if rng.random() < 0.7 else rng.randint(-1000, 1000)

    def simple_str():
        return "".join(rng.choice("abc xyz'\"\\1:(") for _ in range(rng.randint(0, 4)))

    if ptype == "int":
        return Con("VInt", gint())
    if ptype == "str":
        return Con("VStr", gstr())
    if ptype == "bool":
        return Con("VBool", rng.random() < 0.5)
    if ptype == "optint":
        return Con("VNone") if rng.random() < 0.4 else Con("VInt", gint())
    if ptype == "enum":
        m = rng.choice(sorted(ENUM_MEMBERS))
        return Con("VEnum", enum_name, m, ENUM_MEMBERS[m])
    if ptype == "tupint":
        return Con("VTuple", [Con("VInt", gint()) for _ in range(rng.randint(0, 3))])
    if ptype == "tupstr":
        return Con("VTuple", [Con("VStr", simple_str()) for _ in range(rng.randint(0, 3))])
    if ptype == "fsetstr":
        return Con("VFset", [Con("VStr", s) for s in sorted({simple_str() for _ in range(rng.randint(0, 4))})])
    if ptype == "fsetint":
        return Con("VFset", [Con("VInt", i) for i in sorted({rng.choice([0, 8, 16, 24, 3, 5, -1]) for _ in range(rng.randint(0, 4))})])
    if ptype == "float":
        return Con("VFloat", repr(rng.choice([0.5, 1.5, -2.25, 1e17, 5e-324, 3.0])))
    if ptype == "path":
        return Con("VPath", rng.choice(["a/b.txt", "x", "dir/sub/f"]))
    if ptype == "any":
        return gen_value(rng, rng.choice(["int", "str", "bool", "optint", "tupint"]), enum_name, hard)
    raise ValueError(ptype)


def to_py(v, mod, enum_name):
    from pathlib import Path

    n = v.name
    if n == "VNone":
        return None
    if n == "VBool":
        return v.args[0].name == "T"
    if n == "VInt":
        return v.args[0]
    if n == "VStr":
        return v.args[0].decode()
    if n == "VEnum":
        return getattr(getattr(mod, enum_name), v.args[1].decode())
    if n == "VFloat":
        return float(v.args[0].decode())
    if n == "VPath":
        return Path(v.args[0].decode())
    if n == "VTuple":
        return tuple(to_py(x, mod, enum_name) for x in v.args[0])
    if n == "VFset":
        return frozenset(to_py(x, mod, enum_name) for x in v.args[0])
    raise ValueError(v)


def from_py(x, enum_name=None):
    """Python property value -> model value term (used only for observed results)."""
    import enum
    from pathlib import PurePath

    if x is None:
        return Con("VNone")
    if isinstance(x, bool):
        return Con("VBool", x)
    if isinstance(x, int):
        return Con("VInt", x)
    if isinstance(x, str):
        return Con("VStr", x)
    if isinstance(x, enum.Enum):
        return Con("VEnum", type(x).__name__, x.name, from_py(x.value))
    if isinstance(x, float):
        return Con("VFloat", repr(x))
    if isinstance(x, PurePath):
        return Con("VPath", x.as_posix())
    if isinstance(x, tuple):
        return Con("VTuple", [from_py(y) for y in x])
    if isinstance(x, frozenset):
        return Con("VFset", sorted((from_py(y) for y in x), key=repr))
    return Con("VUnknown", type(x).__name__)


# ---------------------------------------------------------------------------------------- universe generation
def gen_universe(rng, n_roots=None, max_levels=3, rich=True, force_falsy=False):
    uid = next(_uid)
    tag = f"_u{uid}x{rng.randint(0, 10**6)}"
    enum_name = "Color" + tag
    classes = []
    names = []
    n_roots = n_roots or rng.randint(2, 3)
    # class skeleton first (names), so that child fields can refer to any class (forward refs need `future`
    # or quoting: we only refer to classes defined earlier unless future annotations are on)
    future = rng.random() < 0.5
    plan = []
    letters = iter("ABCDEFGHIJKLMNOPQRSTUVWXYZ")
    if rng.random() < 0.3:
        # one class family whose names start with an underscore ("private" node classes are node classes: seeded change C07-10)
        letters = iter(["_A", "_B", "_C", "_D", "_E", "_F", "_G", "_H", "_I", "_J", "_K", "_L"] + list("MNOPQRSTUVWXYZ"))
    for _ in range(n_roots):
        root = next(letters) + tag
        plan.append((root, None))
        parent = root
        for _lvl in range(rng.randint(0, max_levels - 1)):
            sub = next(letters) + tag
            plan.append((sub, parent))
            if rng.random() < 0.5:
                sib = next(letters) + tag
                plan.append((sib, parent))
            parent = sub
    # multiple inheritance: field-less mixin classes (direct ASTNode subclasses) used as secondary bases
    mixin_names = []
    if rich and rng.random() < 0.35:
        for k in range(rng.randint(1, 2)):
            mixin_names.append("M" + "xyz"[k] + tag)
    all_names = mixin_names + [p[0] for p in plan]
    for mi, mname in enumerate(mixin_names):
        # mixins may declare keyword-only properties with defaults (no constraint on the order of positional fields);
        # a class that inherits them through its SECOND base must still classify them
        mown = []
        for j in range(rng.choice([0, 1, 1, 2])):
            pt = rng.choice(["int", "str", "bool", "optint", "tupint"])
            f = FieldSpec(f"m{'xyz'[mi]}{j}", "Prop", ptype=pt, kw_only=True, has_default=True, default=gen_value(rng, pt, enum_name))
            f.compare = rng.random() < 0.8
            mown.append(f)
        if future and rng.random() < 0.5:
            # a child field inherited through the second base (postponed annotations: it may name any class)
            role = rng.choice(["Opt", "Tup"])
            cf = FieldSpec(f"m{'xyz'[mi]}c", role, child_types=(rng.choice([p[0] for p in plan]),), kw_only=True, has_default=True)
            mown.append(cf)
        classes.append(ClassSpec(mname, None, mown, falsy=False))
    plan = [(m, None) for m in mixin_names] + plan
    # upper-case names: sorted() on names is code-point order ("B" < "_k" < "a"), not case-insensitive (seeded changes C01-7, C12-8)
    fname_pool = ["a", "ab", "b", "child", "items", "x", "xs", "y", "z", "left", "right", "body", "name", "value", "t", "n", "_k", "_",
                  "B", "Xs", "LHS", "lhs"]
    for idx, (cname, base) in enumerate(plan):
        if cname in mixin_names:
            continue
        avail = all_names if future else all_names[:idx]  # classes that can be named in annotations
        inherited = []
        if base is not None:
            u_tmp = Universe(classes, enum_name, future, uid)
            inherited = u_tmp.merged(base)
        used = {f.name for f in inherited}
        own = []
        nf = rng.randint(0, 5 if rich else 2)
        override_only = bool(inherited) and rng.random() < 0.25   # a subclass that only re-declares inherited fields
        if override_only:
            nf = 0
        seen_default = any(f.has_default and not f.kw_only for f in inherited)
        for _ in range(nf):
            free = [n for n in fname_pool if n not in used]
            if not free:
                break
            name = rng.choice(free)
            twins = [n for n in free if any(n != m and n.lower() == m.lower() for m in used)]
            if twins and rng.random() < 0.5:
                name = rng.choice(twins)        # a name that differs from a used one only in case ("b"/"B", "xs"/"Xs")
            used.add(name)
            k = rng.random()
            if k < 0.45 or not avail:
                pt = rng.choice(PTYPES)
                f = FieldSpec(name, "Prop", ptype=pt)
                f.compare = rng.random() < 0.8
                f.init = rng.random() < 0.85
                if not f.init or rng.random() < 0.4:
                    f.has_default = True
                    f.default = gen_value(rng, pt, enum_name)
            else:
                role = rng.choice(["One", "Opt", "Tup", "Tup"])
                if role == "One" and idx == 0:
                    role = "Opt"
                pool = all_names[:idx] if role == "One" else avail   # required children only of earlier classes
                cts = rng.sample(pool, k=min(len(pool), rng.choice([1, 1, 2])))
                f = FieldSpec(name, role, child_types=cts)
                if role == "Tup" and idx > 0 and rng.random() < 0.2:
                    f.fixed = 2
                    f.child_types = tuple(rng.sample(all_names[:idx], k=1))
                f.compare = True
                if role in ("Opt", "Tup") and not f.fixed and rng.random() < 0.6:
                    f.has_default = True
            f.kw_only = rng.random() < 0.15
            if not f.has_default and not f.kw_only and seen_default:
                f.kw_only = True
            if f.has_default and not f.kw_only:
                seen_default = True
            own.append(f)
        # override of an inherited property: same role/type, other flags (keeps position)
        if inherited and (override_only or rng.random() < 0.35):
            cand = [f for f in inherited if f.role == "Prop" and f.init]
            if cand:
                g = rng.choice(cand)
                o = FieldSpec(g.name, "Prop", ptype=g.ptype, compare=not g.compare, init=True, kw_only=g.kw_only,
                              has_default=g.has_default, default=g.default)
                own.append(o)
        mix = []
        if mixin_names and rng.random() < 0.45:
            mix = sorted(rng.sample(mixin_names, k=rng.randint(1, len(mixin_names))))
        if mixin_names and base is not None and rng.random() < 0.5:
            # prefer a mixin that the primary base does not already bring in
            u_tmp2 = Universe(classes, enum_name, future, uid)
            have = set(u_tmp2.linearize(base))
            fresh_m = [m for m in mixin_names if m not in have]
            if fresh_m:
                mix = sorted(set(mix) | {rng.choice(fresh_m)})
        if mix:
            # keep only mixin choices that give a consistent MRO (C3): e.g. B(A0(My), Mx) puts My before Mx, so a
            # subclass C(B, Mx, My) would be rejected by Python itself
            def consistent(mx):
                try:
                    Universe(classes + [ClassSpec(cname, base, [], mixins=mx)], enum_name, future, uid).linearize(cname)
                    return True
                except ValueError:
                    return False
            while mix and not consistent(mix):
                mix = mix[:-1]
        if mix and base is not None and rng.random() < 0.4:
            own = []      # `class C(A, M): pass`: everything is inherited, part of it through the second base
        classes.append(ClassSpec(cname, base, own, falsy=rng.random() < 0.15, slots=False, mixins=mix))
    # at least one class that declares nothing itself and assembles its fields from two node bases (`class Z(A, Mx): pass`)
    # whenever mixins exist: its accessors must be specialised for ITS field set, whichever base was used first
    # (seeded change C14-9)
    if mixin_names and not any(c.mixins and not c.own and c.base is not None for c in classes):
        bases_ = [c for c in classes if c.name not in mixin_names and c.base is None and not c.mixins]
        if bases_:
            b0 = rng.choice(bases_)
            zname = "Z" + tag
            try:
                Universe(classes + [ClassSpec(zname, b0.name, [], mixins=[mixin_names[0]])], enum_name, future, uid).linearize(zname)
                classes.append(ClassSpec(zname, b0.name, [], falsy=False, mixins=[mixin_names[0]]))
            except ValueError:
                pass
    # a "permuted sibling": same field NAMES as an existing root class, other declaration order and other kinds
    # (single <-> tuple child, flags flipped): nothing specialised per class may be shared on the basis of field names
    if rich and rng.random() < 0.4:
        roots_ = [c for c in classes if c.base is None and not c.mixins and len(c.own) >= 2 and c.name not in mixin_names]
        if roots_:
            src = rng.choice(roots_)
            own2 = []
            for f in reversed(src.own):
                if f.role == "Prop":
                    g = FieldSpec(f.name, "Prop", ptype=f.ptype, compare=not f.compare, init=True, kw_only=True,
                                  has_default=True, default=f.default if f.default is not None else gen_value(rng, f.ptype, enum_name))
                else:
                    role2 = {"One": "Tup", "Opt": "Tup", "Tup": "Opt"}[f.role]
                    g = FieldSpec(f.name, role2, child_types=f.child_types, kw_only=True, has_default=True)
                own2.append(g)
            classes.append(ClassSpec("P" + tag, None, own2, falsy=False))
    # slotted dataclasses (dataclass re-creates the class: the library sees the name twice) for classes nothing derives
    # from and that have a single base (seeded change C04-9: the discarded pre-slots class stayed registered)
    if rich:
        based_on = {c.base for c in classes} | {m for c in classes for m in c.mixins}
        for c in classes:
            if c.name not in based_on and not c.mixins and c.name not in mixin_names and rng.random() < 0.4:
                c.slots = True
    u = Universe(classes, enum_name, future, uid)
    if force_falsy:
        # make sure some single-child field can hold a node that is falsy in a boolean context
        for c in classes:
            for f in c.own:
                if f.role in ("One", "Opt"):
                    u.by_name[f.child_types[0]].falsy = True
    return u


# ---------------------------------------------------------------------------------------- trees
class TreeGen:
    def __init__(self, rng, u, max_nodes=25, max_depth=4, share=0.08, origins=None, hard_strings=False):
        self.rng, self.u, self.max_nodes, self.max_depth, self.share = rng, u, max_nodes, max_depth, share
        self.count = 0
        self.built = []  # terms of nodes built so far (for sharing)
        self.origins = origins
        self.hard = hard_strings

    def origin(self):
        if self.origins is None:
            return Con("ONo")
        return self.origins(self.rng)

    def instantiable(self, cname, depth):
        """classes that can be built at this depth: required children need depth budget"""
        return True

    def node(self, cname=None, depth=0):
        rng, u = self.rng, self.u
        if cname is None:
            cname = rng.choice([c.name for c in u.classes])
        if self.built and rng.random() < self.share:
            cands = [t for t in self.built if t.args[1].decode() == cname]
            if cands:
                return rng.choice(cands)
        self.count += 1
        a = self.count
        ps, ks = [], []
        for f in u.merged(cname):
            if f.role == "Prop":
                if not f.init:
                    v = f.default
                elif f.has_default and rng.random() < 0.3:
                    v = f.default
                else:
                    v = gen_value(rng, f.ptype, u.enum_name, self.hard)
                ps.append(Con("P", f.name, v))
            else:
                budget = self.count < self.max_nodes and depth < self.max_depth
                def pick():
                    ct = rng.choice(f.child_types)
                    if not budget:
                        return ct
                    return rng.choice(u.subclasses_of(ct))
                if f.role == "One":
                    ks.append(Con("K", f.name, Con("ShOne"), [self.node(pick(), depth + 1)]))
                elif f.role == "Opt":
                    if budget and rng.random() < 0.6:
                        ks.append(Con("K", f.name, Con("ShOne"), [self.node(pick(), depth + 1)]))
                    else:
                        ks.append(Con("K", f.name, Con("ShNone"), []))
                else:
                    if f.fixed:
                        n = f.fixed
                    elif not budget:
                        n = 0
                    else:
                        n = rng.choice([0, 1, 2, 2, 3, 4, 12]) if rng.random() < 0.9 else rng.randint(10, 14)
                        n = min(n, max(0, self.max_nodes - self.count))
                    ks.append(Con("K", f.name, Con("ShMany"), [self.node(pick(), depth + 1) for _ in range(n)]))
        t = Con("N", a, cname, self.origin(), ps, ks)
        self.built.append(t)
        return t


def node_addr(t):
    return t.args[0]


def node_cls(t):
    return t.args[1].decode()


def iter_nodes(t, seen=None):
    """all node terms reachable (each address once), pre-order"""
    if seen is None:
        seen = set()
    if t.args[0] in seen:
        return
    seen.add(t.args[0])
    yield t
    for k in t.args[4]:
        for c in k.args[2]:
            yield from iter_nodes(c, seen)


def tree_size(t):
    return 1 + sum(tree_size(c) for k in t.args[4] for c in k.args[2])


def tree_depth(t):
    return 1 + max([tree_depth(c) for k in t.args[4] for c in k.args[2]] or [0])


class Built:
    """Concretised tree: objects by address and back."""

    def __init__(self, u, mk_origin):
        self.u = u
        self.mod = u.load()
        self.objs = {}
        self.addr_of = {}
        self.mk_origin = mk_origin
        self.next_new = 100000

    def build(self, t):
        a = t.args[0]
        if a in self.objs:
            return self.objs[a]
        cls = getattr(self.mod, t.args[1].decode())
        kwargs = {}
        finit = {f.name: f.init for f in self.u.merged(t.args[1].decode())}
        for p in t.args[3]:
            name = p.args[0].decode()
            if finit[name]:
                kwargs[name] = to_py(p.args[1], self.mod, self.u.enum_name)
        for k in t.args[4]:
            name = k.args[0].decode()
            sh = k.args[1].name
            if sh == "ShNone":
                kwargs[name] = None
            elif sh == "ShOne":
                kwargs[name] = self.build(k.args[2][0])
            else:
                kwargs[name] = tuple(self.build(c) for c in k.args[2])
        o = self.mk_origin(t.args[2])
        obj = cls(origin=o, **kwargs)
        self.objs[a] = obj
        self.addr_of[id(obj)] = a
        return obj

    def addr(self, obj):
        """address of an object; objects not built from the input get fresh numbers by first occurrence"""
        k = id(obj)
        if k not in self.addr_of:
            self.addr_of[k] = self.next_new
            self.objs[self.next_new] = obj  # keep alive so that id() is not reused
            self.next_new += 1
        return self.addr_of[k]


def universe_to_json(u):
    from .term import to_text

    return {"uid": u.uid, "enum": u.enum_name, "future": u.future,
            "classes": [{"name": c.name, "base": c.base, "falsy": c.falsy, "slots": c.slots, "mixins": list(c.mixins),
                         "own": [{"name": f.name, "role": f.role, "compare": f.compare, "init": f.init, "kw_only": f.kw_only,
                                  "ptype": f.ptype, "child_types": list(f.child_types), "fixed": f.fixed,
                                  "has_default": f.has_default,
                                  "default": None if f.default is None else to_text(f.default)} for f in c.own]}
                        for c in u.classes]}


_U_CACHE = {}


def universe_from_json(d, cache=True):
    from .term import from_text

    key = (d["uid"], d["enum"]) if cache else object()
    if key not in _U_CACHE:
        classes = []
        for c in d["classes"]:
            own = [FieldSpec(f["name"], f["role"], f["compare"], f["init"], f["kw_only"], f["ptype"], f["child_types"], f["fixed"],
                             None if f["default"] is None else from_text(f["default"]), f["has_default"]) for f in c["own"]]
            classes.append(ClassSpec(c["name"], c["base"], own, c["falsy"], c["slots"], c.get("mixins", ())))
        if not cache:
            return Universe(classes, d["enum"], d["future"], d["uid"])
        _U_CACHE[key] = Universe(classes, d["enum"], d["future"], d["uid"])
    return _U_CACHE[key]
