"""Runs the extracted model (build/driver). H is answered with real blake2b at the configured digest size."""
from __future__ import annotations

import hashlib
import os
import subprocess

from .term import from_text, to_text

ROOT = os.path.dirname(os.path.dirname(os.path.dirname(os.path.abspath(__file__))))
DRIVER = os.path.join(ROOT, "build", "driver")


def blake(digest_size: int):
    def h(pre: bytes) -> bytes:
        return hashlib.blake2b(pre, digest_size=digest_size).hexdigest().encode("ascii")

    return h


def _big_stack():
    import resource

    soft, hard = resource.getrlimit(resource.RLIMIT_STACK)
    want = 4 * 1024 ** 3
    if hard != resource.RLIM_INFINITY:
        want = min(want, hard)
    try:
        resource.setrlimit(resource.RLIMIT_STACK, (want, hard))
    except (ValueError, OSError):
        pass


class Driver:
    def __init__(self):
        # the extracted functions are not tail recursive (they are the proved definitions, untouched): a long history or a
        # large rewritten tree needs more than the default 8 MB of system stack (a thorough C09 case of 34 kB overflowed it)
        self.p = subprocess.Popen([DRIVER], stdin=subprocess.PIPE, stdout=subprocess.PIPE, text=True, bufsize=1,
                                  preexec_fn=_big_stack)
        self.table = {}  # preimage -> digest, everything asked since the last reset

    def reset(self):
        self.p.stdin.write("!reset\n")
        self.p.stdin.flush()
        self.p.stdout.readline()
        self.table = {}

    def run_text(self, entry: str, text: str, H=None) -> str:
        self.p.stdin.write(entry + " " + text + "\n")
        self.p.stdin.flush()
        while True:
            line = self.p.stdout.readline()
            if not line:
                raise RuntimeError("model driver died on: " + entry + " " + text[:300])
            line = line.rstrip("\n")
            if line.startswith("?"):
                pre = bytes.fromhex(line[1:])
                if H is None:
                    raise RuntimeError("model asked for a digest but no H was supplied")
                d = H(pre)
                self.table[pre] = d
                self.p.stdin.write(d.decode("ascii") + "\n")
                self.p.stdin.flush()
            elif line.startswith("="):
                return line[1:]
            else:
                raise RuntimeError("bad driver line: " + line[:200])

    def run(self, entry: str, term, H=None):
        return from_text(self.run_text(entry, to_text(term), H))

    def close(self):
        try:
            self.p.stdin.close()
            self.p.wait(timeout=5)
        except Exception:
            self.p.kill()
