"""C19 - a rejected legacy operation changes nothing.

Same machinery as C18 (harness/props/c18.py: model run, pool naming, live-object checker).  The generator is biased
towards operations the library rejects, with the faulty argument placed at a drawn position (first / middle / last
child, a child of a child, attached or detached); the clause evaluated is the FRAME of each rejected step: the
snapshot (attached?, parent, field / index under that parent, field values, id, original_id, content_id of every
held node, and the key set of the registry) taken before the call must equal the one taken after it.
"""
from __future__ import annotations

from . import c18
from .c18 import flaky, impl, nontrivial as _nt, spec_violation  # noqa: F401
from ..lib.term import Con

ID = "C19"
ENTRY = "C19"
RUNNER = "run_C19"
RUN_MODULES = ["Run.RunC19"]
RULE = ("histories as in C18 drawn with a high fault rate (about one argument in three is an attached subtree node, a repeated "
        "node, a twin carrying an id already used or a stale detached node; forbidden replace keys; replace_with of typed / "
        "required slots, of nodes that have a parent, of nodes whose id is taken), the fault placed at a random position among "
        "up to four children or inside a detached child; every rejected step's before / after snapshot is compared.  "
        "non-trivial = the history contains a rejected step preceded by at least two executed steps; distinct = distinct input terms")
TRUSTED_BASE = c18.TRUSTED_BASE
ASSUMPTIONS = c18.ASSUMPTIONS + [
    "position is read as (parent, field, index) when the node has a parent and as 'no parent' otherwise: stale field / index slots of a parent-less node are not compared",
]


def gen_cases(rng, tier):
    return c18.gen_cases(rng, tier, n=(600 if tier == "quick" else 5000), pfault=0.35, kind="faults")


def compare(inp, impl_obs, model_obs):
    return c18._compare("C19", inp, impl_obs, model_obs)


def nontrivial(inp, model_obs):
    st = c18._executed(model_obs)
    for i, s in enumerate(st):
        r = s.args[0]
        if i >= 2 and isinstance(r, Con) and r.name == "Err" and r.args[0].name != "Crash":
            return True
    return False


def finding_key(inp, impl_obs, model_obs, diffs):
    if any(d.startswith("corr:") for d in diffs):
        return None
    return c18.mechanism("C19", inp, impl_obs, model_obs)
