"""C18 / C19 - histories over the deprecated parent-aware nodes (pyoak.legacy.node.AwareASTNode).

One case = (class table, list of operations).  Both sides keep a POOL of node objects (what the program holds);
an operation names its receiver / arguments by pool index modulo the pool size, so every generated operation is
meaningful whatever the earlier ones did.  After each step both sides print the result, the views of the nodes
that changed, and the pool size.  The model (coq/Model/Legacy.v) is faithful to the code INCLUDING its defects;
therefore the property's own clauses are evaluated here, on the implementation's live objects, after every step
(`Checker`), and travel in the implementation's observation next to the step views:

  C18 clauses (after a successful step): child-detached, child-parent-link, parent-slot, lookup, content-id,
      ancestors, depth, is-ancestor, xpath
  C19 clauses (after a rejected step): which component of a pre-existing node changed

`compare` reports (1) model-vs-implementation differences as corr:..., (2) violated property clauses as
C18:<clause>@step<k> / C19:<component>@step<k>.  Steps the model calls inadmissible (the call does not return, or
it leaves one object at two positions of attached nodes) end the comparison of that case and are only counted.
"""
from __future__ import annotations

import gc
import hashlib
import signal
import sys
import types
import warnings

from ..lib.term import Con, norm, to_text

ID = "C18"
ENTRY = "C18"
RUNNER = "run_C18"
RUN_MODULES = ["Run.RunC18"]
RULE = ("random histories (quick: 4-10 steps, thorough: up to 16) of the public legacy operations over a fixed universe "
        "(leaf with a comparable and a non-comparable property; inner class with required, optional (typed), tuple and list "
        "child fields; a third class with an optional child and a typed tuple), two origins, optional explicit ids and the three "
        "constructor flags; receivers and arguments are pool indices modulo the pool size, i.e. attached, detached, stale nodes, "
        "twins and whole subtrees; transform visitors / transformers are finite rule programs (generic, keep, remove, set "
        "property, fresh node, raise).  After every step the full view of every held node (attachment, parent / field / index, "
        "lookup, ids, content_id, xpath, fields) is compared with the model, and the property's clauses are evaluated on the "
        "live objects.  Besides the random histories, three scripted families with random parameters (15 cases each in quick, 150 in "
        "thorough): removal of a mostly non-last element from a list / tuple field with 3-5 elements (replace_with(None) or a transformer "
        "returning None) followed by operations on the shifted siblings; inner nodes with explicit ids that look false ('', '0', ...) "
        "two or more levels above an in-place change; root.detach_self(), an edit below one of its still attached children, the root's "
        "id occupied or a child given another parent, then the rejected root.attach().  non-trivial = at least 3 executed steps one of which mutates an existing node; distinct = distinct input terms")
TRUSTED_BASE = [
    "model coq/Model/Legacy.v hand-written from pyoak/legacy/node.py:254-1055,1607-1835; tie = this correspondence run (every held node, every step)",
    "the digest is symbolic in the model run (H pre = 0x01 pre 0x02); the harness substitutes real hashlib.sha256 innermost-first (resolve())",
    "the property clauses are evaluated by the Python checker in this file on the implementation's objects (Checker.c18 / snapshot)",
    "registry weakness is not modelled: the harness keeps every node it created or received alive",
]
ASSUMPTIONS = [
    "histories are well typed except that the typed optional field may receive any node class (the code does not check either)",
    "original_id / id_collision_with are never passed to a constructor (deserialization branches of __post_init__ are outside the model)",
    "`==` between nodes inside is_ancestor / get_depth is dataclass equality, modelled as deep structural equality on compare=True fields",
]

ORGS = ["NoOrigin", "u::(entire source)"]
CLS = ["L18Lf", "L18In", "L18Un"]
ANY = CLS
# (class, [(field, kind, admitted classes, value domain)])
UNIVERSE = [
    ("L18Lf", [("v", "P1", [], ["a", "b", "c"]), ("tag", "P0", [], [0, 1])]),
    ("L18In", [("name", "P1", [], ["p", "q"]), ("req", "Req", ANY, None), ("opt", "Opt", ["L18Lf"], None),
               ("tup", "Seq", ANY, None), ("lst", "Seq", ANY, None)]),
    ("L18Un", [("k", "P1", [], [0, 1]), ("one", "Opt", ANY, None), ("pair", "Seq", ["L18Lf"], None)]),
]
FIELDS = {c: fs for c, fs in UNIVERSE}

SOURCE = '''
import warnings
warnings.simplefilter("ignore")
from dataclasses import dataclass, field
from pyoak.legacy.node import AwareASTNode as N

@dataclass
class L18Lf(N):
    v: str = "v"
    tag: int = field(default=0, compare=False)

@dataclass
class L18Un(N):
    k: int = 0
    one: N | None = None
    pair: tuple[L18Lf, ...] = ()

@dataclass
class L18In(N):
    name: str = "n"
    req: N = None
    opt: L18Lf | None = None
    tup: tuple[N, ...] = ()
    lst: list[N] = field(default_factory=list)
'''


def class_table():
    out = []
    for c, fs in UNIVERSE:
        fl = []
        for (n, k, tys, _dom) in fs:
            kind = {"P1": Con("KProp", True), "P0": Con("KProp", False), "Req": Con("KReq"), "Opt": Con("KOpt"), "Seq": Con("KSeq")}[k]
            fl.append(Con("F", n, kind, list(tys)))
        out.append(Con("Cls", c, fl))
    return out


# ------------------------------------------------------------------------------------------ generator
def _lval(v):
    return Con("S", v) if isinstance(v, str) else Con("I", v)


def gen_fields(rng, cls, npool, leafy=False):
    fs = []
    for (n, k, _tys, dom) in FIELDS[cls]:
        if k in ("P1", "P0"):
            fs.append([n, Con("P", _lval(rng.choice(dom)))])
        elif k == "Req":
            fs.append([n, Con("One", Con("Some", rng.randrange(max(1, npool))))])
        elif k == "Opt":
            fs.append([n, Con("One", Con("Some", rng.randrange(max(1, npool))) if (rng.random() < 0.35 and not leafy) else None)])
        else:
            m = 0 if leafy else rng.choice([0, 0, 1, 1, 2, 3])
            fs.append([n, Con("Seq", [rng.randrange(max(1, npool)) for _ in range(m)])])
    return fs


def gen_new(rng, npool, cls=None):
    cls = cls or rng.choice(["L18Lf", "L18Lf", "L18In", "L18In", "L18Un"])
    org = ORGS[0] if rng.random() < 0.8 else ORGS[1]
    idarg = Con("Some", rng.choice(["x1", "x2"])) if rng.random() < 0.08 else None
    flags = [rng.random() < 0.08, rng.random() < 0.06, rng.random() < 0.08]
    return Con("New", cls, org, gen_fields(rng, cls, npool), idarg, *flags)


def gen_rules(rng, npool, transformer):
    rules = []
    for _ in range(rng.choice([1, 1, 2, 3])):
        cls = rng.choice(CLS)
        props = [(n, dom) for (n, k, _t, dom) in FIELDS[cls] if k in ("P1", "P0")]
        when = None
        if rng.random() < 0.5:
            n, dom = rng.choice(props)
            when = Con("Some", [n, _lval(rng.choice(dom))])
        kinds = ["Keep", "Remove", "Set", "Set", "Fresh"] + ([] if transformer else ["Generic", "Raise"])
        k = rng.choice(kinds)
        if k == "Set":
            n, dom = rng.choice(props)
            act = Con("Set", n, _lval(rng.choice(dom)))
        elif k == "Fresh":
            c2 = rng.choice(["L18Lf", "L18Lf", "L18Un"])
            act = Con("Fresh", c2, ORGS[0], gen_fields(rng, c2, npool, leafy=True))
        else:
            act = Con(k)
        rules.append(Con("R", cls, when, act))
    return rules


BAD_KEYS = ["id", "content_id", "original_id", "id_collision_with", "bogus"]


def gen_op(rng, npool, weights=None):
    kinds = ["New"] * 5 + ["Attach", "Detach", "Detach", "DetachSelf", "DetachSelf", "Replace", "Replace", "Replace",
                           "ReplaceWith", "ReplaceWith", "ReplaceWith", "ReplaceNone", "Dup", "Dup", "Xpath", "Visitor", "Transformer"]
    k = rng.choice(weights or kinds)
    i = rng.randrange(max(1, npool))
    if k == "New":
        return gen_new(rng, npool)
    if k in ("Attach", "Detach", "DetachSelf", "Xpath"):
        return Con(k, i)
    if k == "Replace":
        ch = []
        r = rng.random()
        if r < 0.1:
            ch.append([rng.choice(BAD_KEYS), Con("Bad")])
        if r < 0.15 or rng.random() < 0.2:
            ch.append(["origin", Con("Org", rng.choice(ORGS))])
        # changes are drawn for every class; the model and the implementation both reject keys the class lacks
        cls = rng.choice(CLS)
        for (n, kind, _t, dom) in rng.sample(FIELDS[cls], rng.choice([1, 1, 2])):
            if kind in ("P1", "P0"):
                ch.append([n, Con("V", Con("P", _lval(rng.choice(dom))))])
            elif kind in ("Req", "Opt"):
                ch.append([n, Con("V", Con("One", Con("Some", rng.randrange(max(1, npool))) if (kind == "Req" or rng.random() < 0.7) else None))])
            else:
                ch.append([n, Con("V", Con("Seq", [rng.randrange(max(1, npool)) for _ in range(rng.choice([0, 1, 2, 2]))]))])
        return Con("Replace", i, ch)
    if k == "ReplaceWith":
        return Con("ReplaceWith", i, Con("Some", rng.randrange(max(1, npool))))
    if k == "ReplaceNone":
        return Con("ReplaceWith", i, None)
    if k == "Dup":
        return Con("Dup", i, rng.random() < 0.3)
    if k == "Visitor":
        return Con("Visitor", i, gen_rules(rng, npool, False))
    return Con("Transformer", i, gen_rules(rng, npool, True))


def gen_history(rng, nsteps):
    ops = []
    npool = 0
    # a few nodes first so that the rest has something to act on
    for _ in range(rng.choice([2, 3, 4])):
        ops.append(gen_new(rng, npool, "L18Lf" if npool < 2 or rng.random() < 0.5 else None))
        npool += 1
    while len(ops) < nsteps:
        o = gen_op(rng, npool + 2)
        if o.name in ("New", "Dup", "Replace"):
            npool += 1
        # a freshly made twin right before a replace_with makes the interesting argument likely
        ops.append(o)
    return ops


class _GenTimeout(BaseException):
    pass


class Guided:
    """State-aware generator: runs the history on the real objects while drawing it, so that receivers and arguments
    can be chosen by role (attached root / attached subtree / detached / stale / twin) and faults can be placed at a chosen
    child position.  Only the resulting term is the case; nothing observed here is compared."""

    def __init__(self, rng, pfault):
        self.rng = rng
        self.pf = pfault
        self.ops = []
        _reset_world()
        self.w = World()
        self.dead = False

    # -- run one op on the live world (under an alarm: some calls never return)
    def emit(self, op):
        """appends and executes; returns the pool index of the returned node or None"""
        w = self.w
        self.ops.append(op)
        if self.dead or (w.uses_pool(op) and not w.pool):
            return None
        w.made = []
        roots, res = [], None
        try:
            _arm(0.5)
            try:
                res, roots = w.run_op(op)
            except RecursionError:
                self.dead = True
            except Exception:  # noqa
                w.made = []
        except _GenTimeout:
            self.dead = True
        finally:
            _arm(0)
        if self.dead:
            return None
        w.discover(list(w.made) + roots)
        if res is not None and res[0] in ("N", "Out") and res[1] is not None:
            return w.ix(res[1])
        return None

    def roles(self):
        w = self.w
        r = {"root": [], "sub": [], "det": [], "inner": [], "leaf": []}
        for i, o in enumerate(w.pool):
            try:
                if o.detached:
                    r["det"].append(i)
                elif o.parent is None:
                    r["root"].append(i)
                else:
                    r["sub"].append(i)
            except Exception:  # noqa
                pass
            (r["inner"] if w.kids(o) else r["leaf"]).append(i)
        return r

    def new_leaf(self, like=None):
        rng = self.rng
        if like is not None:
            o = self.w.pool[like]
            fs = []
            for (n, k, _t, _d) in FIELDS[type(o).__name__]:
                v = getattr(o, n)
                if k in ("P1", "P0"):
                    fs.append([n, Con("P", _lval(v))])
                elif k in ("Req", "Opt"):
                    fs.append([n, Con("One", None)])
                else:
                    fs.append([n, Con("Seq", [])])
            if type(o).__name__ == "L18In":
                return None
            return self.emit(Con("New", type(o).__name__, o.origin.fqn, fs, None, False, False, False))
        cls = "L18Lf" if rng.random() < 0.85 else "L18Un"
        return self.emit(Con("New", cls, ORGS[0] if rng.random() < 0.85 else ORGS[1], gen_fields(rng, cls, 1, leafy=True),
                             Con("Some", rng.choice(["x1", "x2"])) if rng.random() < 0.05 else None,
                             rng.random() < 0.05, rng.random() < 0.04, rng.random() < 0.06))

    def child(self, chosen, leaf_only=False):
        """index of a node to be used as a child argument; faulty choices with probability pf"""
        rng = self.rng
        r = self.roles()
        x = rng.random()
        if x < self.pf:
            kind = rng.choice(["sub", "again", "twin", "stale"])
            if kind == "sub" and r["sub"]:
                return rng.choice(r["sub"])
            if kind == "again" and chosen:
                return rng.choice(chosen)
            if kind == "twin" and (r["leaf"]):
                i = self.new_leaf(like=rng.choice(r["leaf"]))
                if i is not None:
                    return i
            if kind == "stale" and r["det"]:
                return rng.choice(r["det"])
        cands = [i for i in r["root"] + r["det"] if i not in chosen and (not leaf_only or i in r["leaf"])]
        if cands and rng.random() < 0.6:
            return rng.choice(cands)
        i = self.new_leaf()
        if i is None:
            return rng.randrange(max(1, len(self.w.pool)))
        return i

    def child_fields(self, cls, only=None):
        rng = self.rng
        chosen = []
        fs = []
        for (n, k, tys, dom) in FIELDS[cls]:
            if only is not None and n not in only:
                continue
            leaf_only = tys == ["L18Lf"]
            if k in ("P1", "P0"):
                fs.append([n, Con("P", _lval(rng.choice(dom)))])
            elif k == "Req" or (k == "Opt" and rng.random() < 0.5):
                c = self.child(chosen, leaf_only)
                chosen.append(c)
                fs.append([n, Con("One", Con("Some", c))])
            elif k == "Opt":
                fs.append([n, Con("One", None)])
            else:
                m = rng.choice([0, 0, 1, 2, 3, 4])
                l = []
                for _ in range(m):
                    c = self.child(chosen, leaf_only)
                    chosen.append(c)
                    l.append(c)
                fs.append([n, Con("Seq", l)])
        return fs

    def prelude_deep(self):
        """a three-level attached tree, so that changes below have ancestors to propagate to"""
        rng = self.rng
        pf, self.pf = self.pf, 0.0
        a, b, c = self.new_leaf(), self.new_leaf(), self.new_leaf()
        mid = self.emit(Con("New", "L18In", ORGS[0], [["name", Con("P", _lval(rng.choice(["p", "q"])))], ["req", Con("One", Con("Some", a))],
                                                  ["opt", Con("One", None)], ["tup", Con("Seq", [b] if b is not None else [])], ["lst", Con("Seq", [])]],
                            None, False, False, False))
        if None not in (a, b, c, mid):
            if rng.random() < 0.5:
                self.emit(Con("New", "L18Un", ORGS[0], [["k", Con("P", _lval(rng.choice([0, 1])))], ["one", Con("One", Con("Some", mid))],
                                                      ["pair", Con("Seq", [c])]], None, False, False, False))
            else:
                self.emit(Con("New", "L18In", ORGS[0], [["name", Con("P", _lval("p"))], ["req", Con("One", Con("Some", c))], ["opt", Con("One", None)],
                                                      ["tup", Con("Seq", [])], ["lst", Con("Seq", [mid])]], None, False, False, False))
        self.pf = pf

    def step(self, deep=False):
        rng = self.rng
        w = self.w
        if len(w.pool) < 2:
            self.new_leaf()
            return
        r = self.roles()
        anyi = lambda: rng.randrange(len(w.pool))
        if deep:
            # prefer nodes that have a grandparent
            dd = []
            for i, o in enumerate(w.pool):
                try:
                    if not o.detached and o.parent is not None and o.parent.parent is not None:
                        dd.append(i)
                except Exception:  # noqa
                    pass
            if dd:
                r = dict(r, sub=r["sub"] + dd * 3)
        pref = lambda *names: (rng.choice([i for n in names for i in r[n]]) if any(r[n] for n in names) and rng.random() < 0.8 else anyi())
        k = rng.choice(["NewInner"] * 5 + ["NewLeaf", "Attach", "Detach", "Detach", "DetachSelf", "DetachSelf"] + ["Replace"] * 4
                       + ["ReplaceWith"] * 4 + ["ReplaceNone", "Dup", "Dup", "Xpath", "Xpath", "Xpath", "Visitor", "Visitor", "Transformer", "Transformer", "Twin"])
        # (calculate_xpath several times per history: a recalculation after an in-place edit must refresh every path)
        if k == "NewLeaf":
            self.new_leaf()
        elif k == "Twin":
            self.new_leaf(like=pref("leaf"))
        elif k == "NewInner":
            cls = rng.choice(["L18In", "L18In", "L18Un"])
            fs = self.child_fields(cls)
            self.emit(Con("New", cls, ORGS[0] if rng.random() < 0.85 else ORGS[1], fs,
                          Con("Some", rng.choice(["x1", "x2"])) if rng.random() < 0.05 else None,
                          rng.random() < 0.05, rng.random() < 0.04, rng.random() < 0.06))
        elif k == "Attach":
            self.emit(Con("Attach", pref("det")))
        elif k == "Detach":
            self.emit(Con("Detach", pref("root", "sub")))
        elif k == "DetachSelf":
            self.emit(Con("DetachSelf", pref("root")))
        elif k == "Replace":
            i = pref("root", "sub", "inner")
            cls = type(w.pool[i]).__name__
            ch = []
            x = rng.random()
            if x < 0.06:
                ch.append([rng.choice(BAD_KEYS), Con("Bad")])
            if rng.random() < 0.1:
                ch.append(["origin", Con("Org", rng.choice(ORGS))])
            names = [n for (n, _k, _t, _d) in FIELDS[cls]]
            only = rng.sample(names, rng.choice([1, 1, 2]))
            for (n, v) in self.child_fields(cls, only=only):
                ch.append([n, Con("V", v)])
            self.emit(Con("Replace", i, ch))
        elif k == "ReplaceWith":
            i = pref("sub", "sub", "root", "det")
            x = rng.random()
            o = w.pool[i]
            if x < 0.03 and o.parent is not None and w.ix(o.parent) >= 0:
                j = w.ix(o.parent)                      # never returns on the present code
            elif x < 0.05:
                j = i
            elif x < 0.05 + self.pf and r["sub"]:
                j = rng.choice(r["sub"])
            elif x < 0.45 and r["root"]:
                j = rng.choice(r["root"])
            elif x < 0.65 and r["det"]:
                j = rng.choice(r["det"])
            else:
                j = self.new_leaf(like=(i if rng.random() < 0.3 and i in r["leaf"] else None))
                if j is None:
                    j = anyi()
            self.emit(Con("ReplaceWith", i, Con("Some", j)))
        elif k == "ReplaceNone":
            self.emit(Con("ReplaceWith", pref("sub", "sub", "root"), None))
        elif k == "Dup":
            self.emit(Con("Dup", pref("root", "sub", "inner", "det"), rng.random() < 0.3))
        elif k == "Xpath":
            self.emit(Con("Xpath", pref("root")))
        elif k in ("Visitor", "Transformer"):
            i = pref("root", "inner", "sub")
            rules = self.rules(i, k == "Transformer")
            self.emit(Con(k, i, rules))

    def rules(self, i, transformer):
        rng = self.rng
        w = self.w
        # classes and property values that occur under the receiver
        seen = []

        def walk(o, d=0):
            if d > 30:
                return
            seen.append(o)
            for c in w.kids(o):
                walk(c, d + 1)

        walk(w.pool[i])
        rules = []
        for _ in range(rng.choice([1, 1, 2, 3])):
            o = rng.choice(seen)
            cls = type(o).__name__
            props = [(n, dom) for (n, k, _t, dom) in FIELDS[cls] if k in ("P1", "P0")]
            when = None
            if rng.random() < 0.6:
                n, _dom = rng.choice(props)
                when = Con("Some", [n, _lval(getattr(o, n))])
            kinds = ["Keep", "Remove", "Set", "Set", "Set", "Fresh"] + ([] if transformer else ["Generic", "Raise"])
            kk = rng.choice(kinds)
            if kk == "Set":
                n, dom = rng.choice(props)
                act = Con("Set", n, _lval(rng.choice(dom)))
            elif kk == "Fresh":
                c2 = rng.choice(["L18Lf", "L18Lf", "L18Un"])
                act = Con("Fresh", c2, ORGS[0], gen_fields(rng, c2, 1, leafy=True))
            else:
                act = Con(kk)
            rules.append(Con("R", cls, when, act))
        return rules

    def close(self):
        self.w.pool.clear()
        self.w.index.clear()
        self.w = None
        _reset_world()


def _gen_alarm(signum, frame):
    raise _GenTimeout()


def gen_guided(rng, nsteps, pfault, deep=False):
    g = Guided(rng, pfault)
    try:
        if deep:
            g.prelude_deep()
            nsteps += len(g.ops)
        # histories stop growing once the program holds 40 nodes (transformations clone whole trees)
        while len(g.ops) < nsteps and not g.dead and len(g.w.pool) < 40:
            g.step(deep)
    finally:
        ops = list(g.ops)
        g.close()
    return ops


# ------------------------------------------------------------------------------------------ scripted scenario families
# Shapes the random histories reach too rarely (found by seeded changes C18-5, C18-6, C19-6): each family is a short
# script with random parameters, run on the live objects like the guided histories so that pool indices are right.
FALSY_IDS = ["", "0", "False", "None", " "]


class Scripted(Guided):
    def __init__(self, rng):
        super().__init__(rng, 0.0)

    def _id(self, idarg):
        return None if idarg is None else Con("Some", idarg)

    def lf(self, v=None, tag=None, idarg=None):
        rng = self.rng
        fs = [["v", Con("P", _lval(v if v is not None else rng.choice(["a", "b"])))],
              ["tag", Con("P", _lval(tag if tag is not None else rng.choice([0, 1])))]]
        return self.emit(Con("New", "L18Lf", ORGS[0], fs, self._id(idarg), False, False, False))

    def inn(self, req, opt=None, tup=(), lst=(), name=None, idarg=None):
        fs = [["name", Con("P", _lval(name or self.rng.choice(["p", "q"])))], ["req", Con("One", Con("Some", req))],
              ["opt", Con("One", None if opt is None else Con("Some", opt))], ["tup", Con("Seq", list(tup))], ["lst", Con("Seq", list(lst))]]
        return self.emit(Con("New", "L18In", ORGS[0], fs, self._id(idarg), False, False, False))

    def un(self, one=None, pair=(), k=None, idarg=None):
        fs = [["k", Con("P", _lval(k if k is not None else self.rng.choice([0, 1])))],
              ["one", Con("One", None if one is None else Con("Some", one))], ["pair", Con("Seq", list(pair))]]
        return self.emit(Con("New", "L18Un", ORGS[0], fs, self._id(idarg), False, False, False))

    def wrap(self, x, idarg=None):
        """a parent over the tree x (random class / field)"""
        k = self.rng.choice(["un", "in-req", "in-lst", "in-tup"])
        if k == "un":
            return self.un(one=x, pair=[self.lf()] if self.rng.random() < 0.4 else [], idarg=idarg)
        if k == "in-req":
            return self.inn(req=x, idarg=idarg)
        y = self.lf()
        return self.inn(req=y, lst=[x], idarg=idarg) if k == "in-lst" else self.inn(req=y, tup=[x], idarg=idarg)

    def edit(self, a, sib, top):
        """an in-place change at the bottom of the tree: returns nothing, emits one operation"""
        rng = self.rng
        k = rng.choice(["replace", "replace", "none", "with", "transformer"])
        if k == "none" and sib is None:
            k = "replace"
        if k == "replace":
            self.emit(Con("Replace", a, [["v", Con("V", Con("P", _lval("c")))]]))
        elif k == "none":
            self.emit(Con("ReplaceWith", sib, None))
        elif k == "with":
            n = self.lf(v="c")
            self.emit(Con("ReplaceWith", a, Con("Some", n)))
        else:
            o = self.w.pool[a]
            self.emit(Con("Transformer", top, [Con("R", "L18Lf", Con("Some", ["v", _lval(o.v)]), Con("Set", "v", _lval("c")))]))


def script_list_removal(rng, force=None):
    """C18-5: removal of an element (mostly not the last one) from a list / tuple child field with >= 3 elements,
    through replace_with(None) or an ASTTransformer returning None; then operations on the shifted siblings."""
    g = Scripted(rng)
    try:
        m = rng.choice([3, 3, 4, 5])
        fld = (force or {}).get("field") or rng.choice(["lst", "lst", "lst", "tup"])
        j = rng.randrange(m - 1) if rng.random() < 0.85 else m - 1
        if force and "j" in force:
            j = force["j"]
        els = [g.lf(v=("c" if i == j else rng.choice(["a", "b"])), tag=i % 2) for i in range(m)]
        other = [g.lf() for _ in range(rng.choice([0, 0, 1, 2]))]
        p = g.inn(req=g.lf(), **{fld: els, ("tup" if fld == "lst" else "lst"): other})
        top = p
        for _ in range(rng.choice([0, 1, 1, 2])):
            top = g.wrap(top)
        mode = (force or {}).get("mode") or rng.choice(["none", "none", "transformer", "two"])
        if mode == "transformer":
            g.emit(Con("Transformer", rng.choice([p, top]), [Con("R", "L18Lf", Con("Some", ["v", _lval("c")]), Con("Remove"))]))
        else:
            g.emit(Con("ReplaceWith", els[j], None))
        rest = [e for i, e in enumerate(els) if i != j]
        if mode == "two" and len(rest) > 1:
            g.emit(Con("ReplaceWith", rest[rng.randrange(len(rest) - 1)], None))
        # follow-ups on the survivors: the element that moved into the freed slot is the interesting one
        # (a duplicate comes last: q.is_ancestor(child of p) is a known finding that ends the comparison of a case)
        for k in sorted((rng.choice(["xpath", "with", "replace", "dup", "none"]) for _ in range(rng.choice([1, 2, 3]))),
                        key=lambda k: k == "dup"):
            x = rest[min(j, len(rest) - 1)] if rng.random() < 0.6 else rng.choice(rest)
            if k == "xpath":
                g.emit(Con("Xpath", top))
            elif k == "with":
                g.emit(Con("ReplaceWith", x, Con("Some", g.lf(v="c"))))
            elif k == "replace":
                g.emit(Con("Replace", x, [["tag", Con("V", Con("P", _lval(rng.choice([0, 1]))))]]))
            elif k == "dup":
                g.emit(Con("Dup", top, False))
            else:
                g.emit(Con("ReplaceWith", x, None))
    finally:
        ops = list(g.ops)
        g.close()
    return ops


def script_falsy_id(rng, force=None):
    """C18-6: inner nodes with explicit ids that look false ("" , "0", ...) somewhere on a chain of 3-4 inner levels,
    and an in-place change at the bottom: the digests of ALL ancestors must follow."""
    g = Scripted(rng)
    try:
        levels = rng.choice([3, 3, 4])
        # mostly at least two levels above the change (level 0 is the direct parent of the changed leaf: control)
        holders = {rng.randrange(1, levels) if rng.random() < 0.85 else 0}
        if rng.random() < 0.3:
            holders.add(rng.randrange(levels))
        if force and "holder" in force:
            holders = {force["holder"]}
        ids = {h: ("" if rng.random() < 0.6 else rng.choice(FALSY_IDS + ["x1"])) for h in holders}
        if force and "id" in force:
            ids = {h: force["id"] for h in holders}
        a = g.lf(v="a")
        sib = g.lf(v="b") if rng.random() < 0.8 else None
        fld = rng.choice(["tup", "lst"])
        low = g.inn(req=a, **({fld: [sib]} if sib is not None else {}), idarg=ids.get(0))
        top = low
        for lv in range(1, levels):
            top = g.wrap(top, idarg=ids.get(lv))
        if force and "edit" in force:
            g.emit(Con("Replace", a, [["v", Con("V", Con("P", _lval("c")))]]))
        else:
            g.edit(a, sib, top)
        for k in sorted((rng.choice(["xpath", "dup", "detach-attach"]) for _ in range(rng.choice([0, 1, 2]))), key=lambda k: k == "dup"):
            if k == "xpath":
                g.emit(Con("Xpath", top))
            elif k == "dup":
                g.emit(Con("Dup", top, rng.random() < 0.5))
            else:
                g.emit(Con("Detach", top))
                g.emit(Con("Attach", top))
    finally:
        ops = list(g.ops)
        g.close()
    return ops


def script_rejected_attach(rng, force=None):
    """C19-6: root.detach_self() (children stay attached), an edit below one of those children, then the root's id is
    occupied or one of its children gets another parent, then root.attach() is rejected: nothing may change."""
    g = Scripted(rng)
    try:
        a, b, c = g.lf(v="a"), g.lf(v="b"), g.lf(v="a", tag=1)
        mid = g.inn(req=a, **{rng.choice(["tup", "lst"]): [b]})
        rid = "x1" if rng.random() < 0.5 else None
        shape = (force or {}).get("shape") or rng.choice(["un", "in-first", "in-later"])
        if force and "rid" in force:
            rid = force["rid"]
        if shape == "un":
            root = g.un(one=mid, pair=[c], idarg=rid)
            twin = lambda: g.un(one=mid, pair=[c], k=g.w.pool[root].k)
        elif shape == "in-first":
            root = g.inn(req=mid, tup=[c], idarg=rid)
            twin = lambda: g.inn(req=mid, tup=[c], name=g.w.pool[root].name)
        else:
            root = g.inn(req=c, lst=[mid], idarg=rid)
            twin = lambda: g.inn(req=c, lst=[mid], name=g.w.pool[root].name)
        g.emit(Con("DetachSelf", root))
        g.edit(a, b, mid)
        how = (force or {}).get("how") or rng.choice(["id", "id", "parent"])
        if how == "id":
            if rid is not None:
                g.lf(idarg=rid)
            else:
                twin()
        else:
            g.un(one=mid)
        g.emit(Con("Attach", root))
        if rng.random() < 0.4:
            g.emit(Con("Xpath", mid))
    finally:
        ops = list(g.ops)
        g.close()
    return ops


SCRIPTS = [("list-removal", script_list_removal), ("falsy-id", script_falsy_id), ("rejected-attach", script_rejected_attach)]


def gen_cases(rng, tier, n=None, pfault=0.12, kind="history"):
    n = n or (600 if tier == "quick" else 5000)
    cases = []
    ct = class_table()
    old = signal.signal(signal.SIGALRM, _gen_alarm)
    try:
        for k in range(n):
            steps = rng.choice([5, 7, 9, 12]) if tier == "quick" else rng.choice([5, 8, 12, 16, 20])
            if k % 6 == 5:
                cases.append({"kind": kind + "-blind", "input": Con("L18", ct, gen_history(rng, min(steps, 12))), "digest_size": None, "opts": None})
            elif k % 3 == 1:
                cases.append({"kind": kind + "-deep", "input": Con("L18", ct, gen_guided(rng, max(4, steps - 3), pfault, deep=True)),
                              "digest_size": None, "opts": None})
            else:
                cases.append({"kind": kind + "-guided", "input": Con("L18", ct, gen_guided(rng, steps, pfault)), "digest_size": None, "opts": None})
        # scripted families, drawn from a generator of their own AFTER the random histories (which stay what they were)
        import random as _random

        rs = _random.Random(rng.getrandbits(48))
        for k in range(15 if tier == "quick" else 150):
            for name, fn in SCRIPTS:
                cases.append({"kind": kind + "-scripted-" + name, "input": Con("L18", ct, fn(rs)), "digest_size": None, "opts": None})
    finally:
        _arm(0)
        signal.signal(signal.SIGALRM, old)
    return cases


# ------------------------------------------------------------------------------------------ implementation side
_MOD = None


def _load():
    global _MOD
    if _MOD is None:
        warnings.simplefilter("ignore")
        m = types.ModuleType("l18_universe")
        sys.modules["l18_universe"] = m
        exec(compile(SOURCE, "l18_universe", "exec"), m.__dict__)
        from pyoak.origin import NO_ORIGIN, CodeOrigin, EntireSourcePosition, MemoryTextSource

        m.ORIGINS = {ORGS[0]: NO_ORIGIN, ORGS[1]: CodeOrigin(MemoryTextSource(source_uri="u", _raw="abc"), EntireSourcePosition())}
        for k, o in m.ORIGINS.items():
            assert o.fqn == k, (o.fqn, k)
        _MOD = m
    return _MOD


class StepTimeout(BaseException):
    pass


def _s(b):
    return b.decode("utf-8") if isinstance(b, (bytes, bytearray)) else b


def _opt(t):
    """(None) -> None, (Some x) -> x"""
    if isinstance(t, Con) and t.name == "None":
        return None
    return t.args[0]


def _bool(t):
    return t.name == "T"


ERRMAP = [("ASTNodeDuplicateChildrenError", "DuplicateChildren"), ("ASTNodeParentCollisionError", "ParentCollision"),
          ("ASTNodeRegistryCollisionError", "RegistryCollision"), ("ASTNodeIDCollisionError", "IDCollision"),
          ("ASTNodeReplaceWithError", "ReplaceWith"), ("ASTNodeReplaceError", "Replace"), ("ASTTransformError", "Transform")]


def err_kind(e):
    from pyoak.legacy import error as E

    for cname, k in ERRMAP:
        if type(e) is getattr(E, cname):
            return k
    return "Crash"


class World:
    def __init__(self):
        self.m = _load()
        self.N = self.m.N
        self.pool = []
        self.index = {}
        self.made = []

    # ---- naming
    def ix(self, o):
        return self.index.get(id(o), -1)

    def oix(self, o):
        return None if o is None else Con("Some", self.ix(o))

    def pick(self, i):
        return self.pool[i % len(self.pool)]

    def add(self, o):
        if id(o) not in self.index:
            self.index[id(o)] = len(self.pool)
            self.pool.append(o)

    def fields(self, o):
        return [n for (n, _k, _t, _d) in FIELDS[type(o).__name__]]

    def kids(self, o):
        out = []
        for (n, k, _t, _d) in FIELDS[type(o).__name__]:
            if k in ("Req", "Opt"):
                v = getattr(o, n)
                if v is not None:
                    out.append(v)
            elif k == "Seq":
                out.extend(getattr(o, n))
        return out

    def discover(self, roots):
        seen = set()

        def visit(n, depth=0):
            if id(n) in seen or depth > 200:
                return
            seen.add(id(n))
            self.add(n)
            for c in self.kids(n):
                visit(c, depth + 1)

        for r in list(roots) + list(self.pool):
            visit(r)

    # ---- decoding of arguments
    def fval(self, t):
        if t.name == "P":
            v = t.args[0]
            return _s(v.args[0]) if v.name == "S" else v.args[0]
        if t.name == "One":
            o = _opt(t.args[0])
            return None if o is None else self.pick(o)
        return [self.pick(i) for i in t.args[0]]

    def kwargs(self, cls, fs):
        kw = {}
        for (n, v) in fs:
            n = _s(n)
            x = self.fval(v)
            if v.name == "Seq":
                x = tuple(x) if n in ("tup", "pair") else list(x)
            kw[n] = x
        return kw

    def construct(self, cls, org, fs, idarg=None, ensure=False, asdup=False, detached=False):
        kw = self.kwargs(cls, fs)
        if idarg is not None:
            kw["id"] = idarg
        if ensure:
            kw["ensure_unique_id"] = True
        if asdup:
            kw["create_as_duplicate"] = True
        if detached:
            kw["create_detached"] = True
        return getattr(self.m, cls)(origin=self.m.ORIGINS[org], **kw)

    def uses_pool(self, op):
        if op.name != "New":
            return True
        for (_n, v) in op.args[2]:
            if v.name == "One" and _opt(v.args[0]) is not None:
                return True
            if v.name == "Seq" and len(v.args[0]) > 0:
                return True
        return False

    # ---- callbacks
    def action_for(self, rules, node):
        for r in rules:
            cls, when, act = _s(r.args[0]), _opt(r.args[1]), r.args[2]
            if cls != type(node).__name__:
                continue
            if when is not None:
                p, v = _s(when[0]), when[1]
                want = _s(v.args[0]) if v.name == "S" else v.args[0]
                if not hasattr(node, p) or getattr(node, p) != want or type(getattr(node, p)) is not type(want):
                    continue
            return act
        return Con("Generic")

    def visitor(self, rules):
        from pyoak.legacy.node import ASTTransformVisitor

        w = self

        class V(ASTTransformVisitor):
            def generic_visit(self, node):
                act = w.action_for(rules, node)
                if act.name == "Generic":
                    return super().generic_visit(node)
                if act.name == "Keep":
                    return node
                if act.name == "Remove":
                    return None
                if act.name == "Raise":
                    raise ValueError("rule")
                if act.name == "Fresh":
                    n = w.construct(_s(act.args[0]), _s(act.args[1]), act.args[2])
                    w.made.append(n)
                    return n
                v = act.args[1]
                changes = {_s(act.args[0]): (_s(v.args[0]) if v.name == "S" else v.args[0])}
                changes.update(self._transform_children(node))
                return node.replace(**changes)

        return V()

    def transformer(self, rules):
        from pyoak.legacy.node import ASTTransformer

        w = self

        class T(ASTTransformer):
            def transform(self, node):
                act = w.action_for(rules, node)
                if act.name in ("Generic", "Keep"):
                    return node
                if act.name == "Remove":
                    return None
                if act.name == "Raise":
                    raise ValueError("rule")
                if act.name == "Fresh":
                    n = w.construct(_s(act.args[0]), _s(act.args[1]), act.args[2])
                    w.made.append(n)
                    return n
                v = act.args[1]
                return node.replace(**{_s(act.args[0]): (_s(v.args[0]) if v.name == "S" else v.args[0])})

        return T()

    # ---- one operation; returns (result term, roots for discovery)
    def run_op(self, op):
        k = op.name
        a = op.args
        if k == "New":
            n = self.construct(_s(a[0]), _s(a[1]), a[2], None if _opt(a[3]) is None else _s(_opt(a[3])), _bool(a[4]), _bool(a[5]), _bool(a[6]))
            return ("N", n), [n]
        x = self.pick(a[0])
        if k == "Attach":
            x.attach()
            return ("None",), []
        if k == "Detach":
            return ("B", x.detach()), []
        if k == "DetachSelf":
            return ("B", x.detach_self()), []
        if k == "Replace":
            changes = {}
            for (key, cv) in a[1]:
                key = _s(key)
                if cv.name == "Bad":
                    changes[key] = "bad"
                elif cv.name == "Org":
                    changes[key] = self.m.ORIGINS[_s(cv.args[0])]
                else:
                    v = self.fval(cv.args[0])
                    if cv.args[0].name == "Seq":
                        v = tuple(v) if key in ("tup", "pair") else list(v)
                    changes[key] = v
            r = x.replace(**changes)
            return ("N", r), [r]
        if k == "ReplaceWith":
            y = _opt(a[1])
            x.replace_with(None if y is None else self.pick(y))
            return ("None",), []
        if k == "Dup":
            r = x.duplicate(as_detached_clone=_bool(a[1]))
            return ("N", r), [r]
        if k == "Xpath":
            return ("B", x.calculate_xpath()), []
        if k == "Visitor":
            r = self.visitor(a[1]).transform(x)
            return ("Out", r), ([] if r is None else [r])
        if k == "Transformer":
            r = self.transformer(a[1]).execute(x)
            return ("Out", r), ([] if r is None else [r])
        raise ValueError(k)

    # ---- views
    def view(self, o):
        fs = []
        for (n, k, _t, _d) in FIELDS[type(o).__name__]:
            v = getattr(o, n)
            if k in ("P1", "P0"):
                fs.append([n, Con("P", _lval(v))])
            elif k in ("Req", "Opt"):
                fs.append([n, Con("One", self.oix(v))])
            else:
                fs.append([n, Con("Seq", [self.ix(c) for c in v])])
        pf = o.parent_field
        pi = o.parent_index
        return Con("Nd", self.ix(o), type(o).__name__, o.origin.fqn, o.id,
                   None if o.original_id is None else Con("Some", o.original_id),
                   None if o.id_collision_with is None else Con("Some", o.id_collision_with),
                   not o.detached, self.oix(o.parent), None if pf is None else Con("Some", pf.name),
                   None if pi is None else Con("Some", pi), self.oix(self.N.get_any(o.id)),
                   o.content_id, None if o.xpath is None else Con("Some", o.xpath), fs)


# ------------------------------------------------------------------------------------------ the property's clauses
class Checker:
    """Evaluates the clauses of C18 and the frame of C19 on the live objects, independently of the model."""

    def __init__(self, w):
        self.w = w
        self.copy_no = 0

    def seq_of(self, o):
        """[(child, field name, index or None)] read straight from the dataclass fields."""
        out = []
        for (n, k, _t, _d) in FIELDS[type(o).__name__]:
            v = getattr(o, n)
            if k in ("Req", "Opt"):
                if v is not None:
                    out.append((v, n, None))
            elif k == "Seq":
                out.extend((c, n, i) for i, c in enumerate(v))
        return out

    def rebuild(self, o, depth=0):
        """an independently built equal tree (detached, explicit fresh ids): its content_id is the reference"""
        if depth > 60:
            raise RecursionError
        kw = {}
        for (n, k, _t, _d) in FIELDS[type(o).__name__]:
            v = getattr(o, n)
            if k in ("P1", "P0"):
                kw[n] = v
            elif k in ("Req", "Opt"):
                kw[n] = None if v is None else self.rebuild(v, depth + 1)
            else:
                kw[n] = type(v)(self.rebuild(c, depth + 1) for c in v)
        self.copy_no += 1
        return type(o)(origin=o.origin, id=f"~copy{self.copy_no}", create_detached=True, **kw)

    def c18(self, xpath_root=None):
        w = self.w
        bad = []
        att = [o for o in w.pool if not o.detached]
        up = {}
        for n in att:
            for (c, f, i) in self.seq_of(n):
                up.setdefault(id(c), []).append((n, f, i))
        for n in att:
            for (c, f, i) in self.seq_of(n):
                if c.detached:
                    bad.append("child-detached")
                elif c.parent is not n or c.parent_field is None or c.parent_field.name != f or c.parent_index != i:
                    bad.append("child-parent-link")
            p = n.parent
            if p is not None:
                pf, pi = n.parent_field, n.parent_index
                ok = False
                if pf is not None and hasattr(p, pf.name):
                    val = getattr(p, pf.name)
                    if pi is None:
                        ok = val is n
                    else:
                        ok = isinstance(val, (list, tuple)) and 0 <= pi < len(val) and val[pi] is n
                if not ok:
                    bad.append("parent-slot")
            if w.N.get_any(n.id) is not n:
                bad.append("lookup")
            try:
                if n.content_id != self.rebuild(n).content_id:
                    bad.append("content-id")
            except RecursionError:
                bad.append("content-id")
        # queries against the downward structure (only meaningful when the links above are consistent)
        if not bad:
            def chain(n):
                out = []
                cur = n
                for _ in range(len(w.pool) + 2):
                    ps = up.get(id(cur))
                    if not ps:
                        break
                    cur = ps[0][0]
                    out.append(cur)
                return out

            for n in att:
                exp = chain(n)
                got = []
                for x in n.ancestors():
                    got.append(x)
                    if len(got) > len(w.pool) + 2:
                        break
                if len(got) != len(exp) or any(g is not e for g, e in zip(got, exp)):
                    bad.append("ancestors")
                try:
                    if n.get_depth() != len(exp):
                        bad.append("depth")
                except RecursionError:
                    bad.append("depth")
                for p in att:
                    try:
                        if p.is_ancestor(n) != any(p is e for e in exp):
                            bad.append("is-ancestor")
                    except RecursionError:
                        bad.append("is-ancestor")
            if xpath_root is not None and not xpath_root.detached:
                def walk(n, xp):
                    if n.xpath != xp:
                        bad.append("xpath")
                    for (c, f, i) in self.seq_of(n):
                        walk(c, f"{xp}/@{f}[{i if i is not None else 0}]{type(c).__name__}")

                walk(xpath_root, f"/@root[0]{type(xpath_root).__name__}")
        return sorted(set(bad))

    def snapshot(self):
        w = self.w
        snap = {}
        for o in w.pool:
            fs = []
            for (n, k, _t, _d) in FIELDS[type(o).__name__]:
                v = getattr(o, n)
                if k in ("P1", "P0"):
                    fs.append(v)
                elif k in ("Req", "Opt"):
                    fs.append(id(v) if v is not None else None)
                else:
                    fs.append(tuple(id(c) for c in v))
            par = o.parent
            pf = o.parent_field
            # "which node is its parent and at which field and index it sits there": the field / index slots are
            # only read when there is a parent (stale slots of a parent-less node are not a change of position)
            snap[id(o)] = {"attached": not o.detached, "parent": (None if par is None else id(par)),
                           "parent-field": (None if par is None or pf is None else pf.name),
                           "parent-index": (None if par is None else o.parent_index),
                           "fields": tuple(fs), "id": o.id, "original-id": o.original_id, "content-id": o.content_id}
        reg = tuple(sorted(w.N._nodes.keys()))
        return snap, reg

    @staticmethod
    def frame_diff(before, after):
        (b, breg), (a, areg) = before, after
        changed = set()
        for k, v in b.items():
            x = a.get(k)
            if x is None:
                changed.add("lost")
                continue
            for comp in v:
                if v[comp] != x[comp]:
                    changed.add(comp)
        if breg != areg:
            # a rejected new node must not be registered; keys of pre-existing nodes must stay
            changed.add("registry")
        return sorted(changed)


def flaky(impl_text, model_text):
    """a step reported as hanging where the model does not diverge: a loaded machine, or a defect - main.py re-runs the case
    alone with a long step limit before it is judged"""
    return "(Hang)" in impl_text and "(Diverges)" not in model_text


def _reset_world():
    _load()
    from pyoak.legacy.node import AwareASTNode

    gc.collect()
    AwareASTNode._nodes.clear()


def _arm(sec):
    try:
        signal.setitimer(signal.ITIMER_REAL, sec)
    except Exception:
        pass


def impl(t, case):
    """Runs the history; returns (Impl (Run [steps] queries) [checks])."""
    import os

    _reset_world()
    w = World()
    ck = Checker(w)
    ops = t.args[1]
    steps = []
    checks = []
    prev = []
    step_limit = 1.0 if os.environ.get("VERIF_TIER", "quick") == "quick" else 2.0
    if os.environ.get("VERIF_STEP_LIMIT"):      # the retry of main.py: a step that "hung" on a loaded machine gets a long limit
        step_limit = float(os.environ["VERIF_STEP_LIMIT"])
    dead = False
    for k, op in enumerate(ops):
        if w.uses_pool(op) and not w.pool:
            steps.append(Con("Skip"))
            continue
        before = ck.snapshot()
        w.made = []
        _arm(step_limit)
        try:
            try:
                res, roots = w.run_op(op)
                kind = "ok"
            except RecursionError:
                steps.append(Con("Hang"))
                dead = True
                break
            except Exception as e:  # noqa
                kind = err_kind(e)
                res, roots = ("Err", kind), []
                e = None
                w.made = []          # the program drops what a failed call gave it
        except BaseException as e:  # the worker's alarm
            if type(e).__name__ != "CaseTimeout":
                raise
            steps.append(Con("Hang"))
            dead = True
            break
        finally:
            _arm(0)
        _arm(3.0)
        if kind != "ok":
            gc.collect()
        w.discover(list(w.made) + roots)
        if res[0] == "N":
            rt = Con("N", w.ix(res[1]))
        elif res[0] == "B":
            rt = Con("B", bool(res[1]))
        elif res[0] == "None":
            rt = Con("None")
        elif res[0] == "Out":
            rt = Con("Out", w.oix(res[1]), [w.ix(n) for n in w.made])
        else:
            rt = Con("Err", Con(res[1]))
        cur = [norm(w.view(o)) for o in w.pool]
        delta = [c for i, c in enumerate(cur) if i >= len(prev) or prev[i] != c]
        prev = cur
        steps.append(Con("St", rt, delta, len(w.pool)))
        # the property's clauses
        if kind == "ok":
            xr = w.pick(op.args[0]) if op.name == "Xpath" and res[1] else None
            bad = ck.c18(xr)
            checks.append(Con("Ck", k, op.name, "ok", bad, []))
        elif kind == "Crash":
            checks.append(Con("Ck", k, op.name, "Crash", [], []))
            break
        else:
            after = ck.snapshot()
            checks.append(Con("Ck", k, op.name, kind, ck.c18(None), Checker.frame_diff(before, after)))
    if dead:
        q = Con("Q", [], [], [])
    else:
        _arm(3.0)
        depths, ancs, mat = [], [], []
        for o in w.pool:
            try:
                al = []
                for x in o.ancestors():
                    al.append(x)
                    if len(al) > len(w.pool) + 1:
                        raise RecursionError
                ancs.append([w.ix(x) for x in al])
                depths.append(o.get_depth())
            except RecursionError:
                ancs.append(Con("Cyc"))
                depths.append(Con("Cyc"))
        for p in w.pool:
            row = []
            for o in w.pool:
                try:
                    row.append(bool(p.is_ancestor(o)))
                except RecursionError:
                    row.append(Con("Cyc"))
            mat.append(row)
        q = Con("Q", depths, ancs, mat)
    _arm(0)
    out = Con("Impl", Con("Run", steps, q), checks)
    w.pool.clear()
    w.index.clear()
    del w, ck
    _reset_world()
    return out


# ------------------------------------------------------------------------------------------ comparison
def resolve(b: bytes) -> bytes:
    """replace, innermost first, every 0x01 pre 0x02 by sha256(pre).hexdigest()"""
    if b"\x01" not in b:
        return b
    stack = [bytearray()]
    for ch in b:
        if ch == 1:
            stack.append(bytearray())
        elif ch == 2 and len(stack) > 1:
            pre = bytes(stack.pop())
            stack[-1] += hashlib.sha256(pre).hexdigest().encode("ascii")
        else:
            stack[-1].append(ch)
    return bytes(stack[0])


def resolve_term(t):
    if isinstance(t, bytes):
        return resolve(t)
    if isinstance(t, Con):
        c = Con.__new__(Con)
        c.name, c.args = t.name, tuple(resolve_term(a) for a in t.args)
        return c
    if isinstance(t, tuple):
        return tuple(resolve_term(a) for a in t)
    return t


def _walk(inp, impl_obs, model_obs):
    """-> (corr diffs, list of (check term) for the steps both sides executed and agree on, stopped_inadmissible)"""
    if not (isinstance(impl_obs, Con) and impl_obs.name == "Impl"):
        return ["corr:impl-" + (impl_obs.name if isinstance(impl_obs, Con) else "result")], [], False
    if not (isinstance(model_obs, Con) and model_obs.name == "Run"):
        return ["corr:model-result"], [], False
    run, checks = impl_obs.args
    msteps = resolve_term(model_obs.args[0])
    isteps = run.args[0]
    byk = {}
    for c in checks:
        byk[c.args[0]] = c
    ops = inp.args[1]
    diffs = []
    agreed = []
    inadm = False
    # Once a clause of C18 or C19 is violated the history has left the range of both properties (and of the theorems
    # about the model): the comparison covers the steps up to and including that one.
    cut = None
    for c in checks:
        if len(c.args[3]) or len(c.args[4]):
            cut = c.args[0]
            break
    # map step position -> op index (Skip steps consume an op without a check)
    for pos, ms in enumerate(msteps):
        if ms.name == "Inadmissible":
            inadm = True
            break
        if pos >= len(isteps):
            diffs.append(f"corr:step{pos}:impl-stopped")
            break
        is_ = isteps[pos]
        if is_ != ms:
            what = "views"
            if is_.name != ms.name:
                what = f"{is_.name}-vs-{ms.name}"
            elif is_.name == "St" and is_.args[0] != ms.args[0]:
                what = "result"
            elif is_.name == "St" and is_.args[2] != ms.args[2]:
                what = "pool"
            diffs.append(f"corr:step{pos}:{what}")
            break
        if cut is not None and pos >= cut:
            break
    else:
        if len(isteps) > len(msteps):
            diffs.append(f"corr:step{len(msteps)}:model-stopped")
        elif not diffs and run.args[1] != resolve_term(model_obs.args[1]):
            diffs.append("corr:queries")
    # the property's clauses are judged on what the IMPLEMENTATION did, whether or not the model agrees; the model only
    # supplies the premise (steps from the first inadmissible one on are outside the property)
    stop = next((pos for pos, ms in enumerate(msteps) if ms.name == "Inadmissible"), None)
    agreed = [byk[k] for k in sorted(byk) if stop is None or k < stop]
    return diffs, agreed, inadm


QUERY_CLAUSES = ("ancestors", "depth", "is-ancestor", "xpath")
# what a rejected call damaged, by kind: the tree / registry links, the identifiers, or the content
FRAME_CLASSES = (("links", ("attached", "parent", "parent-field", "parent-index", "registry", "lost")),
                 ("ids", ("id", "original-id")),
                 ("content", ("fields", "content-id")))
CLAUSE_ORDER = ("child-detached", "child-parent-link", "parent-slot", "lookup", "content-id") + QUERY_CLAUSES


def property_diffs(prop, agreed):
    """First violated clause set of the property `prop` in the agreed prefix (see module docstring for the rule)."""
    for c in agreed:
        k, opname, kind, bad18, frame = c.args
        opname, kind = _s(opname), _s(kind)
        bad18 = [_s(x) for x in bad18]
        frame = [_s(x) for x in frame]
        if kind == "Crash":
            return []
        if kind == "ok":
            if bad18:
                return [f"C18:{b}@step{k}" for b in bad18] if prop == "C18" else []
        else:
            if frame:
                return [f"C19:{b}@step{k}" for b in frame] if prop == "C19" else []
    return []


def _compare(prop, inp, impl_obs, model_obs):
    diffs, agreed, _ = _walk(inp, impl_obs, model_obs)
    return diffs + property_diffs(prop, agreed)


def compare(inp, impl_obs, model_obs):
    return _compare("C18", inp, impl_obs, model_obs)


def _executed(model_obs):
    if not (isinstance(model_obs, Con) and model_obs.name == "Run"):
        return []
    return [s for s in model_obs.args[0] if isinstance(s, Con) and s.name == "St"]


def nontrivial(inp, model_obs):
    st = _executed(model_obs)
    if len(st) < 3:
        return False
    # a step after the first that changes the view of an already existing node
    for s in st[1:]:
        ps = s.args[2]
        if any(isinstance(v, Con) and v.args[0] < ps - 1 for v in s.args[1]):
            return True
    return False


def spec_violation(inp, impl_obs, model_obs, diffs):
    return any(d.startswith("C18:") or d.startswith("C19:") for d in diffs)


def _failing_check(prop, inp, impl_obs, model_obs):
    diffs, agreed, _ = _walk(inp, impl_obs, model_obs)
    pd = property_diffs(prop, agreed)
    if not pd:
        return None, None
    k = int(pd[0].rsplit("@step", 1)[1])
    for c in agreed:
        if c.args[0] == k:
            return c, pd
    return None, None


def mechanism(prop, inp, impl_obs, model_obs):
    """A stable name for the defect mechanism of the first violated clause: operation kind + outcome + clauses."""
    c, pd = _failing_check(prop, inp, impl_obs, model_obs)
    if c is None:
        return None
    k, opname, kind, bad18, frame = c.args
    opname, kind = _s(opname), _s(kind)
    op = inp.args[1][k]
    if opname == "ReplaceWith":
        opname = "ReplaceWithNone" if (isinstance(op.args[1], Con) and op.args[1].name == "None") else "ReplaceWith"
    if prop == "C18":
        clauses = [_s(x) for x in bad18]
        structural = [x for x in CLAUSE_ORDER if x in clauses and x not in QUERY_CLAUSES]
        if structural:
            return f"C18:{opname}:{structural[0]}"
        return "C18:query:" + [x for x in CLAUSE_ORDER if x in clauses][0]
    comps = [_s(x) for x in frame]
    classes = [name for name, members in FRAME_CLASSES if any(c in members for c in comps)]
    return f"C19:{opname}:{kind}:" + "+".join(classes)


def finding_key(inp, impl_obs, model_obs, diffs):
    if any(d.startswith("corr:") for d in diffs):
        return None
    return mechanism("C18", inp, impl_obs, model_obs)
