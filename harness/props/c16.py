"""C16 - serialization options apply to the whole call and to nothing after it.
One case = (class table, property table, tree, history of calls). Each call is a real as_dict / to_json / to_msgpck /
to_yaml / as_obj / from_json / from_msgpck / from_yaml call with a subset of the options; serialization calls may raise
at a chosen nested node (a Path property whose as_posix() raises), deserialization calls get input malformed at the
k-th nested mapping. Observed: the whole output with the ORDERED keys of every nested mapping, return/raise, and the
two class-level slots after every call; the history ends with a call without options, compared with the fresh output."""
from __future__ import annotations

import copy
import gc
import itertools

from ..lib.term import Con, Some, norm
from ..lib.universe import (ENUM_MEMBERS, Built, FieldSpec, TreeGen, gen_universe, gen_value, iter_nodes, tree_size,
                            universe_from_json, universe_to_json)
from .c15 import gen_origin, mk_origin

ID = "C16"
ENTRY = "C16"
RUNNER = "run_C16"
RUN_MODULES = ["Run.RunC16"]
RULE = ("generated class hierarchies (every representable property kind, all child shapes, inheritance) with trees of <= 12 "
        "nodes carrying every origin kind; per tree (i) a sweep over all 24 subsets of {skip_class, sort_keys, explorer|test "
        "dialect, source index} x the four formats, each followed by a call without options, (ii) random histories of 2-6 "
        "calls mixing serialization (with a node whose property raises during the call, every node position) and "
        "deserialization (input malformed at the k-th nested mapping: unknown type tag / missing id / not a mapping / "
        "undecodable bytes) with random option subsets, explicit False values and user mashumaro dialects; non-trivial = at "
        "least two calls of which one carries options or raises; distinct = distinct input terms")
TRUSTED_BASE = [
    "model coq/Model/SerOpts.v + Serial.v hand-written from serialize.py / node.py / origin.py; tie = this correspondence run",
    "mashumaro to_dict/from_dict modelled as field-wise recursion by annotation; orjson/msgpack/yaml as identity on the JSON value "
    "(the harness runs all four real encoders; yaml sorts keys, so key order is compared for dict/json/msgpack only)",
    "fault injection: a pathlib subclass whose as_posix() raises while armed (serialization); corrupted dicts (deserialization)",
]
ASSUMPTIONS = [
    "slots are read through DataClassSerializeMixin._get_deserialization_options/_get_deserialization_mashumaro_dialect",
    "no nested as_dict/as_obj call happens inside a call (true of pyoak: nested objects go through _serialize/_deserialize)",
    "'default output' = output of the same call at the start of the case, slots reset (DESIGN 2.10)",
]

PTY = {"int": Con("TyInt"), "str": Con("TyStr"), "bool": Con("TyBool"), "optint": Con("TyOpt", Con("TyInt")),
       "tupint": Con("TyTup", Con("TyInt")), "tupstr": Con("TyTup", Con("TyStr")), "float": Con("TyFloat"), "path": Con("TyPath")}
FAULT_FIELD = "zp"


# ------------------------------------------------------------------------------------------------ universes
def sanitize_universe(u, rng):
    """keep the representable kinds only (frozensets and Any-typed tuples are not claimed by C04/C16) and give every
    root class a Path property that the harness can make raise"""
    for c in u.classes:
        for f in c.own:
            if f.role == "Opt" and len(f.child_types) > 1:
                # mashumaro reads a malformed value of Union[X, Y, None] as None (every variant is tried, NoneType
                # accepts anything); the model has one class per optional child, so that malformed input raises
                f.child_types = f.child_types[:1]
            if f.role != "Prop":
                continue
            if f.ptype in ("fsetstr", "fsetint", "any"):
                f.ptype = {"fsetstr": "tupstr", "fsetint": "tupint", "any": "optint"}[f.ptype]
                if f.default is not None:
                    f.default = gen_value(rng, f.ptype, u.enum_name)
        if c.base is None:
            c.own.append(FieldSpec(FAULT_FIELD, "Prop", compare=rng.random() < 0.7, init=True, kw_only=True, ptype="path",
                                   default=Con("VPath", "p/q.txt"), has_default=True))
    return u


def make_universe(rng):
    return sanitize_universe(gen_universe(rng), rng)


def pty_term(u, f):
    if f.ptype == "enum":
        return Con("TyEnum", u.enum_name, [Con("M", k, v) for k, v in sorted(ENUM_MEMBERS.items())])
    return PTY[f.ptype]


def ptab_term(u):
    return [Con("PC", c.name, [Con("PD", f.name, pty_term(u, f), None if f.default is None else Some(f.default))
                               for f in u.merged(c.name) if f.role == "Prop"]) for c in u.classes]


# ------------------------------------------------------------------------------------------------ options
def opts_term(skip=None, sort=None, dial=None, sidx=None):
    o = lambda x: None if x is None else Some(x)
    return Con("Opts", o(skip), o(sort), None if dial is None else Some(Con(dial)), o(sidx))


def all_subsets():
    for skip, sort, dial, sidx in itertools.product([None, True], [None, True], [None, "DExplorer", "DTest"], [None, True]):
        yield opts_term(skip, sort, dial, sidx)


def rand_opts(rng):
    b = lambda: rng.choice([None, None, True, True, False])
    return opts_term(b(), b(), rng.choice([None, None, "DExplorer", "DTest"]), b())


def py_opts(t):
    """(None) | (Some (Opts ..)) -> the serialization_options dict"""
    from pyoak.node import AST_SERIALIZE_DIALECT_KEY, ASTSerializationDialects
    from pyoak.origin import SOURCE_OPTIMIZED_SERIALIZATION_KEY
    from pyoak.serialize import SerializationOption

    if t.name == "None":
        return None
    a, b, c, d = t.args[0].args
    out = {}
    if a.name == "Some":
        out[SerializationOption.SKIP_CLASS] = a.args[0].name == "T"
    if b.name == "Some":
        out[SerializationOption.SORT_KEYS] = b.args[0].name == "T"
    if c.name == "Some":
        out[AST_SERIALIZE_DIALECT_KEY] = {"DExplorer": ASTSerializationDialects.AST_EXPLORER,
                                          "DTest": ASTSerializationDialects.AST_TEST}[c.args[0].name]
    if d.name == "Some":
        out[SOURCE_OPTIMIZED_SERIALIZATION_KEY] = d.args[0].name == "T"
    return out


_USER_DIALECT = None


def user_dialect():
    global _USER_DIALECT
    if _USER_DIALECT is None:
        from mashumaro.dialect import Dialect

        class UserDialect(Dialect):
            serialization_strategy = {int: {"serialize": lambda x: "i%d" % x, "deserialize": lambda s: int(s[1:])}}  # noqa: RUF012

        _USER_DIALECT = UserDialect
    return _USER_DIALECT


def py_md(t):
    from pyoak.serialize import MessagePackDialect, OrjsonDialect

    if t.name == "None":
        return None
    return {"MOrjson": OrjsonDialect, "MMsgpack": MessagePackDialect, "MUser": user_dialect()}[t.args[0].name]


def slots_term():
    from pyoak.node import AST_SERIALIZE_DIALECT_KEY, ASTSerializationDialects
    from pyoak.origin import SOURCE_OPTIMIZED_SERIALIZATION_KEY
    from pyoak.serialize import DataClassSerializeMixin as M
    from pyoak.serialize import MessagePackDialect, OrjsonDialect, SerializationOption

    d = dict(M._get_deserialization_options())
    md = M._get_deserialization_mashumaro_dialect()

    def b(k):
        if k not in d:
            return None
        return Some(bool(d.pop(k)))

    skip, sort, sidx = b(SerializationOption.SKIP_CLASS), b(SerializationOption.SORT_KEYS), b(SOURCE_OPTIMIZED_SERIALIZATION_KEY)
    dial = None
    if AST_SERIALIZE_DIALECT_KEY in d:
        v = d.pop(AST_SERIALIZE_DIALECT_KEY)
        dial = Some(Con("DExplorer" if v == ASTSerializationDialects.AST_EXPLORER else "DTest"))
    if d:
        return Con("SlotsUnknownKeys", sorted(str(k) for k in d))
    if md is None:
        mdt = None
    elif md is OrjsonDialect:
        mdt = Some(Con("MOrjson"))
    elif md is MessagePackDialect:
        mdt = Some(Con("MMsgpack"))
    else:
        mdt = Some(Con("MUser"))
    return Con("Slots", Con("Opts", skip, sort, dial, sidx), mdt)


def reset_pyoak():
    """process-global state of pyoak back to that of a fresh process (as far as these properties look at it)"""
    from pyoak import node as N
    from pyoak import origin as O
    from pyoak.serialize import DataClassSerializeMixin as M

    gc.collect()
    N.NODE_REGISTRY.clear()
    O.Source.clear_registry()
    setattr(M, "_DataClassSerializeMixin__serialization_options", {})
    setattr(M, "_DataClassSerializeMixin__mashumaro_dialect", None)


# ------------------------------------------------------------------------------------------------ values
DIGEST_SIZE = [8]


def to_sval(x, sort=False):
    """salted digests of the compact text of a JSON-like value: mirror of Run/SerCodec.v render / tdig"""
    import hashlib

    out = bytearray()
    _render(x, sort, out)
    r = bytes(out)
    n = len(r) // 4
    parts = [r[:n], r[n:2 * n], r[2 * n:3 * n], r[3 * n:]]
    return "".join(hashlib.blake2b(salt + part, digest_size=DIGEST_SIZE[0]).hexdigest()
                   for salt, part in zip((b"0", b"1", b"2", b"3"), parts))


def _render(x, sort, out):
    if x is None:
        out += b"n"
    elif isinstance(x, bool):
        out += b"t" if x else b"f"
    elif isinstance(x, int):
        out += b"i%d;" % x
    elif isinstance(x, float):
        r = repr(x).encode()
        out += b"d%d:" % len(r) + r
    elif isinstance(x, str):
        r = x.encode("utf-8")
        out += b"s%d:" % len(r) + r
    elif isinstance(x, (list, tuple)):
        out += b"["
        for y in x:
            _render(y, sort, out)
        out += b"]"
    elif isinstance(x, dict):
        items = [(k.encode("utf-8") if isinstance(k, str) else b"?" + repr(k).encode(), v) for k, v in x.items()]
        if sort:
            items.sort(key=lambda kv: kv[0])
        out += b"{"
        for k, v in items:
            out += b"%d:" % len(k) + k
            _render(v, sort, out)
        out += b"}"
    else:
        out += b"?" + type(x).__name__.encode()


def corrupt(v, k, kind):
    """the k-th nested mapping in pre-order (mirror of Model/SerOpts.v corrupt); returns (remaining or None, value)"""
    if isinstance(v, list):
        out = []
        for x in v:
            if k is None:
                out.append(x)
            else:
                k, x2 = corrupt(x, k, kind)
                out.append(x2)
        return k, out
    if isinstance(v, dict):
        if k == 0:
            if kind == "CBadType":
                d = dict(v)
                d["__type"] = "NoSuchClass__"
                return None, d
            if kind == "CDropId":
                return None, {a: b for a, b in v.items() if a != "id"}
            return None, 5
        k -= 1
        out = {}
        for a, x in v.items():
            if k is None:
                out[a] = x
            else:
                k, x2 = corrupt(x, k, kind)
                out[a] = x2
        return k, out
    return k, v


# ------------------------------------------------------------------------------------------------ fault injection
_ARMED = set()
_BADPATH = None


def badpath_cls():
    global _BADPATH
    if _BADPATH is None:
        import pathlib

        class BadPath(pathlib.PurePosixPath):
            def as_posix(self):
                if id(self) in _ARMED:
                    raise RuntimeError("armed property")
                return super().as_posix()

            def __repr__(self):
                return "BadPath(...)"

        _BADPATH = BadPath
    return _BADPATH


def install_faults(b):
    """every node's fault field holds a path object that can be armed (same string, so ids are unaffected)"""
    BP = badpath_cls()
    for a, obj in b.objs.items():
        cur = getattr(obj, FAULT_FIELD)
        object.__setattr__(obj, FAULT_FIELD, BP(cur.as_posix()))


# ------------------------------------------------------------------------------------------------ generation
def gen_tree(rng, u, max_nodes=10, max_depth=3):
    tg = TreeGen(rng, u, max_nodes=max_nodes, max_depth=max_depth, share=0.12, origins=gen_origin)
    return tg.node(rng.choice([c.name for c in u.classes]))


FMTS = ["Dict", "Json", "Msgpack", "Yaml"]


def gen_cases(rng, tier):
    cases = []
    n_uni = 6 if tier == "quick" else 120
    default_call = Con("Ser", Con("Dict"), None, None, [])
    for _ in range(n_uni):
        u0 = make_universe(rng)
        for _t in range(2 if tier == "quick" else 4):
            u = u0.clone(rng)
            uj = universe_to_json(u)
            ct, pt = u.term(), ptab_term(u)
            tree = gen_tree(rng, u)
            addrs = [n.args[0] for n in iter_nodes(tree)]

            def add(kind, calls):
                cases.append({"kind": kind, "input": Con("C16", ct, pt, tree, calls), "digest_size": 8, "opts": {"universe": uj}})

            # (i) sweep: every subset of the options, formats in rotation
            for i, o in enumerate(all_subsets()):
                f = FMTS[(i + _t) % 4]
                md = Some(Con("MUser")) if f in ("Dict", "Yaml") and rng.random() < 0.2 else None
                # the second call is handed the SAME options object again (impl keeps one dict per distinct options term of
                # a history, as a caller with a module-level OPTIONS constant would): seeded change C16-4
                add("sweep", [Con("Ser", Con(f), Some(o), md, []), Con("Ser", Con(FMTS[(i + _t + 1) % 4]), Some(o), None, []),
                              default_call])
            # (ii) histories
            for _h in range(10 if tier == "quick" else 30):
                calls = []
                for _c in range(rng.randint(1, 5)):
                    f = rng.choice(FMTS)
                    given = None if rng.random() < 0.15 else Some(rand_opts(rng))
                    earlier = [c.args[1] for c in calls if c.args[1].name == "Some"]
                    if earlier and rng.random() < 0.35:
                        given = rng.choice(earlier)        # the same options object again
                    md = rng.choice([None, None, Some(Con("MUser")), Some(Con("MOrjson")), Some(Con("MMsgpack"))])
                    if rng.random() < 0.55:
                        armed = [rng.choice(addrs)] if rng.random() < 0.5 else []
                        calls.append(Con("Ser", Con(f), given, md, armed))
                    else:
                        k = rng.random()
                        if k < 0.25:
                            x = None
                        elif k < 0.35 and f != "Dict":
                            x = Con("BadBytes")
                        else:
                            x = Some(Con("Cor", rng.randint(0, 7 * len(addrs)), Con(rng.choice(["CBadType", "CBadType", "CDropId", "CNotAMap"]))))
                        calls.append(Con("Deser", Con(f), given, md, x))
                calls.append(default_call)
                add("history", calls)
            # (iii) a raise at every node position under options, then the default call
            for a in addrs:
                add("raise-at", [Con("Ser", Con(rng.choice(FMTS)), Some(rand_opts(rng)), None, [a]), default_call])
    return cases


# ------------------------------------------------------------------------------------------------ implementation
def sort_value(x):
    if isinstance(x, dict):
        return {k: sort_value(x[k]) for k in sorted(x, key=lambda s: s.encode("utf-8"))}
    if isinstance(x, list):
        return [sort_value(y) for y in x]
    return x


_JSON_ROT = [0]


def in_fresh_thread(fn):
    import threading

    box = {}

    def run():
        try:
            box["v"] = fn()
        except BaseException as e:  # noqa: BLE001
            box["e"] = e

    th = threading.Thread(target=run)
    th.start()
    th.join()
    if "e" in box:
        raise box["e"]
    return box["v"]


def do_ser(root, f, o, md):
    import json

    import msgpack
    import yaml

    if f == "Dict":
        return root.as_dict(mashumaro_dialect=md, serialization_options=o)
    if f == "Json":
        # compact, indented and bytes spellings in rotation: the options must reach all of them (seeded change C16-9)
        _JSON_ROT[0] += 1
        if _JSON_ROT[0] % 3 == 0:
            return json.loads(root.to_json(serialization_options=o))
        if _JSON_ROT[0] % 3 == 1:
            return json.loads(root.to_json(indent=True, serialization_options=o))
        return json.loads(root.to_jsonb(indent=True, serialization_options=o))
    if f == "Msgpack":
        return msgpack.unpackb(root.to_msgpck(serialization_options=o), raw=False)
    return sort_value(yaml.safe_load(root.to_yaml(mashumaro_dialect=md, serialization_options=o)))


BAD_BYTES = {"Json": b"{nope", "Msgpack": b"\xc1", "Yaml": "a: b: [c"}


def do_deser(cls, f, inp, o, md, bad=False):
    import msgpack
    import orjson
    import yaml

    if f == "Dict":
        return cls.as_obj(inp, mashumaro_dialect=md, serialization_options=o)
    if f == "Json":
        return cls.from_json(BAD_BYTES[f] if bad else orjson.dumps(inp), serialization_options=o)
    if f == "Msgpack":
        return cls.from_msgpck(BAD_BYTES[f] if bad else msgpack.packb(inp, use_bin_type=True), serialization_options=o)
    return cls.from_yaml(BAD_BYTES[f] if bad else yaml.safe_dump(inp), mashumaro_dialect=md, serialization_options=o)


def md_eff(f, mdt):
    if f == "Json":
        return Some(Con("MOrjson"))
    if f == "Msgpack":
        return Some(Con("MMsgpack"))
    return mdt


def impl(t, case):
    from pyoak import config

    u = universe_from_json(case["opts"]["universe"])
    u.load()
    config.ID_DIGEST_SIZE = DIGEST_SIZE[0] = case.get("digest_size") or 8
    reset_pyoak()
    try:
        tree, calls = t.args[2], t.args[3]
        b = Built(u, mk_origin)
        root = b.build(tree)
        install_faults(b)
        fresh = to_sval(root.as_dict())
        # the twin whose serialization is the input of the deserialization calls (dead when they run)
        inputs = {}
        needed = {md_eff(c.args[0].name, c.args[2]) for c in calls if c.name == "Deser"}
        if needed:
            b2 = Built(u, mk_origin)
            root2 = b2.build(tree)
            for mdt in needed:
                inputs[mdt] = root2.as_dict(mashumaro_dialect=py_md(mdt))
            del b2, root2
            gc.collect()
        obs = []
        odicts = {}     # one dict object per distinct options term: equal options of a history are the same object
        for c in calls:
            f, given, mdt, x = c.args[0].name, c.args[1], c.args[2], c.args[3]
            if given not in odicts:
                odicts[given] = py_opts(given)
            o, md = odicts[given], py_md(mdt)
            if c.name == "Ser":
                _ARMED.clear()
                for a in x:
                    _ARMED.add(id(getattr(b.objs[a], FAULT_FIELD)))
                try:
                    if len(calls) % 2 == 0:
                        # every call of such a history from a thread of its own that never serialised before: what a call
                        # leaves behind may not be per-thread either (seeded change C16-12)
                        out = Con("Return", to_sval(in_fresh_thread(lambda: do_ser(root, f, o, md))))
                    else:
                        out = Con("Return", to_sval(do_ser(root, f, o, md)))
                except Exception:  # noqa: BLE001
                    out = Con("Raise")
                finally:
                    _ARMED.clear()
            else:
                inp = copy.deepcopy(inputs[md_eff(f, mdt)])
                bad = x.name == "BadBytes"
                if x.name == "Some":
                    _, inp = corrupt(inp, x.args[0].args[0], x.args[0].args[1].name)
                try:
                    r = do_deser(type(root), f, inp, o, md, bad)
                    out = Con("Return")
                    del r
                except Exception:  # noqa: BLE001
                    out = Con("Raise")
                gc.collect()
            obs.append(Con("R", out, slots_term()))
        return Con("Hist", fresh, obs)
    finally:
        config.ID_DIGEST_SIZE = 8
        _ARMED.clear()
        reset_pyoak()


# ------------------------------------------------------------------------------------------------ verdicts
DEFAULT_SLOTS = norm(Con("Slots", Con("Opts", None, None, None, None), None))


def compare(inp, impl_obs, model_obs):
    if impl_obs == model_obs:
        return []
    if not (isinstance(impl_obs, Con) and impl_obs.name == "Hist" and isinstance(model_obs, Con) and model_obs.name == "Hist"):
        return ["result"]
    diffs = []
    if impl_obs.args[0] != model_obs.args[0]:
        diffs.append("fresh-default-output")
    io, mo = impl_obs.args[1], model_obs.args[1]
    if len(io) != len(mo):
        return diffs + ["history-length"]
    calls = inp.args[3]
    for i, (x, y) in enumerate(zip(io, mo)):
        if x.args[0] != y.args[0]:
            last = i == len(io) - 1 and calls[i].args[1].name == "None"
            diffs.append(f"call[{i}]:" + ("later-default-output" if last else "outcome/output"))
        if x.args[1] != y.args[1]:
            diffs.append(f"call[{i}]:slots-after")
    return diffs or ["result"]


def nontrivial(inp, model_obs):
    calls = inp.args[3]
    if len(calls) < 2:
        return False
    with_opts = any(c.args[1].name == "Some" or c.args[2].name == "Some" for c in calls)
    raised = isinstance(model_obs, Con) and model_obs.name == "Hist" and any(r.args[0].name == "Raise" for r in model_obs.args[1])
    return with_opts or raised


def spec_violation(inp, impl_obs, model_obs, diffs):
    # slots not back to the defaults after a call, or a different output of a call (ordered keys, tags) than the
    # options of that call dictate: all of these are what the property states
    return True


def search(rng, tier):
    return None
