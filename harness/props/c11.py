"""C11 - classification of field annotations.  One case = a chain of generated node classes K0 <- K1 <- ... whose
fields carry annotation terms; observed: what the class statement does, what the first use says."""
from __future__ import annotations

import gc
import logging

from ..lib.term import Con
from . import _pytypes as P

ID = "C11"
ENTRY = "C11"
RUNNER = "run_C11"
RUN_MODULES = ["Run.RunC11"]
RULE = ("annotation terms from the grammar {int,str,bool,float,Any,None,Literal,Enum,NewType,Union/Optional/| ,tuple fixed/variadic/"
        "empty/bare,frozenset,Sequence,Mapping,list,dict,set,node class objects,string forward references} nested to depth 3, "
        "printed into chains of 1-3 ASTNode dataclasses (1-3 own fields, overrides of inherited fields, per-field plain or string "
        "annotations, modules with and without `from __future__ import annotations`, references to classes defined earlier, "
        "to the class itself, to later classes; optionally an extra late reference that makes the definition-time check skip); "
        "quick samples, thorough adds every term of a reduced constructor set to depth 3 as the single field of a class. "
        "non-trivial = some field mentions a node class or a mutable collection below the top constructor, or the chain has "
        "an override; distinct = distinct chain terms")
TRUSTED_BASE = [
    "model coq/Model/PyTypes.v (CPython 3.12 issubclass / get_origin / get_args tables) + Classify.v hand-written from pyoak/typing.py:41-412, node.py:887-911, types.py; tie = this correspondence run",
    "typing.get_type_hints (string evaluation, NameError on unbound names), Union normalisation and the dataclass field merge are modelled (resolve_deep, wf_ty, merge_af), not verified",
    "definition-time outcome Ok vs Skipped is read from pyoak's own TRACE_LOGGING debug message",
]
ASSUMPTIONS = ["class identity is the class name; single inheritance chains",
               "unions are generated already normalised (flat, distinct members); a NewType is never a member of a non-Optional union and never wraps None (mashumaro refuses such classes)",
               "NewType supertypes contain no string forward references and only classes defined before the chain"]

CHAIN = ["K0", "K1", "K2"]


def _special(rng, names):
    """shapes around the known findings and the borders of the child grammar"""
    A = P.TNode(rng.choice(names))
    B = P.TNode(rng.choice(names))
    F = P.TFwd(rng.choice(names + P.LATE))
    NA = P.TNew(P.TNode(rng.choice(P.EARLY)))
    NI = P.TNew(P.T_INT)
    AE = P.TNode(rng.choice(P.EARLY))
    return rng.choice([
        P.TTupV(NA), P.TTup(NA, NA), P.TUnion(NA, P.T_NONE), P.TGen("CFrozenset", NA), P.TGen("CSequence", NA), NA, P.TNew(NA),
        P.TNew(P.TTupV(AE)), P.TNew(P.TUnion(AE, P.T_INT)), P.TNew(P.TBare("CList")), P.TTupV(P.TNew(P.TBare("CList"))), NI, P.TTupV(NI),
        P.TTupV(F), P.TUnion(F, P.T_NONE), P.TTup(F, A), F, P.TGen("CList", F), P.TGen("CSequence", F), P.TUnion(F, P.T_INT),
        P.TTupV(P.TUnion(A, P.T_NONE)), P.TTupV(P.TTupV(A)), P.TUnion(P.TTupV(A), P.T_NONE), P.TUnion(A, P.T_INT), P.TTup(A, P.T_INT),
        P.TTup(), P.TBare("CTuple"), P.TGen("CSequence", A), P.TGen("CFrozenset", A), P.TGen("CList", A), P.TGen("CMapping", P.T_STR, A),
        P.TGen("CMapping", P.T_STR, P.TBare("CList")), P.TUnion(P.TGen("CSequence", P.T_INT), P.TGen("CList", P.T_INT)),
        P.TTupV(P.TUnion(A, B)) if A != B else P.TTupV(A), P.TUnion(A, B, P.T_NONE) if A != B else P.TUnion(A, P.T_NONE),
        P.TTup(A, P.TUnion(A, B)) if A != B else P.TTup(A), P.TTupV(P.TLit(P.XInt(1))), P.TUnion(P.T_ANY, P.T_NONE),
        # optional elements of FIXED tuples, in every position (seeded change C11-9)
        P.TTup(P.TUnion(A, P.T_NONE)), P.TTup(A, P.TUnion(B, P.T_NONE)), P.TTup(P.TUnion(B, P.T_NONE), A),
        P.TTup(A, P.TUnion(B, P.T_NONE), A), P.TTup(P.TUnion(P.T_NONE, A)),
        # mutable collections below abstract containers (seeded change C11-10)
        P.TGen("CSequence", P.TGen("CList", P.T_INT)), P.TGen("CMapping", P.T_STR, P.TGen("CDict", P.T_STR, P.T_INT)),
        P.TTupV(P.TGen("CMapping", P.T_STR, P.TGen("CSet", P.T_INT))), P.TGen("CSequence", P.TBare("CList")),
    ])


def _gen_field(rng, future, bound, all_names):
    quoted = True if future else rng.random() < 0.35
    obj_names = all_names if quoted else bound          # class objects must be bound when an unquoted annotation runs
    fwd_names = all_names
    k = rng.random()
    if k < 0.35:
        t = P.gen_any_ty(rng, rng.choice([1, 2, 2, 3, 3]), obj_names, [] if (quoted and rng.random() < 0.8) else fwd_names)
    elif k < 0.55:
        t = P.gen_child_ty(rng, obj_names)
    elif k < 0.75:
        t = P.gen_prop_ty(rng, rng.choice([1, 2, 3]))
    else:
        t = _special(rng, obj_names)
    if rng.random() < 0.08 and t.name not in ("TNoneT",) and not any(x.name == "TFwd" for x in P.subterms(t)) \
            and all(P.s_(x.args[0]) in P.EARLY for x in P.subterms(t) if x.name == "TNode"):
        t = P.TNew(t)
    return quoted, t


def _case(kind, classes, opts):
    return {"kind": kind, "input": Con("C11", P.EARLY, P.LATE, [Con("Cls", n, [Con("F", fn, q, t) for fn, q, t in fs]) for n, fs in classes]),
            "opts": opts}


def _exhaustive():
    A, B = P.TNode("A"), P.TNode("B")
    leaves = [P.T_INT, P.T_ANY, A, B, P.TFwd("A"), P.TFwd("Z"), P.TBare("CList"), P.TBare("CTuple"), P.TNew(P.T_INT), P.TNew(A),
              P.TLit(P.XInt(1)), P.TTup()]
    in_union = leaves + [P.T_NONE]

    def layer(prev, pairs_with):
        out = []
        for e in prev:
            out += [P.TTupV(e), P.TTup(e), P.TGen("CFrozenset", e), P.TGen("CSequence", e), P.TGen("CList", e),
                    P.TGen("CMapping", P.T_STR, e)]
            if not any(x.name == "TFwd" for x in P.subterms(e)) and e.name != "TNoneT" and \
                    all(P.s_(x.args[0]) in P.EARLY for x in P.subterms(e) if x.name == "TNode"):
                out.append(P.TNew(e))
            for p in pairs_with:
                out.append(P.TTup(e, p))
                if e.name != "TUnion" and p.name != "TUnion" and e != p:
                    u = P.mk_union([e, p])
                    if u.name == "TUnion":
                        out.append(u)
        return out

    d1 = leaves
    d2 = layer(d1, in_union)
    d3 = layer(d2, in_union)
    return d1 + d2 + d3


def gen_cases(rng, tier):
    cases = []
    n = 2600 if tier == "quick" else 12000
    for _ in range(n):
        future = rng.random() < 0.4
        nc = rng.choice([1, 1, 2, 2, 3])
        names = CHAIN[:nc]
        all_names = P.EARLY + names + P.LATE
        classes = []
        inherited = []
        for i, cn in enumerate(names):
            bound = P.EARLY + names[:i]
            fs = []
            for j in range(rng.choice([1, 1, 2, 3])):
                fname = rng.choice(inherited) if inherited and rng.random() < 0.3 else f"f{i}{j}"
                if fname in [f[0] for f in fs]:
                    continue
                q, t = _gen_field(rng, future, bound, all_names)
                fs.append((fname, q, t))
            if rng.random() < (0.35 if i == 0 else 0.1):
                fs.append((f"z{i}", True, P.TUnion(P.TNode("Z"), P.T_NONE)))      # late reference: definition-time check skips
            classes.append((cn, fs))
            inherited += [f[0] for f in fs if f[0] not in inherited]
        cases.append(_case("random-chain", classes, {"future": future, "spell": rng.randrange(10**6), "alt": rng.random() < 0.25,
                                                     "inst_first": rng.random() < 0.5, "shadow": rng.random() < 0.3}))
    if tier != "quick":
        for t in _exhaustive():
            fs = [("f0", False, t)]
            if rng.random() < 0.4:
                fs.append(("z0", True, P.TUnion(P.TNode("Z"), P.T_NONE)))
            cases.append(_case("exhaustive-depth3", [("K0", fs)], {"future": False, "spell": rng.randrange(10**6), "alt": False,
                                                                   "inst_first": rng.random() < 0.5}))
    return cases


class _Capture(logging.Handler):
    def __init__(self):
        super().__init__(level=logging.DEBUG)
        self.msgs = []

    def emit(self, record):
        try:
            self.msgs.append(record.getMessage())
        except Exception:  # noqa
            pass


def _bad_list(e):
    return [[name, Con(P.REASONS.get(reason, "RUnknown"))] for name, reason, _ in e.invalid_annotations]


def impl(t, case):
    import pyoak.config as config
    from pyoak.error import InvalidFieldAnnotations

    opts = case.get("opts") or {}
    future = bool(opts.get("future"))
    classes = [(P.s_(c.args[0]), [(P.s_(f.args[0]), f.args[1].name == "T", f.args[2]) for f in c.args[1]]) for c in t.args[2]]
    if future and not all(q for _, fs in classes for _, q, _ in fs):
        return Con("BadCase", "future module with an unquoted field")
    mod = P.Mod()
    ctx = P.PrintCtx(mod.sfx, opts.get("spell", 0), opts.get("alt", False))
    chunks = []
    for i, (cn, fs) in enumerate(classes):
        lines = []
        for fname, quoted, ty in fs:
            src = P.ty_src(ty, ctx, quoted, "top")
            if quoted and not future:
                src = '"' + src.replace('"', "'") + '"'
            default = "()" if P.outer_is_tuple(ty) else "None"
            lines.append(f"    {fname}: {src} = {default}")
        base = (classes[i - 1][0] + mod.sfx) if i else "ASTNode"
        chunks.append(("from __future__ import annotations\n" if future else "")
                      + f"@dataclass(frozen=True)\nclass {cn}{mod.sfx}({base}):\n" + "\n".join(lines or ["    pass"]) + "\n")
    pre = P.PREAMBLE
    for c in t.args[0]:
        pre += P.node_cls_src(P.s_(c) + mod.sfx, "ASTNode", False)
    log = logging.getLogger("pyoak.node")
    cap = _Capture()
    old = (config.TRACE_LOGGING, log.level, log.propagate)
    out = []
    try:
        mod.run(pre)
        mod.run("".join(f"{n} = NewType({n!r}, {b})\n" for n, b in ctx.newtypes))
        config.TRACE_LOGGING = True
        log.addHandler(cap)
        log.setLevel(logging.DEBUG)
        log.propagate = False
        if opts.get("shadow"):
            # seeded change C11-5: every class of the chain is first defined under the SAME qualified name with every field
            # of the opposite kind (a node class where the real annotation mentions none, int otherwise), classified and
            # instantiated; the verdict for the class defined afterwards must not depend on that earlier class
            early = [P.s_(c) + mod.sfx for c in t.args[0]]
            for i, (cn, fs) in enumerate(classes):
                ls = []
                for fname, _q, ty in fs:
                    if early and not P.mentions_node(ty):
                        ls.append(f"    {fname}: {early[0]} | None = None")
                    else:
                        ls.append(f"    {fname}: int = 0")
                base = (classes[i - 1][0] + mod.sfx) if i else "ASTNode"
                try:
                    mod.run(f"@dataclass(frozen=True)\nclass {cn}{mod.sfx}({base}):\n" + "\n".join(ls or ["    pass"]) + "\n")
                    S = getattr(mod.m, cn + mod.sfx)
                    S.get_child_fields(), S.get_property_fields()
                    S()
                except Exception:  # noqa
                    pass
            for cn, _ in classes:      # a forward reference to a later class of the chain must not resolve to its shadow
                mod.m.__dict__.pop(cn + mod.sfx, None)
        defined = []
        for (cn, _), src in zip(classes, chunks):
            cap.msgs.clear()
            try:
                mod.run(src)
            except InvalidFieldAnnotations as e:
                out.append(["Def", Con("Rej", _bad_list(e))])
                break
            except Exception as e:  # noqa
                out.append(["Def", Con("DefExc", type(e).__name__, str(e)[:120])])
                break
            skipped = any("could not be checked" in m for m in cap.msgs)
            out.append(["Def", Con("Skipped") if skipped else Con("Ok")])
            defined.append(cn)
        config.TRACE_LOGGING = old[0]
        for c in t.args[1]:
            mod.run(P.node_cls_src(P.s_(c) + mod.sfx, "ASTNode", False))
        res = []
        for k, cn in enumerate(defined):
            K = getattr(mod.m, cn + mod.sfx)

            def static():
                try:
                    ch = [f.name for f in K.get_child_fields()]
                    pr = [f.name for f in K.get_property_fields()]
                    return Con("Fields", ch, pr)
                except InvalidFieldAnnotations as e:
                    return Con("Rej", _bad_list(e))
                except Exception as e:  # noqa
                    return Con("UseExc", type(e).__name__, str(e)[:120])

            def inst():
                try:
                    K()
                    return Con("Ok")
                except InvalidFieldAnnotations:
                    return Con("Rej")
                except Exception as e:  # noqa
                    return Con("Other", type(e).__name__, str(e)[:120])

            if opts.get("inst_first"):
                i_, u_ = inst(), static()
            else:
                u_, i_ = static(), inst()
            res.append(Con("Cls", out[k][1], Con("Some", u_), i_))
        if len(out) > len(defined):
            res.append(Con("Cls", out[-1][1], Con("None"), Con("None")))
        return Con("Res", bool(opts.get("alt")), res)
    finally:
        config.TRACE_LOGGING = old[0]
        log.removeHandler(cap)
        log.setLevel(old[1])
        log.propagate = old[2]
        mod.drop()
        gc.collect()


def _kinds(x, reasons):
    """projection of a def / use observation: with reasons, or only the verdict kinds the property speaks about"""
    if not isinstance(x, Con):
        return x
    if x.name == "Rej" and x.args:
        if reasons:
            return ("Rej", tuple((P.s_(p[0]), p[1].name) for p in x.args[0]))
        return ("Rej", tuple(P.s_(p[0]) for p in x.args[0]))
    if x.name == "Fields":
        return ("Fields", tuple(P.s_(a) for a in x.args[0]), tuple(P.s_(a) for a in x.args[1]))
    if x.name == "Some":
        return _kinds(x.args[0], reasons)
    return (x.name,)


def _diff_against(impl_obs, mlist, reasons, with_skip=True):
    diffs = []
    icls = impl_obs.args[1]
    if len(icls) != len(mlist):
        return ["chain-length"]
    for ic, mc in zip(icls, mlist):
        d_i, u_i, inst = ic.args
        d_m, u_m = mc.args
        a, b = _kinds(d_i, reasons), _kinds(d_m, reasons)
        if not with_skip:
            a = ("Ok",) if a == ("Skipped",) else a
            b = ("Ok",) if b == ("Skipped",) else b
        if a != b and "definition-time" not in diffs:
            diffs.append("definition-time")
        if _kinds(u_i, reasons) != _kinds(u_m, reasons) and "first-use" not in diffs:
            diffs.append("first-use")
        if u_m.name == "Some":
            want = "Rej" if u_m.args[0].name == "Rej" else "Ok"
            if isinstance(inst, Con) and inst.name != want and "instantiation" not in diffs:
                diffs.append("instantiation")
    return diffs


def compare(inp, impl_obs, model_obs):
    if not (isinstance(impl_obs, Con) and impl_obs.name == "Res" and isinstance(model_obs, Con) and model_obs.name == "Res"):
        return ["result"]
    reasons = impl_obs.args[0].name == "F"      # alternative spellings change which TypeErrors occur: reasons not compared
    return _diff_against(impl_obs, model_obs.args[0], reasons)


def nontrivial(inp, model_obs):
    classes = inp.args[2]
    names = [P.s_(f.args[0]) for c in classes for f in c.args[1]]
    if len(names) != len(set(names)):
        return True
    for c in classes:
        for f in c.args[1]:
            t = f.args[2]
            if P.depth(t) >= 2 and any(x.name in ("TNode", "TFwd") or (x.name in ("TGen", "TBare") and x.args[0].name in ("CList", "CDict", "CSet"))
                                       for x in P.subterms(t)):
                return True
    return False


def spec_violation(inp, impl_obs, model_obs, diffs):
    """the property speaks about the verdict (child / property / rejected, at definition or by first use), not about the
    reason text nor about whether the definition-time check ran or was skipped"""
    if not (isinstance(impl_obs, Con) and impl_obs.name == "Res" and isinstance(model_obs, Con) and model_obs.name == "Res"):
        return True
    return bool(_diff_against(impl_obs, model_obs.args[0], False, with_skip=False))


def finding_key(inp, impl_obs, model_obs, diffs):
    """D14 / D20: the implementation behaves like the model with the corresponding variant flag off."""
    if not (isinstance(impl_obs, Con) and impl_obs.name == "Res" and isinstance(model_obs, Con) and model_obs.name == "Res"):
        return None
    reasons = impl_obs.args[0].name == "F"
    tys = [(f.args[1].name == "T", f.args[2]) for c in inp.args[2] for f in c.args[1]]
    d14 = any(P.has_nt_over_node(t) for _, t in tys)
    d20 = any((not q) and P.has_nested_fwd(t) for q, t in tys)
    # model_obs.args = [TT, FT (v_nt off), TF (v_fwd off), FF]
    if d14 and not _diff_against(impl_obs, model_obs.args[1], reasons):
        return "D14"
    if d20 and not _diff_against(impl_obs, model_obs.args[2], reasons):
        return "D20"
    if d14 and d20 and not _diff_against(impl_obs, model_obs.args[3], reasons):
        return "D14"
    return None
