"""C04 - serialization round-trips trees exactly in dict, JSON, MessagePack and YAML.
One case = (class table, property table, tree, number of twin copies registered before the tree, addresses retained
while reading back, options, fresh source registry?, format). Observed: (a) node.as_dict(options) as an ordered JSON
value, (b) the result of reading the format's payload back: position-wise `Same address` (the original object, by
identity) or `New k class id content_id origin properties children` (k numbers new objects by first occurrence, so
sharing is observed), and `result == a fresh copy of the input`."""
from __future__ import annotations

import copy
import gc

from ..lib.term import Con, Some
from ..lib.universe import Built, from_py, iter_nodes, tree_size, universe_from_json, universe_to_json
from .c15 import mk_origin, obs_origin_struct
from .c16 import DIGEST_SIZE, gen_tree, make_universe, opts_term, ptab_term, py_opts, reset_pyoak, to_sval

ID = "C04"
ENTRY = "C04"
RUNNER = "run_C04"
RUN_MODULES = ["Run.RunC04"]
RULE = ("generated class hierarchies and trees of <= 14 nodes (shared subtrees, every origin kind incl. multi-origins and "
        "source sets, strings with separators / controls / non-BMP code points, +-2^63 boundary ints, floats incl. "
        "subnormals, -0.0 and 1e17, bools, None, enums, paths, tuples, optionals); 0-2 content-identical twin copies kept "
        "alive (ids with _N suffixes), digest sizes 8 and 1 (colliding ids); x 4 formats x options {none, sort_keys, "
        "source index, both} x liveness {all alive, root dropped with a random set of subtrees retained, all dropped} x "
        "{same, cleared-and-reloaded source registry}; non-trivial = at least one node is re-created and the tree has "
        ">= 2 nodes; distinct = distinct input terms")
TRUSTED_BASE = [
    "model coq/Model/Serial.v hand-written from serialize.py / node.py:_deserialize / origin.py; tie = this correspondence run",
    "mashumaro to_dict/from_dict modelled as field-wise recursion by annotation; orjson/msgpack/yaml as the identity on the "
    "JSON value (the harness runs the four real encoders on every tree)",
    "liveness: CPython frees a node when the harness drops the last reference (gc.collect() after del)",
]
ASSUMPTIONS = [
    "class identity is the class name; ids of the input tree are those the registry hands out when the objects are built "
    "bottom-up in field order (computed by the model, compared through as_dict)",
    "origins/sources are 'the same' up to == (DESIGN 2.10); raw text of a memory source is not part of equality",
]

TWIN_OFFSET = 1000
DROP_TWINS = 999  # in the retained list: the twin copies are dropped before reading back
SPECIAL_STR = ["\U0001F600", "a b", "x\x00y", "ÿ", "퟿", " lead", "trail ", "", "line\nbreak", "tab\t", "'q'",
               '"dq"', "\\", "\x7f", "\x85", "null", "~", "1", "1.5", "true", "- a", "a: b", "#c", "\U00010000\U0010FFFF", "é雪"]
SPECIAL_FLOAT = [-0.0, 1e-7, 1.7976931348623157e308, 2.2250738585072014e-308, 0.1, 5e-324, 1e17, 123456789.125]


def spice(tree, rng):
    """replace some string / float property values by hard ones (consistently for shared subtrees)"""
    memo = {}

    def val(v, in_tuple=False):
        if v.name == "VStr" and rng.random() < 0.35:
            # inside tuples the digest preimage uses repr(): the shared model of repr (Model/Node.v str_repr) covers ASCII
            # and printable non-ASCII only, so unprintable non-ASCII code points stay out of tuples
            pool = [x for x in SPECIAL_STR if all(ch.isprintable() or ord(ch) < 128 for ch in x)] if in_tuple else SPECIAL_STR
            return Con("VStr", rng.choice(pool))
        if v.name == "VFloat" and rng.random() < 0.5:
            return Con("VFloat", repr(rng.choice(SPECIAL_FLOAT)))
        if v.name == "VTuple":
            return Con("VTuple", [val(x, True) for x in v.args[0]])
        return v

    def go(t):
        a = t.args[0]
        if a not in memo:
            ps = [Con("P", p.args[0], p.args[1] if p.args[0] == b"zp" else val(p.args[1])) for p in t.args[3]]
            ks = [Con("K", k.args[0], k.args[1], [go(c) for c in k.args[2]]) for k in t.args[4]]
            memo[a] = Con("N", a, t.args[1], t.args[2], ps, ks)
        return memo[a]

    return go(tree)


def default_twins(tree, u, rng):
    """a float property whose declared default is 0.0 gets, now and then, the value -0.0 (== to the default, not the same
    value): a writer that leaves out "default" values must not confuse them (seeded change C04-8)"""
    dflt = {}
    for c in u.classes:
        for f in u.merged(c.name):
            if f.role == "Prop" and f.init and f.ptype == "float" and f.has_default and f.default is not None \
                    and f.default.name == "VFloat" and f.default.args[0] in (b"0.0", "0.0"):
                dflt[(c.name, f.name)] = Con("VFloat", "-0.0")
    if not dflt:
        return tree
    memo = {}

    def go(t):
        a = t.args[0]
        if a not in memo:
            cn = t.args[1].decode()
            ps = [Con("P", p.args[0], dflt[(cn, p.args[0].decode())]) if (cn, p.args[0].decode()) in dflt and rng.random() < 0.6 else p
                  for p in t.args[3]]
            ks = [Con("K", k.args[0], k.args[1], [go(c) for c in k.args[2]]) for k in t.args[4]]
            memo[a] = Con("N", a, t.args[1], t.args[2], ps, ks)
        return memo[a]

    return go(tree)


def with_zero_float(u, rng):
    """every root class gets a keyword-only float property with the default 0.0 (see default_twins)"""
    from ..lib.universe import FieldSpec, Universe

    for c in u.classes:
        if c.base is None and not any(f.name == "zf" for f in c.own):
            c.own.append(FieldSpec("zf", "Prop", compare=rng.random() < 0.8, init=True, kw_only=True, ptype="float",
                                   default=Con("VFloat", "0.0"), has_default=True))
    return Universe(u.classes, u.enum_name, u.future, u.uid)


def init_false_fields(u):
    return {(c.name, f.name) for c in u.classes for f in u.merged(c.name) if f.role == "Prop" and not f.init}


def gen_cases(rng, tier):
    cases = []
    n_uni = 8 if tier == "quick" else 150
    for _ in range(n_uni):
        u0 = with_zero_float(make_universe(rng), rng)
        for _t in range(3 if tier == "quick" else 6):
            u = u0.clone(rng)
            uj = universe_to_json(u)
            ct, pt = u.term(), ptab_term(u)
            tree = gen_tree(rng, u, max_nodes=12, max_depth=3)
            nif = init_false_fields(u)
            # init=False properties keep their declared default: only spice values the constructor accepts
            tree = spice(tree, rng)
            tree = default_twins(tree, u, rng)
            tree = restore_non_init(tree, u, nif)
            addrs = [n.args[0] for n in iter_nodes(tree)]
            root = tree.args[0]
            for fmt in ["Dict", "Json", "Msgpack", "Yaml"]:
                for _k in range(3 if tier == "quick" else 5):
                    copies = rng.choice([0, 0, 1, 2])
                    mode = rng.choice(["alive", "none", "none", "subset", "subset"])
                    if mode == "alive":
                        retained = [root]
                    elif mode == "none":
                        retained = []
                    else:
                        rest = [a for a in addrs if a != root]
                        retained = rng.sample(rest, k=min(len(rest), rng.randint(1, 3))) if rest else []
                    if copies and rng.random() < 0.4:
                        retained = [*retained, DROP_TWINS]
                    given = rng.choice([None, Some(opts_term(sort=True)), Some(opts_term(sidx=True)),
                                        Some(opts_term(sort=True, sidx=True)), Some(opts_term(sort=False))])
                    fresh_sources = rng.random() < 0.35
                    cases.append({"kind": f"{fmt}/{mode}" + ("/twins" if copies else "") + ("/reload" if fresh_sources else ""),
                                  "input": Con("C04", ct, pt, tree, copies, retained, given, fresh_sources, Con(fmt)),
                                  "digest_size": rng.choice([8, 8, 8, 1]), "opts": {"universe": uj}})
    return cases


def restore_non_init(tree, u, nif):
    memo = {}
    defaults = {(c.name, f.name): f.default for c in u.classes for f in u.merged(c.name) if f.role == "Prop"}

    def go(t):
        a = t.args[0]
        if a not in memo:
            cn = t.args[1].decode()
            ps = [Con("P", p.args[0], defaults[(cn, p.args[0].decode())] if (cn, p.args[0].decode()) in nif else p.args[1])
                  for p in t.args[3]]
            ks = [Con("K", k.args[0], k.args[1], [go(c) for c in k.args[2]]) for k in t.args[4]]
            memo[a] = Con("N", a, t.args[1], t.args[2], ps, ks)
        return memo[a]

    return go(tree)


# ------------------------------------------------------------------------------------------------ implementation
def kids_of(u, obj):
    out = []
    for f in u.merged(type(obj).__name__):
        if f.role == "Prop":
            continue
        v = getattr(obj, f.name)
        if v is None:
            out.append((f.name, "ShNone", []))
        elif isinstance(v, tuple):
            out.append((f.name, "ShMany", list(v)))
        else:
            out.append((f.name, "ShOne", [v]))
    return out


def impl(t, case):
    import msgpack  # noqa: F401
    from pyoak import config
    from pyoak import origin as O

    u = universe_from_json(case["opts"]["universe"])
    u.load()
    config.ID_DIGEST_SIZE = DIGEST_SIZE[0] = case.get("digest_size") or 8
    reset_pyoak()
    try:
        tree, copies, retained, given, fresh_sources, fmt = t.args[2], t.args[3], t.args[4], t.args[5], t.args[6].name == "T", t.args[7].name
        twins = []
        for _ in range(copies):
            tb = Built(u, mk_origin)
            tb.build(tree)
            twins.append(tb)
        b = Built(u, mk_origin)
        root = b.build(tree)
        cls = type(root)
        o = py_opts(given)
        try:
            d = root.as_dict(serialization_options=o)
        except Exception:  # noqa: BLE001
            return Con("RT", Con("Raise"), Con("Exc"))
        ser = to_sval(d)
        if fmt == "Dict":
            payload = copy.deepcopy(d)
        elif fmt == "Json":
            # compact / indented / bytes spelling of the JSON entry point in rotation (seeded change C16-9: options dropped
            # on the indented path): the text differs only in white space
            k3 = len(ser.args) % 3 if hasattr(ser, "args") else 0
            k3 = (k3 + tree_size(tree)) % 3
            if k3 == 0:
                payload = root.to_json(serialization_options=o)
            elif k3 == 1:
                payload = root.to_json(indent=True, serialization_options=o)
            else:
                payload = root.to_jsonb(indent=True, serialization_options=o)
        elif fmt == "Msgpack":
            payload = root.to_msgpck(serialization_options=o)
        else:
            payload = root.to_yaml(serialization_options=o)
        all_src = O.Source.all_as_dict() if fresh_sources else None
        # liveness: keep the retained objects only
        addr_by_obj = {id(obj): a for a, obj in b.objs.items()}
        keep = [b.objs[a] for a in retained if a != DROP_TWINS]
        if DROP_TWINS in retained:
            twins.clear()
        del d, root
        b.objs.clear()
        b.addr_of.clear()
        del b
        gc.collect()
        same = {}
        stack = list(keep)
        while stack:
            x = stack.pop()
            if id(x) in same:
                continue
            same[id(x)] = addr_by_obj[id(x)]
            for _, _, ks in kids_of(u, x):
                stack.extend(ks)
        for k, tb in enumerate(twins, 1):
            for a, obj in tb.objs.items():
                same[id(obj)] = a + TWIN_OFFSET * k
        if fresh_sources:
            O.Source.clear_registry()
            O.Source.load_serialized_sources(all_src)
        try:
            if fmt == "Dict":
                res = cls.as_obj(payload, serialization_options=o)
            elif fmt == "Json":
                res = cls.from_json(payload, serialization_options=o)
            elif fmt == "Msgpack":
                res = cls.from_msgpck(payload, serialization_options=o)
            else:
                res = cls.from_yaml(payload, serialization_options=o)
        except Exception as e:  # noqa: BLE001
            return Con("RT", ser, Con("Exc", type(e).__name__))
        news = {}
        keepalive = []

        def obs(x):
            if id(x) in same:
                return Con("Same", same[id(x)])
            if id(x) not in news:
                news[id(x)] = len(news)
                keepalive.append(x)
            ps = [Con("P", f.name, from_py(getattr(x, f.name))) for f in u.merged(type(x).__name__) if f.role == "Prop"]
            ks = [Con("K", name, Con(sh), [obs(c) for c in l]) for name, sh, l in kids_of(u, x)]
            # the class is observed as an OBJECT: a re-created node must be an instance of the class the model's name denotes
            # (seeded change C04-9: the class object discarded by dataclass(slots=True) stayed registered under the name)
            cn = type(x).__name__
            if type(x) is not getattr(u.module, cn, None):
                cn += "<another class object of that name>"
            return Con("New", news[id(x)], cn, x.id, x.content_id, obs_origin_struct(x.origin), ps, ks)

        tree_obs = obs(res)
        # implementation-only clause: every node of the result is registered under its own id, and the registry holds
        # no entry whose key is not the id of the object it points at (a stale entry would later be returned by lookup
        # and be mistaken for a shared object)
        from pyoak.node import NODE_REGISTRY
        bad = []
        for key, obj in list(NODE_REGISTRY.items()):
            if obj.id != key:
                bad.append("stale-registry-entry")
        stack2, seen2 = [res], set()
        while stack2:
            x = stack2.pop()
            if id(x) in seen2:
                continue
            seen2.add(id(x))
            if NODE_REGISTRY.get(x.id) is not x:
                bad.append("result-node-not-registered-under-its-id")
            for _, _, ks in kids_of(u, x):
                stack2.extend(ks)
        if bad:
            return Con("RTBad", sorted(set(bad)))
        ref = Built(u, mk_origin).build(tree)
        eq = bool(res == ref) and not bool(res != ref)
        return Con("RT", ser, Con("Ok", tree_obs, eq))
    finally:
        config.ID_DIGEST_SIZE = 8
        reset_pyoak()


# ------------------------------------------------------------------------------------------------ verdicts
def compare(inp, impl_obs, model_obs):
    if impl_obs == model_obs:
        return []
    if isinstance(impl_obs, Con) and impl_obs.name == "RTBad":
        return ["registry:" + x.decode() for x in impl_obs.args[0]]
    if not (isinstance(impl_obs, Con) and impl_obs.name == "RT" and isinstance(model_obs, Con) and model_obs.name == "RT"):
        return ["result"]
    diffs = []
    if impl_obs.args[0] != model_obs.args[0]:
        diffs.append("as_dict")
    x, y = impl_obs.args[1], model_obs.args[1]
    if x.name != y.name:
        diffs.append("roundtrip:returns-or-raises")
    elif x.name == "Ok":
        if x.args[0] != y.args[0]:
            diffs.append("roundtrip:position-wise-result")
        if x.args[1] != y.args[1]:
            diffs.append("roundtrip:result==original")
    return diffs


def has_new(t):
    if isinstance(t, Con):
        return t.name == "New" or any(has_new(a) for a in t.args)
    if isinstance(t, tuple):
        return any(has_new(a) for a in t)
    return False


def nontrivial(inp, model_obs):
    return tree_size(inp.args[2]) >= 2 and has_new(model_obs)


def spec_violation(inp, impl_obs, model_obs, diffs):
    # the exact dict layout is C16's business; everything about the round trip is stated by C04
    return any(d.startswith("roundtrip") or d.startswith("registry:") for d in diffs)


def search(rng, tier):
    """round-trip generated trees on the implementation alone: result == original, ids preserved, sharing preserved"""
    from pyoak import node as N

    for _ in range(40 if tier == "quick" else 400):
        u = make_universe(rng).clone(rng)
        u.load()
        tree = gen_tree(rng, u)
        reset_pyoak()
        b = Built(u, mk_origin)
        root = b.build(tree)
        ids = {a: o.id for a, o in b.objs.items()}
        for f in ("json", "msgpck", "yaml"):
            try:
                payload = getattr(root, "to_" + f)()
            except Exception as e:  # noqa: a well-formed tree that cannot be written at all does not round-trip
                return {"input": repr(tree)[:3000], "format": f, "what": f"to_{f} raised {type(e).__name__}: {str(e)[:200]}"}
            keep_ids = [o.id for o in root.dfs()] if False else None  # noqa: F841
            cls = type(root)
            ref = copy.copy(ids)
            txt = repr(tree)
            del root
            b.objs.clear()
            b.addr_of.clear()
            gc.collect()
            try:
                res = getattr(cls, "from_" + f)(payload)
            except Exception as e:  # noqa
                return {"input": txt[:3000], "format": f, "what": f"from_{f} raised {type(e).__name__}: {str(e)[:200]}"}
            b = Built(u, mk_origin)
            root = b.build(tree)
            if not (res == root) or res.id != ref[tree.args[0]]:
                return {"input": txt[:3000], "format": f, "what": "round trip differs from the original (== or id)"}
            del res
            gc.collect()
            ids = {a: o.id for a, o in b.objs.items()}
        del root
        b.objs.clear()
        gc.collect()
        N.NODE_REGISTRY.clear()
    return None
