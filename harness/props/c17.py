"""C17 - xpath and pattern text is either compiled or rejected with the definition error.
The model reads the TEXT itself (coq/Model/PatParse.v, XpathParse.v); Python's re.compile is an oracle whose
answers for every quoted substring of the text travel with the case."""
from __future__ import annotations

import re
import warnings

from ..lib.term import Con, Some, canon, norm, to_text
from ..lib.universe import Built, gen_universe, iter_nodes, universe_from_json, universe_to_json
from .c08 import PatGen, enc_multi, enc_res, gen_forest, kind_of_message, norm_res, poison
from .c15 import mk_origin

try:  # import cost (lark builds two parsers) stays outside the per-case alarm of the worker
    import pyoak.match.pattern  # noqa: F401
    import pyoak.match.xpath  # noqa: F401
except Exception:  # pragma: no cover - the main process may run without pyoak on its path
    pass

ID = "C17"
ENTRY = "C17"
RUNNER = "run_C17"
RUN_MODULES = ["Run.RunC17"]
RULE = ("texts: (a) pattern ASTs generated from the grammar (as in C08) printed token by token with random white space "
        "(none, blanks, tabs, newlines, form feeds) between tokens; (b) single-token mutations of them: deleted, duplicated, "
        "swapped, replaced tokens; (c) class names replaced by unknown names and by non-node serializable classes (Source, "
        "CodePoint, ...); duplicated captures and variables before their capture; (d) strings with escapes, quotes, newlines "
        "and regexes that do not compile; (e) random strings over the grammar's alphabet; the same five families for xpaths "
        "(steps with field / index / class in every combination, relative paths, leading white space).  Observed: exception "
        "class or (ok, message kind) of validate_pattern, NodeMatcher.from_pattern (fresh and cached) and MultiPatternMatcher, "
        "their agreement, for accepted patterns the match results on probe nodes (fresh, cached, recompiled, via "
        "MultiPatternMatcher), for accepted xpaths the element list (fresh and cached).  non-trivial = the text is accepted, or "
        "rejected for a reason other than a syntax error at the first token; distinct = distinct texts")
TRUSTED_BASE = [
    "model coq/Model/PatParse.v and XpathParse.v: hand-written lexers/parsers for the two lark grammars; lark itself is not modelled, the tie is this run",
    "re.compile is an oracle (table in the case); matching behaviour is compared only for regexes of the family literal | literal$",
    "the token printers below",
]
ASSUMPTIONS = ["lark 1.x LALR with contextual lexer; WS = [ \\t\\f\\r\\n]+",
               "class registry = the universe's classes + ASTNode + pyoak's own serializable classes"]

WS = ["", "", " ", " ", "  ", "\t", "\n", "\r\n", "\f", " \n "]
NONNODE = ["Source", "CodePoint", "CodeRange", "Origin", "NoOrigin", "MultiOrigin", "XMLPath", "TextSource", "Position"]
UNKNOWN = ["Zzz", "a", "None", "_x", "A1_", "Node"]
PAT_ALPHABET = ["(", ")", "|", "@", "=", "[", "]", "->", "$", "None", "*", '"a"', '""', "a", "b", "x_y", "_", "A", "1", "-", ">", '"', "\\", " ", "\n"]
XP_ALPHABET = ["/", "@", "[", "]", "A", "x", "1", "0", "_", " ", "\t", "*", "-", "//", "\n"]


# ----------------------------------------------------------------------------------------------- tokens of a pattern
def toks_cap(c):
    return [] if c.name == "None" else ["->", c.args[0].decode()]


def toks_vpat(v):
    if v.name == "VT":
        return toks_pat(v.args[0])
    if v.name == "VV":
        return ["$", v.args[0].decode()]
    if v.name == "VN":
        return ["None"]
    return ['"' + v.args[0].decode() + '"']


def toks_fspec(s):
    if s.name == "FAny":
        return toks_cap(s.args[0])
    if s.name == "FVal":
        return ["="] + toks_vpat(s.args[0]) + toks_cap(s.args[1])
    items, tail, cap = s.args
    out = ["=", "["]
    for it in items:
        out += toks_vpat(it.args[0]) + toks_cap(it.args[1])
    if tail.name == "Some":
        out += ["*"] + toks_cap(tail.args[0])
    return out + ["]"] + toks_cap(cap)


def toks_pat(p):
    cls, fs = p.args
    out = ["("]
    if cls.name == "Any":
        out.append("*")
    else:
        for i, c in enumerate(cls.args[0]):
            if i:
                out.append("|")
            out.append(c.decode())
    for f in fs:
        out += ["@", f.args[0].decode()] + toks_fspec(f.args[1])
    return out + [")"]


def join_ws(rng, toks, p_ws=0.5):
    out = []
    for i, t in enumerate(toks):
        if i and rng.random() < p_ws:
            out.append(rng.choice(WS))
        out.append(t)
    if rng.random() < 0.2:
        out.append(rng.choice(WS))
    if rng.random() < 0.1:
        out.insert(0, rng.choice(WS))
    return "".join(out)


def mutate(rng, toks, alphabet):
    toks = list(toks)
    if not toks:
        return [rng.choice(alphabet)]
    i = rng.randrange(len(toks))
    k = rng.random()
    if k < 0.3:
        del toks[i]
    elif k < 0.5:
        toks.insert(i, toks[i])
    elif k < 0.7 and len(toks) > 1:
        j = min(len(toks) - 1, i + 1)
        toks[i], toks[j] = toks[j], toks[i]
    else:
        toks[i] = rng.choice(alphabet)
    return toks


STRINGS = ['"a"', '""', '"a\\"b"', '"\\\\"', '"\\\\\\""', '"a\\"', '"("', '"["', '"*"', '"a|b"', '"x$"', '"\\d"', '"a\nb"', '"é"',
           '"a" "b"', '"\\', '"a\\\\"b"', '"(?P<n>a)"', '"a{2}"', '"+"', '"\\1"']


def re_table(text):
    """every substring between two double quotes, with re.compile's verdict"""
    pos = [i for i, ch in enumerate(text) if ch == '"']
    seen = {}
    for a in range(len(pos)):
        for b in range(a + 1, len(pos)):
            inner = text[pos[a] + 1: pos[b]]
            if inner in seen:
                continue
            try:
                with warnings.catch_warnings():
                    warnings.simplefilter("ignore")
                    re.compile(inner)
                seen[inner] = True
            except Exception:
                seen[inner] = False
            if len(seen) > 60:
                return seen
    return seen


# ----------------------------------------------------------------------------------------------- generation
def gen_xpath_toks(rng, u, fields):
    names = [c.name for c in u.classes]
    n = rng.choice([1, 1, 2, 2, 3, 4])
    toks = []
    for i in range(n):
        toks.append("/")
        last = i == n - 1
        k = rng.random()
        if k < 0.15 and not last:
            continue        # an empty step: "//"
        has_field = rng.random() < 0.4
        has_index = rng.random() < 0.35
        has_cls = last or rng.random() < 0.7
        if has_field:
            toks += ["@", rng.choice(fields + ["x", "_f1"])]
        if has_index:
            toks += ["["] + list(rng.choice(["", "0", "1", "12", "007", "3"])) + ["]"]
        if has_cls:
            r = rng.random()
            c = rng.choice(names) if r < 0.8 else ("ASTNode" if r < 0.86 else rng.choice(UNKNOWN if r < 0.93 else NONNODE))
            if has_field and not has_index:
                toks.append(" ")      # CNAME CNAME needs white space in between
            toks.append(c)
    return toks


def gen_cases(rng, tier):
    cases = []
    n_uni = 12 if tier == "quick" else 40
    per_uni = 70 if tier == "quick" else 500
    for _ in range(n_uni):
        u = gen_universe(rng)
        uj = universe_to_json(u)
        ct = u.term()
        names = [c.name for c in u.classes]
        fields = sorted({f.name for c in u.classes for f in c.own}) or ["x"]
        for _ in range(per_uni):
            roots, _tw = gen_forest(rng, u)
            allnodes = []
            seen = set()
            for r in roots:
                allnodes += list(iter_nodes(r, seen))
            targets = [r.args[0] for r in roots][:6]
            src = rng.choice(allnodes)
            g = PatGen(rng, u)
            g.illformed = rng.random() < 0.15
            toks = toks_pat(g.pat_for(src))
            k = rng.random()
            kind = "pat:grammar"
            if k < 0.35:
                pass
            elif k < 0.55:
                kind = "pat:mutated"
                for _ in range(rng.choice([1, 1, 2])):
                    toks = mutate(rng, toks, PAT_ALPHABET + names[:2])
            elif k < 0.68:
                kind = "pat:class"
                idx = [i for i, t in enumerate(toks) if t in names]
                if idx and rng.random() < 0.35:
                    # class alternatives around the base class itself: every name of the alternative is checked, whichever
                    # comes first (seeded change C17-11: the names after ASTNode were skipped)
                    bad = rng.choice(UNKNOWN + NONNODE)
                    alt = rng.choice([["ASTNode", "|", bad], [rng.choice(names), "|", "ASTNode", "|", bad], [bad, "|", "ASTNode"],
                                      ["ASTNode", "|", rng.choice(names)], [rng.choice(names), "|", "ASTNode"]])
                    j = rng.choice(idx)
                    toks[j:j + 1] = alt
                elif idx:
                    toks[rng.choice(idx)] = rng.choice(UNKNOWN + NONNODE + ["ASTNode"])
            elif k < 0.82:
                kind = "pat:string"
                idx = [i for i, t in enumerate(toks) if t.startswith('"')]
                s = rng.choice(STRINGS)
                if idx:
                    toks[rng.choice(idx)] = s
                else:
                    toks = ["(", "*", "@", rng.choice(fields), "=", s, ")"]
            else:
                kind = "pat:random"
                toks = [rng.choice(PAT_ALPHABET + names[:1]) for _ in range(rng.randint(0, 12))]
            text = join_ws(rng, toks) if kind != "pat:random" else "".join(toks)
            if text.count('"') > 10:
                text = text.replace('"', "", text.count('"') - 10)
            table = [Con("RE", r, ok) for r, ok in sorted(re_table(text).items())]
            cases.append({"kind": kind, "input": Con("Pat", ct, text, table, roots, targets), "digest_size": 8,
                          "opts": {"universe": uj}})
            # an xpath case
            xt = gen_xpath_toks(rng, u, fields)
            k = rng.random()
            xkind = "xp:grammar"
            if k < 0.4:
                pass
            elif k < 0.65:
                xkind = "xp:mutated"
                for _ in range(rng.choice([1, 1, 2])):
                    xt = mutate(rng, xt, XP_ALPHABET + names[:2])
            elif k < 0.8:
                xkind = "xp:relative"
                xt = xt[1:] if rng.random() < 0.7 else [rng.choice([" ", "\t", "\n"])] + xt
            else:
                xkind = "xp:random"
                xt = [rng.choice(XP_ALPHABET + names[:1] + NONNODE[:1] + UNKNOWN[:1]) for _ in range(rng.randint(0, 10))]
            # white space between tokens, never in front (DESIGN 2.10: leading white space makes the path relative)
            xtext = ""
            for i, t in enumerate(xt):
                if i and rng.random() < 0.4 and xkind != "xp:random":
                    xtext += rng.choice(WS)
                xtext += t
            cases.append({"kind": xkind, "input": Con("Xp", ct, xtext), "opts": {"universe": uj}})
    return cases


# ----------------------------------------------------------------------------------------------- implementation
def xkind_of_message(msg):
    if msg.startswith("Incorrect xpath definition. Context"):
        return Con("Syntax")
    if msg.startswith("Unknown AST type"):
        return Con("UnknownClass")
    if msg.endswith("is not an AST type"):
        return Con("NotNode")
    return Con("OtherMessage", msg[:60])


_LATE = {"done": False, "bad": None}


def probe_late_defined_class():
    """A class name that did not exist when a text naming it was first rejected must be accepted once the class exists
    (every string of the grammar whose class names exist is accepted: acceptance may not be remembered per name).
    Runs once per worker process; returns the violated clause or None."""
    if _LATE["done"]:
        return _LATE["bad"]
    _LATE["done"] = True
    import os
    import sys
    import types

    from pyoak.match.error import ASTXpathDefinitionError
    from pyoak.match.pattern import validate_pattern
    from pyoak.match.xpath import ASTXpath
    name = f"VerifLate{os.getpid()}"
    bad = None
    try:
        ASTXpath("//" + name)
        bad = "unknown-class-accepted"
    except ASTXpathDefinitionError:
        pass
    ok0, _ = validate_pattern(f"({name})")
    if ok0:
        bad = "unknown-class-accepted"
    from pyoak.match.error import ASTPatternDefinitionError
    from pyoak.match.pattern import MultiPatternMatcher, NodeMatcher
    if NodeMatcher.from_pattern(f"({name})")[0] is not None:       # (also leaves whatever a rejection leaves behind)
        bad = "unknown-class-accepted"
    try:
        MultiPatternMatcher([("r", f"({name})")])
        bad = "unknown-class-accepted"
    except ASTPatternDefinitionError:
        pass
    m = types.ModuleType("verif_c17_late")
    sys.modules[m.__name__] = m
    exec(compile("from dataclasses import dataclass\nfrom pyoak.node import ASTNode\n"
                 f"@dataclass(frozen=True)\nclass {name}(ASTNode):\n    v: int = 0\n", m.__name__, "exec", dont_inherit=True), m.__dict__)
    inst = getattr(m, name)()
    try:
        xp = ASTXpath("//" + name)
        if not xp.match(inst, inst):
            bad = bad or "late-defined-class-does-not-match"
    except ASTXpathDefinitionError:
        bad = bad or "late-defined-class-still-rejected(xpath)"
    ok1, _ = validate_pattern(f"({name})")
    if not ok1:
        bad = bad or "late-defined-class-still-rejected(pattern)"
    m1, _ = NodeMatcher.from_pattern(f"({name})")      # seeded change C08-10: rejections remembered per pattern text
    if m1 is None or not m1.match(inst)[0]:
        bad = bad or "late-defined-class-still-rejected(from_pattern)"
    try:
        if MultiPatternMatcher([("r", f"({name})")]).match(inst) is None:
            bad = bad or "late-defined-class-does-not-match(multi)"
    except ASTPatternDefinitionError:
        bad = bad or "late-defined-class-still-rejected(multi)"
    _LATE["bad"] = bad
    return bad


_REDEF = {"done": False, "bad": None}


def probe_redefined_class():
    """An xpath / pattern text used once, the class it names defined AGAIN under the same name (same module: pyoak allows
    that), the same text used again: it selects instances of the class the name denotes NOW (a step matches a node iff
    it is an instance of the named class; compiling the same text again, cached or not, behaves the same).
    Once per worker process (seeded change C07-11)."""
    if _REDEF["done"]:
        return _REDEF["bad"]
    _REDEF["done"] = True
    import os
    import sys
    import types

    from pyoak.match.pattern import NodeMatcher
    from pyoak.match.xpath import ASTXpath
    name = f"VerifRedef{os.getpid()}"
    m = types.ModuleType("verif_c17_redef")
    sys.modules[m.__name__] = m
    src = ("from dataclasses import dataclass\nfrom pyoak.node import ASTNode\n"
           f"@dataclass(frozen=True)\nclass {name}(ASTNode):\n    v: int = 0\n")
    bad = None
    try:
        exec(compile(src, m.__name__, "exec", dont_inherit=True), m.__dict__)
        old = getattr(m, name)(v=1)
        x1 = ASTXpath("//" + name)
        p1, _ = NodeMatcher.from_pattern(f"({name})")
        if not x1.match(old, old) or list(old.findall("//" + name)) != [old] or p1 is None or not p1.match(old)[0]:
            bad = "fresh-class-does-not-match"
        exec(compile(src.replace("v: int = 0", "v: int = 0\n    w: int = 0"), m.__name__, "exec", dont_inherit=True), m.__dict__)
        new = getattr(m, name)(v=2)
        x2 = ASTXpath("//" + name)
        p2, _ = NodeMatcher.from_pattern(f"({name})")
        if not x2.match(new, new) or list(new.findall("//" + name)) != [new] or new.find("//" + name) is not new:
            bad = bad or "redefined-class-not-selected(xpath)"
        # (pattern matchers are cached by text and keep the class object they were compiled against: after a re-definition
        #  the cached matcher still denotes the old class.  No property quantifies over node models that change while
        #  patterns are alive, so this is recorded in DESIGN 2.10 as a reading, not checked.)
        del p2
        del old, new
    except Exception as e:  # noqa: BLE001
        bad = bad or "redefinition-probe-raises:" + type(e).__name__
    _REDEF["bad"] = bad
    return bad


def impl(t, case):
    bad = probe_late_defined_class() or probe_redefined_class()
    if bad:
        return Con("ProbeViolation", bad)
    return impl_case(t, case)


def decoys(text):
    """Texts a careless cache key could confuse with `text` (white space inside string literals changed, white space runs
    collapsed / removed, stripped, case folded).  They are compiled BEFORE `text`, so that the cache is populated with
    near misses when `text` itself is compiled: the result for `text` must not depend on them (seeded change C17-4)."""
    out = []
    inside, dbl, tab, one = False, "", "", ""
    for i, ch in enumerate(text):
        if ch == '"' and (i == 0 or text[i - 1] != "\\"):
            inside = not inside
        if inside and ch == " ":
            dbl, tab = dbl + "  ", tab + "\t"
            one += "" if one.endswith(" ") else " "
        else:
            dbl, tab, one = dbl + ch, tab + ch, one + ch
    for d in (dbl, tab, one, " ".join(text.split()), "".join(text.split()), text.strip(), text + " ", " " + text, text.lower(),
              text.upper()):
        if d != text and d not in out:
            out.append(d)
    return out


def impl_case(t, case):
    import pyoak.match.xpath as X
    from pyoak import config
    from pyoak.match import pattern as P
    from pyoak.match.error import ASTPatternDefinitionError, ASTXpathDefinitionError

    u = universe_from_json(case["opts"]["universe"])
    if norm(u.term()) != t.args[0]:
        return Con("InconsistentCase")
    u.load()
    text = t.args[1].decode("utf-8", errors="surrogateescape")
    if t.name == "Xp":
        X._AST_XPATH_CACHE.clear()
        for d in decoys(text):
            try:
                X.ASTXpath(d)
            except Exception:  # noqa: BLE001
                pass

        def one():
            try:
                x = X.ASTXpath(text)
            except ASTXpathDefinitionError as e:
                return Con("XpErr", xkind_of_message(e.message))
            return Con("XpOk", [Con("E", e.ast_class.__name__, None if e.parent_field is None else Some(str(e.parent_field)),
                                    None if e.parent_index is None else Some(e.parent_index), bool(e.anywhere)) for e in x._elements])
        a, b = one(), one()
        X._AST_XPATH_CACHE.clear()
        c = one()
        if not (norm(a) == norm(b) == norm(c)):
            return Con("Unstable", a, b, c)
        return a

    config.ID_DIGEST_SIZE = 8
    P._MATCHER_CACHE.clear()
    ok, msg = P.validate_pattern(text)
    v = kind_of_message(msg)
    if ok != (v.name == "Ok"):
        v = Con("Inconsistent", ok, msg[:40])
    poison(text)
    for d in decoys(text):
        try:
            P.NodeMatcher.from_pattern(d)
        except Exception:  # noqa: BLE001
            pass
    m1, msg1 = P.NodeMatcher.from_pattern(text)
    f1 = kind_of_message(msg1)
    if (m1 is not None) != (f1.name == "Ok"):
        f1 = Con("Inconsistent", m1 is not None, msg1[:40])
    m2, msg2 = P.NodeMatcher.from_pattern(text)
    f2 = kind_of_message(msg2)
    if (m2 is not None) != (f2.name == "Ok"):
        f2 = Con("Inconsistent", m2 is not None, msg2[:40])
    mm = None
    try:
        mm = P.MultiPatternMatcher([("r", text)])
        multi = Con("Ok")
    except ASTPatternDefinitionError as e:
        if e.message == "Pattern names must be unique":
            multi = Con("NamesNotUnique")
        else:
            head = "Incorrect pattern definitions:\nPattern 'r': "
            multi = Con("Incorrect", [kind_of_message(e.message[len(head):])]) if e.message.startswith(head) else Con("OtherMessage", e.message[:60])
    probes = Con("NoProbe")
    if m1 is not None:
        b = Built(u, mk_origin)
        for r in t.args[3]:
            b.build(r)
        nodes = [b.objs[a] for a in t.args[4]]
        first = [enc_res(b, lambda: m1.match(n)) for n in nodes]
        again = [enc_res(b, lambda: m2.match(n)) for n in nodes] if m2 is not None else None
        P._MATCHER_CACHE.clear()
        m3, _ = P.NodeMatcher.from_pattern(text)
        third = [enc_res(b, lambda: m3.match(n)) for n in nodes] if m3 is not None else None
        via = None
        if mm is not None:
            via = []
            for n in nodes:
                r = enc_multi(b, lambda: mm.match(n))
                r = norm(r)
                if isinstance(r, Con) and r.name == "Some":
                    via.append(r.args[0][1])
                elif isinstance(r, Con) and r.name == "None":
                    via.append(Con("M", False, []))
                else:
                    via.append(r)
        if not (norm(first) == norm(again) == norm(third) == norm(via)):
            probes = Con("Unstable", first, again, third, via)
        else:
            probes = first
    return Con("PatRes", v, f1, f2, multi, probes)


CLAUSES = ["validate_pattern", "from_pattern", "from_pattern(cached)", "MultiPatternMatcher", "matching-behaviour"]


def compare(inp, impl_obs, model_obs):
    if isinstance(impl_obs, Con) and impl_obs.name == "InconsistentCase":
        return []
    if isinstance(impl_obs, Con) and impl_obs.name == "ProbeViolation":
        return ["probe:" + impl_obs.args[0].decode()]
    impl_obs, model_obs = canon(impl_obs), canon(model_obs)
    if isinstance(model_obs, Con) and model_obs.name == "PatRes" and isinstance(impl_obs, Con) and impl_obs.name == "PatRes":
        diffs = [c for c, x, y in zip(CLAUSES[:4], impl_obs.args, model_obs.args) if x != y]
        pm, pi = model_obs.args[4], impl_obs.args[4]
        if not (isinstance(pm, Con) and pm.name == "NoProbe"):
            if isinstance(pi, Con) or [norm_res(x) for x in pi] != [norm_res(x) for x in pm]:
                diffs.append(CLAUSES[4])
        elif isinstance(pi, Con) and pi.name == "Unstable":
            diffs.append("same-text-same-behaviour")
        return diffs
    return [] if impl_obs == model_obs else ["xpath" if inp.name == "Xp" else "result"]


def nontrivial(inp, model_obs):
    if not isinstance(model_obs, Con):
        return False
    if model_obs.name == "XpOk":
        return True
    if model_obs.name == "XpErr":
        return model_obs.args[0].name != "Syntax"
    if model_obs.name == "PatRes":
        return model_obs.args[0].name != "Syntax"
    return False


def spec_violation(inp, impl_obs, model_obs, diffs):
    return True
