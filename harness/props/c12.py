"""C12 - accessors. One case = (class table, node, warm-up order); all accessor results are observed at once."""
from __future__ import annotations

import itertools

from ..lib.term import Con, canon, norm
from ..lib.universe import (Built, TreeGen, from_py, gen_universe, iter_nodes, node_cls, tree_size, universe_from_json,
                            universe_to_json)
from .c15 import mk_origin

ID = "C12"
ENTRY = "C12"
RUNNER = "run_C12"
RUN_MODULES = ["Run.RunC12"]
RULE = ("generated class hierarchies (1-3 levels, 0-5 own fields per class of every child/property shape, overrides, defaults, "
        "init=False, compare=False, kw_only, falsy classes, plain and postponed annotations); per hierarchy up to 6 orders "
        "of first use, each in a fresh copy of the classes; per case one node and ALL 32 flag combinations x sorted/unsorted "
        "of get_properties / get_property_fields plus every child accessor; non-trivial = the node's class has at least one "
        "property field and one child field or is a subclass; distinct = distinct (class table, node) terms")
TRUSTED_BASE = [
    "model coq/Model/ClassTable.v + Access.v hand-written from codegen.py / node.py:705-821 / dataclasses field merge; tie = this correspondence run",
    "the exec/setattr bootstrap of codegen.py (first-use order) is explored by the harness only",
]
ASSUMPTIONS = ["class identity is the class name; single inheritance", "dataclasses.fields order = model fields_of (compared each case)"]


def gen_cases(rng, tier):
    cases = []
    n_uni = 14 if tier == "quick" else 300
    for _ in range(n_uni):
        u0 = gen_universe(rng, force_falsy=rng.random() < 0.5)
        names = [c.name for c in u0.classes]
        orders = list(itertools.permutations(range(len(names)))) if len(names) <= 3 else None
        n_orders = min(6, len(orders)) if orders else 4
        for k in range(n_orders):
            u = u0.clone(rng)
            cn = [c.name for c in u.classes]
            if orders:
                idx = orders[k]
            elif k == 0:
                idx = list(range(len(cn)))              # every base class is used before its subclasses
            elif k == 1:
                idx = list(reversed(range(len(cn))))    # every subclass before its bases
            else:
                idx = rng.sample(range(len(cn)), len(cn))
            order = [cn[i] for i in idx]
            uj = universe_to_json(u)
            ct = u.term()
            warm = []
            for c in order:
                warm.append(TreeGen(rng, u, max_nodes=4, max_depth=1).node(c))
            static_first = rng.random() < 0.3
            # every class of the hierarchy is queried (as the class of the case node), under this first-use order
            for cname in cn:
                tg = TreeGen(rng, u, max_nodes=8, max_depth=2)
                nt = tg.node(cname)
                cases.append({"kind": "accessors", "input": Con("C12", ct, nt),
                              "opts": {"universe": uj, "warm": [norm(w).__repr__() for w in warm], "static_first": static_first}})
            tg = TreeGen(rng, u, max_nodes=12, max_depth=3)
            root = tg.node(rng.choice(cn))
            picks = [nt for nt in iter_nodes(root) if any(k.args[1].name == "ShOne" for k in nt.args[4])]
            rng.shuffle(picks)
            for nt in picks[:1]:
                cases.append({"kind": "accessors-single-child", "input": Con("C12", ct, nt),
                              "opts": {"universe": uj, "warm": [norm(w).__repr__() for w in warm], "static_first": static_first}})
    return cases


def edge(b, c, f, i):
    return [b.addr(c), f.name, None if i is None else Con("Some", i)]


def impl(t, case):
    from ..lib.term import from_text

    u = universe_from_json(case["opts"]["universe"])
    fresh = u.module is None
    mod = u.load()
    nt = t.args[1]
    cls = getattr(mod, node_cls(nt))
    if fresh and case["opts"].get("static_first"):
        list(cls.get_property_fields())
        cls.get_child_fields()
    if fresh:
        wb = Built(u, mk_origin)
        for w in case["opts"]["warm"]:
            wb.build(from_text(w))
    b = Built(u, mk_origin)
    n = b.build(nt)
    # every child object gets its address from the input term (Built.addr_of)
    first = {}
    if nt.args[0] % 2:
        # the very first accessor calls of a class may be the sorted ones (the first-use specialisation must forward its
        # arguments): what THESE calls return is what gets compared
        first["gcn"] = [b.addr(c) for c in n.get_child_nodes(sort_keys=True)]
        first["icf"] = [(v, f) for v, f in n.iter_child_fields(sort_keys=True)]
        first["gcnf"] = [edge(b, c, f, i) for c, f, i in n.get_child_nodes_with_field(sort_keys=True)]
        first["props"] = [f.name for _, f in n.get_properties(sort_keys=True)]
    combos = []
    for k in range(32):
        fl = dict(skip_id=bool(k & 1), skip_origin=bool(k & 2), skip_content_id=bool(k & 4),
                  skip_non_compare=bool(k & 8), skip_non_init=bool(k & 16))
        # the flags are positional-or-keyword parameters in the documented order: both spellings, alternating which result
        # feeds the comparison with the model (seeded change C12-7: two positional parameters swapped)
        pos = tuple(fl.values())
        unsorted_ = list(n.get_properties(**fl)) if k % 2 else list(n.get_properties(*pos))
        sorted_ = list(n.get_properties(*pos, sort_keys=True)) if k % 2 else list(n.get_properties(**fl, sort_keys=True))
        if [f.name for _, f in n.get_properties(*pos)] != [f.name for _, f in n.get_properties(**fl)] \
                or [f.name for f in cls.get_property_fields(*pos)] != [f.name for f in cls.get_property_fields(**fl)]:
            return Con("PositionalDiffers", k)
        for v, f in unsorted_ + sorted_:
            assert getattr(n, f.name) is v or getattr(n, f.name) == v
        combos.append([[f.name for _, f in unsorted_], [f.name for _, f in sorted_],
                       [f.name for f in cls.get_property_fields(**fl)]])
    pd = [[k, Con("Some", from_py(v))] for k, v in n.to_properties_dict().items()]
    if "props" in first and first["props"] != [f.name for _, f in n.get_properties(sort_keys=True)]:
        return Con("FirstCallDiffers", "get_properties(sort_keys=True)")
    shape = lambda v: Con("ShNone") if v is None else (Con("ShMany") if isinstance(v, tuple) else Con("ShOne"))
    kids = lambda v: [] if v is None else ([b.addr(x) for x in v] if isinstance(v, tuple) else [b.addr(v)])
    import dataclasses
    res = Con("Acc", combos, pd,
               [edge(b, c, f, i) for c, f, i in n.get_child_nodes_with_field()],
               first.get("gcnf") if "gcnf" in first else [edge(b, c, f, i) for c, f, i in n.get_child_nodes_with_field(sort_keys=True)],
               [b.addr(c) for c in n.get_child_nodes()],
               first.get("gcn") if "gcn" in first else [b.addr(c) for c in n.get_child_nodes(sort_keys=True)],
               [b.addr(c) for c in n.children],
               [[f.name, shape(v), kids(v)] for v, f in n.iter_child_fields()],
               [[f.name, shape(v), kids(v)] for v, f in (first["icf"] if "icf" in first else n.iter_child_fields(sort_keys=True))],
               [f.name for f in cls.get_child_fields()],
               [f.name for f in dataclasses.fields(cls) if f.name not in ("id", "content_id", "origin")])
    # implementation-only probe: a second instance that differs from this one only in a NON-comparable property (same id,
    # same content) reports its own values through every accessor (seeded change C12-11: results memoised per node, i.e.
    # per hash / ==)
    for f in u.merged(type(n).__name__):
        if f.role == "Prop" and not f.compare and f.init and f.ptype in ("int", "str", "bool"):
            v = getattr(n, f.name)
            nv = (not v) if isinstance(v, bool) else (v + 1 if isinstance(v, int) else (v + "x" if isinstance(v, str) else None))
            if nv is None:
                continue
            try:
                n2 = n.replace(**{f.name: nv})       # ASTNode.replace: the new node takes over the id
            except Exception:  # noqa: BLE001
                break
            got = n2.to_properties_dict().get(f.name, "<missing>")
            got2 = dict((g.name, val) for val, g in n2.get_properties()).get(f.name, "<missing>")
            if got != nv or got2 != nv or n.to_properties_dict().get(f.name) != v:
                return Con("SecondInstanceReportsFirstValues", f.name)
            break
    return res


CLAUSES = ["get_properties/get_property_fields", "to_properties_dict", "get_child_nodes_with_field", "get_child_nodes_with_field(sorted)",
           "get_child_nodes", "get_child_nodes(sorted)", "children", "iter_child_fields", "iter_child_fields(sorted)",
           "get_child_fields", "dataclass-field-order"]


def compare(inp, impl_obs, model_obs):
    impl_obs, model_obs = canon(impl_obs), canon(model_obs)
    if impl_obs == model_obs:
        return []
    if isinstance(impl_obs, Con) and impl_obs.name == "Acc" and isinstance(model_obs, Con) and model_obs.name == "Acc":
        return [c for c, x, y in zip(CLAUSES, impl_obs.args, model_obs.args) if x != y]
    return ["result"]


def nontrivial(inp, model_obs):
    nt = inp.args[1]
    return len(nt.args[3]) >= 1 and len(nt.args[4]) >= 1


def spec_violation(inp, impl_obs, model_obs, diffs):
    return True  # every accessor result is fixed by the class definition
