"""C10 - no operation ever modifies an existing node.  Same histories, implementation runner and model as C03
(harness/props/c03.py, coq/Run/RunC03.v), with read-only calls interleaved; what is compared is the frame."""
from __future__ import annotations

import os
import re

from ..lib.term import Con
from . import c03
from .c03 import impl  # noqa: F401

ID = "C10"
ENTRY = "C10"
RUNNER = "run_C10"
RUN_MODULES = ["Run.RunC10"]
RULE = ("the C03 histories with read-only public calls interleaved (dfs both directions, bfs, Tree queries, xpath "
        "find/findall, == / != / hash, rich printing, as_dict / to_json, gather / is_equal / to_properties_dict / repr / "
        "accessors, a visitor, pattern matching) between constructions, duplicates, replaces (succeeding and raising), "
        "detach, detach_self and drops. After EVERY operation: every dataclass field (children by object identity), id, "
        "content_id and hash() of every node that existed before the operation and is still held is re-read and must "
        "equal the snapshot taken before it; hash(node) == hash(node.id); its registry membership (get_any(id) is node) must be "
        "what it was unless the operation is detach / detach_self / a replace() that returned (as_dict / as_obj included: "
        "deserialization may not change the membership of an existing node); the complete content of every new node "
        "equals the model's immutable cell; at the end setattr and delattr on every dataclass field of every held "
        "root must raise. non-trivial = at least 3 operations took effect on a state holding at least one node; "
        "distinct = distinct input terms")
TRUSTED_BASE = c03.TRUSTED_BASE + [
    "frozen=True enforcement is CPython's; object.__setattr__ call sites of non-legacy pyoak are listed in the evidence (informational)",
]
ASSUMPTIONS = c03.ASSUMPTIONS



def setattr_sites():
    """informational (DESIGN C10): where pyoak writes through object.__setattr__ outside the legacy package"""
    root = os.path.join(os.environ.get("VERIF_PYOAK_SRC", "/repo/src"), "pyoak")
    out = []
    for dp, _, fs in os.walk(root):
        if "legacy" in dp:
            continue
        for f in fs:
            if f.endswith(".py"):
                for n, line in enumerate(open(os.path.join(dp, f), encoding="utf-8"), 1):
                    if re.search(r"object\.__setattr__|__dict__\[", line):
                        out.append(f"{os.path.relpath(os.path.join(dp, f), root)}:{n}")
    return out


try:
    ASSUMPTIONS = ASSUMPTIONS + ["object.__setattr__ call sites (informational): " + ", ".join(setattr_sites())]
except Exception:  # noqa
    pass


def gen_cases(rng, tier):
    cases = c03.gen_cases(rng, tier)
    # interleave more read-only calls: after every operation with probability 1/3
    for c in cases:
        t = c["input"]
        ops = []
        held = set()
        ctt, rules, nv, ops0 = c03.hist_parts(t)
        for op in ops0:
            ops.append(op)
            if op.name in ("New", "Dup", "Replace", "DcReplace"):
                held.add(op.args[0])
            if op.name == "AsObj":
                held.add(op.args[1])
            if op.name == "Drop":
                held.discard(op.args[0])
            if held and rng.random() < 0.33:
                ops.append(Con("Read", Con("L", rng.choice(sorted(held)), rng.choice([0, 0, 1, 2])), rng.randrange(c03.READ_KINDS)))
        limit = 16 if tier == "quick" else 80
        c["input"] = c03.mk_hist(ctt, rules, nv, ops[:limit])
        c["kind"] = "history+reads"
    return cases


def compare(inp, impl_obs, model_obs):
    """C10 compares the frame only: kind of each result (a raising / skipped operation must be the same operation on
    both sides), the before/after snapshot verdicts, and the setattr/delattr table.  Ids, lookups and the content of new
    nodes are C03's / C14's business."""
    if not (isinstance(impl_obs, Con) and impl_obs.name == "Out" and isinstance(model_obs, Con) and model_obs.name == "Out"):
        return [] if impl_obs == model_obs else ["result"]
    a, b = impl_obs.args[0], model_obs.args[0]
    if len(a) != len(b):
        return ["length"]
    diffs = []
    for k, (si, sm) in enumerate(zip(a, b)):
        if si.args[0].name != sm.args[0].name:
            diffs.append(f"step{k}:result")
        if si.args[5] != sm.args[5]:
            diffs.append(f"step{k}:frame")
        if diffs:
            break
    if impl_obs.args[1] != model_obs.args[1]:
        diffs.append("frozen")
    return diffs


def nontrivial(inp, model_obs):
    return c03.nontrivial(inp, model_obs)


def spec_violation(inp, impl_obs, model_obs, diffs):
    # the frame (fields, id, content_id, hash of old nodes; setattr/delattr raising) is the property; the exact content
    # of a NEW node is C14's / C01's business and only a model detail here
    return True


def search(rng, tier):
    """frame condition on the implementation alone"""
    from ..lib.term import norm
    from ..lib.universe import gen_universe, universe_to_json

    for _ in range(40 if tier == "quick" else 400):
        u = gen_universe(rng, n_roots=2, max_levels=2, rich=True)
        rules = c03.gen_rules(rng, u) if rng.random() < 0.5 else []
        t = norm(c03.gen_history(rng, u, tier, rules=rules))
        case = {"opts": {"universe": universe_to_json(u), "rules": c03.rules_to_json(rules)}, "digest_size": rng.choice([1, 8])}
        out = impl(t, case)
        for s in out.args[0]:
            if s.args[5] != Con("Frame", True, True, True):
                return {"input": repr(t)[:4000], **case, "what": "an existing node changed"}
        if any(isinstance(r, tuple) and any(x[1] != Con("T") or x[2] != Con("T") for x in r) for r in out.args[1]):
            return {"input": repr(t)[:4000], **case, "what": "setattr/delattr did not raise"}
    return None
