"""C08 - tree pattern matching.  One case = (class table, forest, rules as pattern ASTs, target nodes, rule order)
plus a scripted history of compiles (validate / from_pattern / MultiPatternMatcher, repeated and shuffled) that
the implementation performs before the observation.  The model gets the ASTs, pyoak gets the printed text."""
from __future__ import annotations

from ..lib.term import Con, Some, canon, norm, to_text
from ..lib.universe import (Built, TreeGen, from_py, gen_universe, iter_nodes, node_cls, universe_from_json,
                            universe_to_json)
from .c15 import gen_origin, mk_origin

try:  # import cost (lark builds two parsers) stays outside the per-case alarm of the worker
    import pyoak.match.pattern  # noqa: F401
    import pyoak.match.xpath  # noqa: F401
except Exception:  # pragma: no cover - the main process may run without pyoak on its path
    pass

ID = "C08"
ENTRY = "C08"
RUNNER = "run_C08"
RUN_MODULES = ["Run.RunC08"]
RULE = ("patterns generated from the grammar as ASTs, mostly derived from a node of the forest and then perturbed "
        "(class alternatives with super/sub/sibling classes and '*', 0-3 field specs incl. content_id, foreign and unknown "
        "fields, nesting <= 3, sequences of every length 0-4 with and without '*' tail, captures on fields, elements, tails "
        "and whole sequences, $variables after their captures; regexes literal / literal$ so that prefix != full and "
        "match != search are told apart); targets: every node of a generated tree plus variants with one tuple one element "
        "shorter / longer, content-equal copies under other origins, twins inside one tuple; 1-4 rules per case, compiled "
        "through a shuffled history of validate_pattern / from_pattern / MultiPatternMatcher calls with repeats (cache); "
        "observed twice: verdict, capture names, captured object identities (addresses) per rule and for "
        "MultiPatternMatcher.match with and without an explicit rule order.  non-trivial = some (rule, target) matches "
        "with a capture and some fails; distinct = distinct input terms")
TRUSTED_BASE = [
    "model coq/Model/Pattern.v hand-written from match/pattern.py; Spec/PatSem.v is the property text as a definition; tie = this run",
    "Python re only through the family literal | literal$ (computable oracle in Run/RunC08.v); repr(node) only through its first characters 'Cls('",
    "the printer pattern AST -> text below (the parser side is C17's subject)",
]
ASSUMPTIONS = ["field names are dataclass fields, content_id or unknown names (id, origin and method names are outside the model)",
               "digest size 8: no content_id collisions among the generated nodes",
               "class identity is the class name"]

SAFE = set("abcdefghijklmnopqrstuvwxyzABCDEFGHIJKLMNOPQRSTUVWXYZ0123456789 _:=<>',-@/;!#%&~é雪")   # non-ASCII: seeded change C08-7
CAPS = ["a", "b", "c", "d", "e", "aa", "x_y", "_z", "rest", "tail", "v", "w", "k", "m", "n_n"]


# ----------------------------------------------------------------------------------------------- printing
def cap_name(c):
    return None if c.name == "None" else c.args[0].decode()


def show_cap(c, ws=" "):
    n = cap_name(c)
    return "" if n is None else f"{ws}->{ws}{n}"


def show_vpat(v, ws=" "):
    if v.name == "VT":
        return show_pat(v.args[0], ws)
    if v.name == "VV":
        return "$" + v.args[0].decode()
    if v.name == "VN":
        return "None"
    return '"' + v.args[0].decode() + '"'


def show_fspec(s, ws=" "):
    if s.name == "FAny":
        return show_cap(s.args[0], ws)
    if s.name == "FVal":
        return "=" + show_vpat(s.args[0], ws) + show_cap(s.args[1], ws)
    items, tail, cap = s.args
    parts = [show_vpat(it.args[0], ws) + show_cap(it.args[1], ws) for it in items]
    if tail.name == "Some":
        parts.append("*" + show_cap(tail.args[0], ws))
    return "=[" + ws.join(parts) + "]" + show_cap(cap, ws)


def show_pat(p, ws=" "):
    cls, fs = p.args
    head = "*" if cls.name == "Any" else "|".join(c.decode() for c in cls.args[0])
    return "(" + head + "".join(f"{ws}@{f.args[0].decode()}{show_fspec(f.args[1], ws)}" for f in fs) + ")"


def poison(text):
    """Definitions that parse but are rejected by the interpreter AFTER the capture names of `text` were registered
    (unknown class / variable before its capture / name used twice), through both compile entry points: whatever
    state such a failure leaves behind must not reach the next compile (seeded change C08-4)."""
    import re as _re

    from pyoak.match import pattern as P

    names = list(dict.fromkeys(_re.findall(r"->\s*([A-Za-z_][A-Za-z0-9_]*)", text)))[:4]
    for c in names:
        for bad in (f"(* @zz_a -> {c} @zz_b=(ZzNoSuchClass))", f"(* @zz_a -> {c} @zz_b=$zz_undefined)",
                    f"(* @zz_a -> {c} @zz_b -> {c})"):
            try:
                P.validate_pattern(bad)
                P.NodeMatcher.from_pattern(bad)
            except Exception:  # noqa: BLE001
                pass


# ----------------------------------------------------------------------------------------------- generation
def pystr_of(v):
    """str(value) for the simple value kinds, else None"""
    n = v.name
    if n == "VNone":
        return "None"
    if n == "VBool":
        return "True" if v.args[0].name == "T" else "False"
    if n == "VInt":
        return str(v.args[0])
    if n == "VStr":
        try:
            return v.args[0].decode()
        except UnicodeDecodeError:
            return None
    if n == "VPath":
        return v.args[0].decode()
    if n == "VEnum":
        return v.args[0].decode() + "." + v.args[1].decode()
    return None


class PatGen:
    def __init__(self, rng, u):
        self.rng, self.u = rng, u
        self.free = list(CAPS)
        rng.shuffle(self.free)
        self.seen = []          # captures in visiting order
        self.illformed = rng.random() < 0.04

    def cap(self, p=0.35):
        rng = self.rng
        if rng.random() >= p or not self.free:
            return None
        if self.illformed and self.seen and rng.random() < 0.3:
            return Some(rng.choice(self.seen))
        c = self.free.pop()
        return Some(c)

    def note(self, c):
        c = norm(c)
        if c.name == "Some":
            self.seen.append(c.args[0].decode())

    def classes_for(self, cname):
        rng, u = self.rng, self.u
        names = [c.name for c in u.classes]
        k = rng.random()
        if k < 0.18:
            return Con("Any")
        if k < 0.5:
            return Con("Cls", [cname])
        if k < 0.65:
            sup = u.bases(cname) + ["ASTNode"]
            return Con("Cls", [rng.choice(sup)])
        if k < 0.8:
            others = [n for n in names if n != cname]
            alts = rng.sample(others, k=min(len(others), rng.randint(1, 2))) + [cname]
            rng.shuffle(alts)
            if rng.random() < 0.2:
                alts.append(alts[0])
            return Con("Cls", alts)
        if k < 0.9:
            subs = [n for n in u.subclasses_of(cname) if n != cname]
            if subs:
                return Con("Cls", [rng.choice(subs)])
        others = [n for n in names if not u.is_sub(cname, n)]
        return Con("Cls", [rng.choice(others)] if others else [cname])

    def regex_for(self, v):
        rng = self.rng
        s = pystr_of(v)
        if s is None:
            return Con("VR", rng.choice(["", "a", "<", "x$"]))
        safe = ""
        for ch in s:
            if ch not in SAFE:
                break
            safe += ch
        whole = safe == s
        k = rng.random()
        if any(ord(ch) > 127 for ch in safe) and rng.random() < 0.7:
            # non-ASCII text in the regex: matched as written (seeded change C08-7: literal run through unicode_escape)
            cut = max(i for i, ch in enumerate(safe) if ord(ch) > 127) + 1
            return Con("VR", safe + "$" if whole and rng.random() < 0.5 else safe[:rng.randint(cut, len(safe))])
        if k < 0.25 and whole:
            return Con("VR", s + "$")
        if k < 0.5:
            return Con("VR", safe[: rng.randint(0, len(safe))])
        if k < 0.62 and len(safe) > 1:
            return Con("VR", safe[rng.randint(1, len(safe) - 1):])          # matches under search, not under match
        if k < 0.74:
            return Con("VR", safe[: rng.randint(0, len(safe))] + "$")      # prefix$ : only when it is the whole string
        if k < 0.86:
            return Con("VR", safe + rng.choice("abz1 "))
        return Con("VR", rng.choice(["", "a", "1", "True", "None", "b$", "ab"]))

    def value_for(self, val, depth):
        """a vpat for one matched value: val = ('p', value term) | ('n', node term)"""
        rng = self.rng
        k = rng.random()
        if self.seen and k < 0.16:
            return Con("VV", rng.choice(self.seen))
        if self.illformed and k < 0.2:
            return Con("VV", rng.choice(CAPS))
        if k < 0.26:
            return Con("VN")
        if val[0] == "n":
            if depth >= 3 or k < 0.34:
                return Con("VT", Con("PT", self.classes_for(node_cls(val[1])), []))
            return Con("VT", self.pat_for(val[1], depth + 1))
        if k < 0.3:
            return Con("VT", Con("PT", Con("Any"), []))
        return self.regex_for(val[1])

    def seq_for(self, elems, depth):
        """FSeq for a sequence value with the given elements (list of ('p'|'n', term))"""
        rng = self.rng
        n = len(elems)
        k = rng.random()
        if k < 0.55:
            m = n
        elif k < 0.7:
            m = n + 1
        elif k < 0.85:
            m = max(0, n - 1)
        else:
            m = rng.randint(0, 4)
        m = min(m, 4)
        has_tail = rng.random() < 0.45
        items = []
        for i in range(m):
            e = elems[i] if i < n else (elems[-1] if elems else ("p", Con("VNone")))
            v = self.value_for(e, depth)
            c = self.cap(0.3)
            items.append(Con("I", v, c))
            self.note(c)
        tail = None
        if has_tail:
            tc = self.cap(0.5)
            tail = Some(tc)
            self.note(tc)
        return items, tail

    def fspec_for(self, fval, depth):
        """fval: ('p', value term) | ('n', node term) | ('ns', [node terms]) | ('none',)"""
        rng = self.rng
        k = rng.random()
        if k < 0.18:
            c = self.cap(0.6)
            self.note(c)
            return Con("FAny", c)
        seq_elems = None
        if fval[0] == "ns":
            seq_elems = [("n", x) for x in fval[1]]
        elif fval[0] == "p" and fval[1].name == "VTuple":
            seq_elems = [("p", x) for x in fval[1].args[0]]
        elif fval[0] == "p" and fval[1].name == "VStr" and k < 0.4:
            try:
                seq_elems = [("p", Con("VStr", ch)) for ch in fval[1].args[0].decode()][:5]
            except UnicodeDecodeError:
                seq_elems = None
        if seq_elems is not None and k < 0.85:
            items, tail = self.seq_for(seq_elems, depth)
            c = self.cap(0.3)
            self.note(c)
            return Con("FSeq", items, tail, c)
        if k > 0.95:
            # a sequence spec on something that is not a sequence
            items, tail = self.seq_for([], depth)
            c = self.cap(0.2)
            self.note(c)
            return Con("FSeq", items, tail, c)
        if fval[0] == "none":
            v = Con("VN") if rng.random() < 0.6 else self.value_for(("p", Con("VNone")), depth)
        elif fval[0] == "ns":
            v = self.value_for(("p", Con("VNone")), depth)
        else:
            v = self.value_for(fval, depth)
        c = self.cap(0.35)
        self.note(c)
        return Con("FVal", v, c)

    def pat_for(self, nt, depth=0):
        rng, u = self.rng, self.u
        cname = node_cls(nt)
        cls = self.classes_for(cname)
        avail = []
        for p in nt.args[3]:
            avail.append((p.args[0].decode(), ("p", p.args[1])))
        for kf in nt.args[4]:
            sh = kf.args[1].name
            if sh == "ShNone":
                avail.append((kf.args[0].decode(), ("none",)))
            elif sh == "ShOne":
                avail.append((kf.args[0].decode(), ("n", kf.args[2][0])))
            else:
                avail.append((kf.args[0].decode(), ("ns", list(kf.args[2]))))
        nf = rng.choice([0, 1, 1, 2, 2, 3])
        fs = []
        # a capture that binds None (absent optional child / None property) referenced by a later $variable: the comparison is
        # `None == value`, not "variable unknown" (seeded change C08-9)
        nones = [a for a in avail if a[1][0] == "none" or (a[1][0] == "p" and a[1][1].name == "VNone")]
        if nones and self.free and rng.random() < 0.3:
            n1 = rng.choice(nones)
            c = self.free.pop()
            self.note(Some(c))
            fs.append(Con("F", n1[0], Con("FAny", Some(c)) if rng.random() < 0.6 else Con("FVal", Con("VN"), Some(c))))
            n2 = rng.choice(nones if rng.random() < 0.6 else avail)
            fs.append(Con("F", n2[0], Con("FVal", Con("VV", c), None)))
            nf = rng.choice([0, 0, 1])
        for _ in range(nf):
            k = rng.random()
            if avail and k < 0.8:
                name, fv = rng.choice(avail)
                # tuple-valued fields first: that is where the sequence clauses live
                tup = [a for a in avail if a[1][0] == "ns" or (a[1][0] == "p" and a[1][1].name == "VTuple")]
                if tup and rng.random() < 0.5:
                    name, fv = rng.choice(tup)
            elif k < 0.87:
                name, fv = "content_id", ("p", Con("VStr", "0"))
            elif k < 0.93:
                name, fv = rng.choice(["nf_x", "nf_items"]), ("none",)
            else:
                other = [f.name for c in u.classes for f in c.own]
                name, fv = (rng.choice(other) if other else "nf_y"), ("none",)
            fs.append(Con("F", name, self.fspec_for(fv, depth)))
        return Con("PT", cls, fs)


def recopy(nt, rng, base, origin_fn, memo=None):
    """a content-equal copy of a node term: fresh addresses, other origins"""
    if memo is None:
        memo = {}
    a = nt.args[0]
    if a in memo:
        return memo[a]
    ks = [Con("K", k.args[0], k.args[1], [recopy(c, rng, base, origin_fn, memo) for c in k.args[2]]) for k in nt.args[4]]
    t = Con("N", base + a, nt.args[1], origin_fn(rng), nt.args[3], ks)
    memo[a] = t
    return t


def with_field(nt, fname, kids, addr):
    ks = [Con("K", k.args[0], k.args[1], kids if k.args[0] == fname else k.args[2]) for k in nt.args[4]]
    return Con("N", addr, nt.args[1], nt.args[2], nt.args[3], ks)


def gen_forest(rng, u):
    """a root tree and its near-miss variants"""
    tg = TreeGen(rng, u, max_nodes=rng.choice([6, 10, 16]), max_depth=3, share=0.1, origins=gen_origin)
    root = tg.node()
    roots = [root]
    nodes = list(iter_nodes(root))
    # variants of nodes that hold a tuple of nodes
    holders = [n for n in nodes if any(k.args[1].name == "ShMany" and not is_fixed(u, n, k) for k in n.args[4])]
    rng.shuffle(holders)
    base = 1000
    twins = []
    for h in holders[:2]:
        ks = [k for k in h.args[4] if k.args[1].name == "ShMany" and not is_fixed(u, h, k)]
        k = rng.choice(ks)
        kids = list(k.args[2])
        if kids:
            roots.append(with_field(h, k.args[0], kids[:-1], base + 1))                       # one shorter
            twin = recopy(kids[0], rng, base + 100, gen_origin)
            roots.append(with_field(h, k.args[0], kids + [twin], base + 2))                   # one longer
            mixed = [kids[0], twin, kids[0]] + kids[1:]
            if rng.random() < 0.5:
                mixed = [twin, kids[0]] + kids[1:]
            roots.append(with_field(h, k.args[0], mixed, base + 3))                           # twins side by side
            twins.append((roots[-1], k.args[0].decode()))
        base += 1000
    # a content-equal copy of the root under other origins
    roots.append(recopy(root, rng, 50000, gen_origin))
    return roots, twins


def twin_rule(rng, u, holder, fname):
    """(Cls @f=[(*) -> a $a ... ]): variables against content-equal nodes under other origins and the same object"""
    n = len([k for k in holder.args[4] if k.args[0].decode() == fname][0].args[2])
    items = [Con("I", Con("VT", Con("PT", Con("Any"), [])), Some("a"))]
    for _ in range(rng.randint(1, 2)):
        items.append(Con("I", Con("VV", "a"), Some("b") if rng.random() < 0.2 and len(items) == 1 else None))
    exact = rng.random() < 0.3
    while exact and len(items) < n:
        items.append(Con("I", Con("VT", Con("PT", Con("Any"), [])), None))
    tail = None if exact else Some(Some("rest") if rng.random() < 0.6 else None)
    cls = Con("Any") if rng.random() < 0.5 else Con("Cls", [node_cls(holder)])
    fs = [Con("F", fname, Con("FSeq", items, tail, Some("whole") if rng.random() < 0.3 else None))]
    if rng.random() < 0.3:
        fs.append(Con("F", fname, Con("FVal", Con("VV", "whole" if fs[0].args[1].args[2].name == "Some" else "rest" if (tail is not None and tail.args[0].name == "Some") else "a"), None)))
    return Con("PT", cls, fs)


def is_fixed(u, nt, k):
    for f in u.merged(node_cls(nt)):
        if f.name == k.args[0].decode():
            return bool(f.fixed)
    return False


def set_prop(t, addr, pname, newval):
    """copy of the node term with property pname of the node at address addr set to newval"""
    ps = [Con("P", p.args[0], newval) if (t.args[0] == addr and p.args[0] == pname) else p for p in t.args[3]]
    ks = [Con("K", k.args[0], k.args[1], [set_prop(c, addr, pname, newval) for c in k.args[2]]) for k in t.args[4]]
    return Con("N", t.args[0], t.args[1], t.args[2], ps, ks)


def ws_twin(t):
    """the same pattern with the first blank inside a regex literal doubled (None when there is no such literal)"""
    done = [False]

    def go(x):
        if isinstance(x, Con):
            if x.name == "VR" and not done[0] and isinstance(x.args[0], bytes) and b" " in x.args[0]:
                done[0] = True
                return Con("VR", x.args[0].replace(b" ", b"  ", 1))
            return Con(x.name, *[go(a) for a in x.args])
        if isinstance(x, tuple):
            return [go(a) for a in x]
        return x

    r = go(norm(t))
    return r if done[0] else None


def gen_cases(rng, tier):
    cases = []
    n_uni = 22 if tier == "quick" else 200
    per_uni = 22 if tier == "quick" else 50
    for _ in range(n_uni):
        u = gen_universe(rng)
        uj = universe_to_json(u)
        ct = u.term()
        for _ in range(per_uni):
            roots, twins = gen_forest(rng, u)
            allnodes = []
            seen = set()
            for r in roots:
                for n in iter_nodes(r, seen):
                    allnodes.append(n)
            rules = []
            for i in range(rng.choice([1, 2, 2, 3, 4])):
                src = rng.choice(roots[1:] if len(roots) > 1 and rng.random() < 0.5 else allnodes)
                if twins and rng.random() < 0.25:
                    rules.append(Con("R", f"r{i}", twin_rule(rng, u, *rng.choice(twins))))
                else:
                    rules.append(Con("R", f"r{i}", PatGen(rng, u).pat_for(src)))
            # two rules that differ only by white space INSIDE a quoted regex must not share a cache entry (the pattern
            # cache is keyed by the pattern text): give some node a string property with a blank and add the pair
            if rng.random() < 0.35:
                init_ok = {(c.name, f.name) for c in u.classes for f in u.merged(c.name) if f.init}
                cand = [(n, p) for n in allnodes for p in n.args[3]
                        if p.args[1].name == "VStr" and (n.args[1].decode(), p.args[0].decode()) in init_ok]
                if cand:
                    n0, p0 = rng.choice(cand)
                    val = rng.choice(["ab cd", "x y", "a b c", "q  r"])
                    roots = [set_prop(r, n0.args[0], p0.args[0], Con("VStr", val)) for r in roots]
                    allnodes, seen = [], set()
                    for r in roots:
                        for n in iter_nodes(r, seen):
                            allnodes.append(n)
                    cut = val.index(" ") + 2
                    lit1 = val[:cut]
                    lit2 = lit1.replace(" ", "  ", 1) if "  " not in lit1 else lit1.replace("  ", " ", 1)
                    cls_ = Con("Cls", [n0.args[1]])
                    pair = [Con("PT", cls_, [Con("F", p0.args[0], Con("FVal", Con("VR", lit1), None))]),
                            Con("PT", cls_, [Con("F", p0.args[0], Con("FVal", Con("VR", lit2), None))])]
                    rng.shuffle(pair)
                    for q in pair:
                        rules.append(Con("R", f"r{len(rules)}", q))
            # non-ASCII text in a quoted regex is matched as written (seeded change C08-7: the literal run through an
            # escape decoder): give some node a string property with such a value and add a matching, an anchored and a
            # non-matching rule over it
            if rng.random() < 0.3:
                init_ok = {(c.name, f.name) for c in u.classes for f in u.merged(c.name) if f.init}
                cand = [(n, p) for n in allnodes for p in n.args[3]
                        if p.args[1].name == "VStr" and (n.args[1].decode(), p.args[0].decode()) in init_ok]
                if cand:
                    n0, p0 = rng.choice(cand)
                    val = rng.choice(["café", "雪", "aé1", "ünï", "x雪y"])
                    roots = [set_prop(r, n0.args[0], p0.args[0], Con("VStr", val)) for r in roots]
                    allnodes, seen = [], set()
                    for r in roots:
                        for n in iter_nodes(r, seen):
                            allnodes.append(n)
                    cls_ = Con("Cls", [n0.args[1]])
                    for lit in (val, val + "$", val[: max(1, len(val) - 1)], val[-1] + val[:-1]):
                        rules.append(Con("R", f"r{len(rules)}", Con("PT", cls_, [Con("F", p0.args[0], Con("FVal", Con("VR", lit), None))])))
            targets = [r.args[0] for r in roots]
            extra = [n.args[0] for n in allnodes if n.args[0] not in targets]
            rng.shuffle(extra)
            targets += extra[: max(0, 10 - len(targets))]
            names = [f"r{i}" for i in range(len(rules))]
            order = rng.sample(names, k=rng.randint(1, len(names)))
            # history: every rule goes through each entry point at least once, shuffled, with repeats
            hist = []
            for i in range(len(rules)):
                hist += [["validate", i], ["from", i], ["from", i]]
            hist += [["multi", rng.sample(range(len(rules)), k=rng.randint(1, len(rules)))] for _ in range(2)]
            hist += [["match", rng.randrange(len(rules)), rng.randrange(len(targets))] for _ in range(3)]
            rng.shuffle(hist)
            cases.append({"kind": "match", "input": Con("C08", ct, roots, rules, targets, order), "digest_size": 8,
                          "opts": {"universe": uj, "hist": hist, "ws": rng.choice([" ", " ", "  ", " \t", "\n "])}})
    return cases


# ----------------------------------------------------------------------------------------------- implementation
def kind_of_message(msg):
    if msg.startswith("Incorrect pattern definition. Context"):
        return Con("Syntax")
    if msg.startswith("Incorrect pattern definition. Unexpected error"):
        return Con("Unexpected")
    if msg.startswith("Unknown AST type"):
        return Con("UnknownClass")
    if msg.endswith("is not an AST type"):
        return Con("NotNode")
    if msg.startswith("Capture name"):
        return Con("DupCapture")
    if msg.startswith("Pattern uses match variable"):
        return Con("VarBefore")
    if msg in ("Valid pattern definition", "Cached matcher"):
        return Con("Ok")
    return Con("OtherMessage", msg[:60])


def enc_value(b, x):
    from pyoak.node import ASTNode

    if isinstance(x, ASTNode):
        return Con("A", b.addr(x))
    if isinstance(x, tuple) and all(isinstance(y, ASTNode) for y in x):
        return Con("As", [b.addr(y) for y in x])
    return Con("V", from_py(x))


def enc_res(b, f):
    from pyoak.match.error import ASTPatternDefinitionError

    try:
        ok, caps = f()
    except ASTPatternDefinitionError:
        return Con("Raise")
    return Con("M", bool(ok), [[k, enc_value(b, v)] for k, v in caps.items()])


def enc_multi(b, f):
    from pyoak.match.error import ASTPatternDefinitionError

    try:
        r = f()
    except ASTPatternDefinitionError:
        return Con("Raise")
    if r is None:
        return None
    name, caps = r
    return Some([name, Con("M", True, [[k, enc_value(b, v)] for k, v in caps.items()])])


def impl(t, case):
    import gc

    import pyoak.match.xpath  # noqa: F401  (registers _DUMMY_XPATH_ROOT like a normal import of pyoak does)
    from pyoak import config
    from pyoak.match import pattern as P
    from pyoak.match.error import ASTPatternDefinitionError

    u = universe_from_json(case["opts"]["universe"])
    if norm(u.term()) != t.args[0]:
        return Con("InconsistentCase")     # a shrinking step changed the class table but not the Python classes
    u.load()
    ws = case["opts"].get("ws", " ")
    config.ID_DIGEST_SIZE = 8
    P._MATCHER_CACHE.clear()      # cases are independent; the history below is the case's own
    gc.collect()
    b = Built(u, mk_origin)
    for r in t.args[1]:
        b.build(r)
    rules = [(r.args[0].decode(), show_pat(r.args[1], ws)) for r in t.args[2]]
    targets = [b.objs[a] for a in t.args[3]]
    order = [o.decode() for o in t.args[4]]
    for step in case["opts"].get("hist", []):
        try:
            if step[0] == "validate":
                P.validate_pattern(rules[step[1]][1])
            elif step[0] == "from":
                P.NodeMatcher.from_pattern(rules[step[1]][1])
            elif step[0] == "multi":
                try:
                    P.MultiPatternMatcher([rules[i] for i in step[1]]).match(targets[0])
                except ASTPatternDefinitionError:
                    pass
            elif step[0] == "match":
                m, _ = P.NodeMatcher.from_pattern(rules[step[1]][1])
                if m is not None:
                    try:
                        m.match(targets[step[2]])
                    except ASTPatternDefinitionError:
                        pass
        except IndexError:
            pass    # a shrunk case whose history refers to dropped rules / targets
    for _, txt in rules:
        poison(txt)
    status = [kind_of_message(P.validate_pattern(txt)[1]) for _, txt in rules]
    matchers = [P.NodeMatcher.from_pattern(txt)[0] for _, txt in rules]
    good = [(n, txt) for (n, txt), m in zip(rules, matchers) if m is not None]

    def observe():
        try:
            mm = P.MultiPatternMatcher(good)
        except ASTPatternDefinitionError as e:
            return Con("MultiRejected", str(e)[:80])
        out = []
        gnames = [n for n, _ in good]
        for node in targets:
            per = [Con("NoMatcher") if m is None else enc_res(b, lambda: m.match(node)) for m in matchers]
            out.append(Con("T", per, enc_multi(b, lambda: mm.match(node)),
                           enc_multi(b, lambda: mm.match(node, [o for o in order if o in gnames]))))
        return out

    first = observe()
    second = observe()
    if norm(first) != norm(second):
        return Con("Unstable", first, second)
    return Con("Res", status, first)


# ----------------------------------------------------------------------------------------------- comparison
def norm_res(r):
    if isinstance(r, Con) and r.name == "M":
        return Con("M", r.args[0], sorted(r.args[1], key=to_text))
    if isinstance(r, Con) and r.name == "Some":
        name, inner = r.args[0]
        if isinstance(inner, Con) and inner.name == "Raise":
            return Con("Raise")
        return Con("Some", [name, norm_res(inner)])
    return r


def compare(inp, impl_obs, model_obs):
    if isinstance(impl_obs, Con) and impl_obs.name == "InconsistentCase":
        return []
    impl_obs, model_obs = canon(impl_obs), canon(model_obs)
    if not (isinstance(impl_obs, Con) and impl_obs.name == "Res" and isinstance(model_obs, Con) and model_obs.name == "Res"):
        return [] if impl_obs == model_obs else ["result"]
    diffs = []
    if impl_obs.args[0] != model_obs.args[0]:
        diffs.append("compile-status")
    if len(impl_obs.args[1]) != len(model_obs.args[1]):
        return diffs + ["targets"]
    for ti, tm in zip(impl_obs.args[1], model_obs.args[1]):
        pi, pm = ti.args[0], tm.args[0]
        for x, y in zip(pi, pm):
            x, y = norm_res(x), norm_res(y)
            if x != y:
                if isinstance(x, Con) and isinstance(y, Con) and x.name == "M" and y.name == "M" and x.args[0] == y.args[0]:
                    diffs.append("captures")
                else:
                    diffs.append("verdict")
        if norm_res(ti.args[1]) != norm_res(tm.args[1]):
            diffs.append("multi-first-match")
        if norm_res(ti.args[2]) != norm_res(tm.args[2]):
            diffs.append("multi-rule-order")
    return sorted(set(diffs))


def nontrivial(inp, model_obs):
    if not (isinstance(model_obs, Con) and model_obs.name == "Res"):
        return False
    hit = miss = False
    for t in model_obs.args[1]:
        for r in t.args[0]:
            if isinstance(r, Con) and r.name == "M":
                if r.args[0].name == "T" and len(r.args[1]) > 0:
                    hit = True
                if r.args[0].name == "F":
                    miss = True
    return hit and miss


def spec_violation(inp, impl_obs, model_obs, diffs):
    return True   # verdicts, captures and rule choice are all fixed by the property text
