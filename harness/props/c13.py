"""C13 - runtime type checking.  One case = one generated node class (fields annotated from the accepted grammar of
C11) constructed with one vector of values, switch on and off."""
from __future__ import annotations

import gc

from ..lib.term import Con
from . import _pytypes as P

ID = "C13"
ENTRY = "C13"
RUNNER = "run_C13"
RUN_MODULES = ["Run.RunC13"]
RULE = ("annotations drawn from the accepted grammar of C11 (scalars, Any, None, Literal, Enum, NewType, unions in both spellings, "
        "fixed / variadic / empty / bare tuples, frozenset, Sequence, Mapping, node classes, unions of node classes with and "
        "without None, tuples of those; depth <= 3; plain and postponed annotations), printed into a fresh ASTNode dataclass with "
        "1-5 fields (init and init=False); values from a pool with both booleans, 0/1, floats, strings, None, enum members, "
        "instances of every node class (incl. a subclass), tuples / lists / frozensets of these, half of them built to conform, "
        "half random; thorough adds the exhaustive product (reduced annotation set) x (whole value pool). Each case is constructed "
        "with RUNTIME_TYPE_CHECK on and off. non-trivial = at least one field conforms and at least one does not, or a container "
        "annotation is involved; distinct = distinct (annotations, values) terms")
TRUSTED_BASE = [
    "model coq/Model/PyTypes.v (CPython 3.12 isinstance/issubclass/get_args tables) + IsInstance.v hand-written from pyoak/typing.py:417-493 and node.py:87-95,205-216; tie = this correspondence run",
    "dataclasses (__init__, default_factory for init=False fields) and typing.get_type_hints are not modelled: the annotation term is the resolved typing object",
]
ASSUMPTIONS = ["float values of the pool are non-integral (never == an int); strings are ASCII; frozenset elements hashable and pairwise != ",
               "no mapping / set / bytes values in the pool (Mapping[...] annotations only ever see non-mappings)",
               "pairs the text is silent about (a bool offered where float occurs in the annotation) are not compared"]


def _fields_case(fields, quoted, opts):
    return {"kind": opts.pop("kind"), "input": Con("C13", [Con("Sup", c, s) for c, s in P.SUPERS.items()], quoted,
                                                   [Con("F", n, t, v) for n, t, v in fields]), "opts": opts}


def _gen_field_ty(rng, d):
    k = rng.random()
    if k < 0.3:
        t = P.gen_child_ty(rng)
    else:
        t = P.gen_prop_ty(rng, d)
    if rng.random() < 0.06 and t.name != "TNoneT":
        t = P.TNew(t)      # the outermost NewType is unwrapped by get_field_types
    return t


def _gen_value(rng, t):
    k = rng.random()
    if k < 0.5:
        v = P.val_for(rng, t)
    elif k < 0.75:
        v = P.gen_val(rng, 2)
    else:
        # a near miss: conforming value perturbed
        v = P.val_for(rng, t)
        if v.name == "XTuple" and rng.random() < 0.7:
            items = list(v.args[0])
            if items and rng.random() < 0.5:
                items = items[:-1]
            else:
                items = items + [P.gen_val(rng, 0)]
            v = P.XTuple(*items)
        elif v.name == "XInt":
            v = P.XBool(v.args[0] % 2 == 1)
        elif v.name == "XBool":
            v = P.XInt(1 if v.args[0].name == "T" else 0)
        else:
            v = P.gen_val(rng, 1)
    return P.fix_fsets(v)


EXH_TYPES = None


def _exhaustive_types():
    A, B, C = P.TNode("A"), P.TNode("B"), P.TNode("C")
    leaves = [P.T_INT, P.T_BOOL, P.T_FLOAT, P.T_STR, P.T_ANY, P.T_NONE, P.TEnum("Color"), P.TLit(P.XInt(1), P.XStr("a")),
              P.TLit(P.XBool(True)), P.TBare("CTuple"), P.TBare("CSequence"), P.TTup(), P.TNew(P.T_INT)]
    elems = [t for t in leaves if t is not P.T_NONE]
    unions = [u for i, a in enumerate(leaves) for b in leaves[i + 1:] if (u := P.mk_union([a, b])).name == "TUnion" and len(u.args[0]) == 2
              and u.args[0][0] == a]
    d2 = list(leaves) + unions
    for e in elems + unions[:12]:
        d2 += [P.TTupV(e), P.TTup(e), P.TGen("CFrozenset", e), P.TGen("CSequence", e)]
    for a in elems[:6]:
        for b in elems[:6]:
            d2.append(P.TTup(a, b))
    d2 += [A, B, P.TUnion(A, P.T_NONE), P.TUnion(A, C), P.TUnion(B, C, P.T_NONE), P.TTupV(A), P.TTupV(P.TUnion(B, C)), P.TTup(A, C), P.TTup(B)]
    d3 = []
    for e in d2:
        if e.name in ("TTupV", "TTup", "TGen") and not P.mentions_node(e):
            d3 += [P.TTupV(e), P.mk_union([e, P.T_NONE]), P.TTup(P.T_INT, e)]
    return d2 + d3


def _pool():
    base = P.HASHABLE_LEAF_VALS + P.NODE_VALS
    out = list(base)
    for x in base:
        out += [P.XTuple(x), P.XList(x)]
    for x in [P.XInt(1), P.XBool(True), P.XStr("a"), P.XNode("B")]:
        for y in [P.XInt(1), P.XBool(False), P.XStr("a"), P.XNode("C"), P.X_NONE]:
            out.append(P.XTuple(x, y))
    out += [P.XTuple(), P.XList(), P.XFset(), P.XFset(P.XInt(1)), P.XFset(P.XStr("a"), P.XInt(2)), P.XFset(P.XBool(True)),
            P.XTuple(P.XTuple(P.XInt(1))), P.XTuple(P.XTuple()), P.XList(P.XInt(1), P.XInt(2)), P.XTuple(P.XInt(1), P.XInt(2), P.XInt(3)),
            P.XTuple(P.XNode("A"), P.XNode("B")), P.XTuple(P.XNode("A"), P.X_NONE)]
    return out


def gen_cases(rng, tier):
    cases = []
    n = 3000 if tier == "quick" else 20000
    for i in range(n):
        nf = rng.choice([1, 1, 2, 3, 4, 5])
        quoted = rng.random() < 0.5
        fields, noninit = [], []
        for j in range(nf):
            t = _gen_field_ty(rng, rng.choice([1, 2, 2, 3, 3]))
            fields.append((f"f{j}", t, _gen_value(rng, t)))
            if rng.random() < 0.15:
                noninit.append(f"f{j}")
        spell = rng.randrange(10**6)
        alt = rng.random() < 0.3
        noncmp = [f"f{j}" for j in range(nf) if rng.random() < 0.2]     # compare=False fields are type-checked like the others
        # fields declared `= None` (the `name: str = None` idiom): the declared default says nothing about the annotation;
        # the value None is given explicitly or left to the default (seeded change C13-8)
        defnone, omit = [], []
        for j in range(nf):
            if f"f{j}" not in noninit and rng.random() < 0.2:
                defnone.append(f"f{j}")
                if rng.random() < 0.6:
                    nm, t_, _v = fields[j]
                    fields[j] = (nm, t_, P.X_NONE)
                    if rng.random() < 0.5:
                        omit.append(nm)
        split, reann = 0, []
        if rng.random() < 0.3:
            split = rng.randint(1, nf)
            reann = [f"f{j}" for j in range(split) if rng.random() < 0.3]
        cases.append(_fields_case(fields, quoted, {"kind": "base-first" if split else "random-class", "noninit": noninit, "spell": spell,
                                                   "alt": alt, "noncmp": noncmp, "split": split, "reann": reann,
                                                   "defnone": defnone, "omit": omit}))
        if rng.random() < 0.35:
            # the same class constructed a second time with other values, after a first construction with the values
            # above: a verdict must not depend on what an earlier construction of the class was given
            from ..lib.term import to_text
            fields2 = [(nm, t, _gen_value(rng, t)) for nm, t, _ in fields]
            cases.append(_fields_case(fields2, quoted, {"kind": "second-construction", "noninit": noninit, "spell": spell, "alt": alt,
                                                        "noncmp": noncmp, "prime": {nm: to_text(v) for nm, _, v in fields}}))
    if tier != "quick":
        pool = _pool()
        for t in _exhaustive_types():
            # the whole pool against one annotation, 6 values (= 6 fields of one class) per case
            vals = list(pool)
            rng.shuffle(vals)
            for k in range(0, len(vals), 6):
                chunk = vals[k:k + 6]
                fields = [(f"f{j}", t, v) for j, v in enumerate(chunk)]
                cases.append(_fields_case(fields, rng.random() < 0.5, {"kind": "exhaustive-pool", "noninit": [], "spell": rng.randrange(10**6),
                                                                      "alt": False}))
    return cases


def impl(t, case):
    import pyoak.config as config
    from pyoak.error import InvalidTypes

    opts = case.get("opts") or {}
    quoted = t.args[1].name == "T"
    fields = [(P.s_(f.args[0]), f.args[1], f.args[2]) for f in t.args[2]]
    mod = P.Mod()
    ctx = P.PrintCtx(mod.sfx, opts.get("spell", 0), opts.get("alt", False))
    future = quoted
    lines = []
    vals, defaults = {}, {}
    # "split" = k: the first k fields are declared by a concrete base class KB, which is constructed (checking on) BEFORE
    # the class under test; the fields named in "reann" are declared by KB with another annotation and re-annotated by
    # K.  The model sees the flat field list of K either way: what a base class was given or cached must not matter
    # (seeded change C13-5: type map cached on the class and inherited by the subclass).
    split = min(int(opts.get("split") or 0), len(fields))
    reann = set(opts.get("reann") or [])
    base_lines = []
    for idx, (name, ty, v) in enumerate(fields):
        ann = P.ty_src(ty, ctx, True if future else False, "top")
        vsrc = P.val_src(v, ctx)
        cmp_ = ", compare=False" if name in (opts.get("noncmp") or []) else ""
        if name in (opts.get("noninit") or []):
            decl = lambda a: f"    {name}: {a} = field(init=False, default_factory=lambda: _DEFAULTS[{name!r}]{cmp_})"
            defaults[name] = vsrc
        elif name in (opts.get("defnone") or []):
            decl = lambda a: f"    {name}: {a} = field(default=None, kw_only=True{cmp_})"
            if name not in (opts.get("omit") or []):
                vals[name] = vsrc
        else:
            decl = lambda a: f"    {name}: {a}" + (" = field(compare=False)" if cmp_ else "")
            vals[name] = vsrc
        if idx < split:
            if name in reann:
                base_lines.append(decl("str" if ann.strip("'\"") == "int" else "int"))
                lines.append(decl(ann))
            else:
                base_lines.append(decl(ann))
        else:
            lines.append(decl(ann))
    # non-default init fields must precede nothing in particular: init=False fields take no part in __init__
    pre = P.PREAMBLE
    sup = [(P.s_(x.args[0]), [P.s_(y) for y in x.args[1]]) for x in t.args[0]]
    for c, ss in sorted(sup, key=lambda p: len(p[1])):        # bases first
        pre += P.node_cls_src(c + mod.sfx, (ss[0] + mod.sfx) if ss else "ASTNode", False)
    try:
        mod.run(pre)
        mod.run("".join(f"{n} = NewType({n!r}, {b})\n" for n, b in ctx.newtypes))
        kname = "K" + mod.sfx
        # the value objects are built once: both constructions receive the very same objects
        mod.m._DEFAULTS = {k: eval(s, mod.m.__dict__) for k, s in defaults.items()}
        kwargs = {k: eval(s, mod.m.__dict__) for k, s in vals.items()}
        kbase = "ASTNode"
        if split:
            kbase = "KB" + mod.sfx
            mod.run(("from __future__ import annotations\n" if future else "")
                    + f"@dataclass(frozen=True)\nclass {kbase}(ASTNode):\n" + "\n".join(base_lines) + "\n")
            old0 = config.RUNTIME_TYPE_CHECK
            try:
                config.RUNTIME_TYPE_CHECK = True
                bnames = [nm for nm, _, _ in fields[:split]]
                try:
                    getattr(mod.m, kbase)(**{k: v for k, v in kwargs.items() if k in bnames})
                except Exception:  # noqa
                    pass
            finally:
                config.RUNTIME_TYPE_CHECK = old0
        mod.run(("from __future__ import annotations\n" if future else "")
                + f"@dataclass(frozen=True)\nclass {kname}({kbase}):\n" + "\n".join(lines or ["    pass"]) + "\n")
        K = getattr(mod.m, kname)
        if opts.get("prime"):
            from ..lib.term import from_text
            old0 = config.RUNTIME_TYPE_CHECK
            try:
                config.RUNTIME_TYPE_CHECK = True
                pk = {k: eval(P.val_src(from_text(v), ctx), mod.m.__dict__) for k, v in opts["prime"].items() if k in vals}
                try:
                    K(**pk)
                except Exception:  # noqa
                    pass
            finally:
                config.RUNTIME_TYPE_CHECK = old0
        built = {}
        obs = {}
        old = config.RUNTIME_TYPE_CHECK
        try:
            for switch in (True, False):
                config.RUNTIME_TYPE_CHECK = switch
                try:
                    built[switch] = K(**kwargs)
                    obs[switch] = Con("Built")
                except InvalidTypes as e:
                    obs[switch] = Con("Invalid", [f.name for f in e.invalid_fields])
                except Exception as e:  # noqa
                    obs[switch] = Con("Other", type(e).__name__)
        finally:
            config.RUNTIME_TYPE_CHECK = old
        same = None
        if True in built and False in built:
            a, b = built[True], built[False]
            same = True
            for name, _, _ in fields:
                x, y = getattr(a, name), getattr(b, name)
                if x is not y:
                    same = False
            if a.content_id != b.content_id or type(a) is not type(b):
                same = False
        return Con("Obs", obs[True], obs[False], Con("None") if same is None else same)
    finally:
        mod.drop()
        gc.collect()


def _bad(obs):
    return [P.s_(x) for x in obs.args[0]] if obs.name == "Invalid" else []


def _silent_names(inp, model_obs):
    return {P.s_(f.args[0]) for f, fo in zip(inp.args[2], model_obs.args[2]) if fo.args[2].name == "T"}


def compare(inp, impl_obs, model_obs):
    if not (isinstance(impl_obs, Con) and impl_obs.name == "Obs" and isinstance(model_obs, Con) and model_obs.name == "Obs"):
        return ["result"]
    diffs = []
    on_i, off_i, same = impl_obs.args
    on_m = model_obs.args[0]
    silent = _silent_names(inp, model_obs)
    if on_i.name == "Other":
        diffs.append("switch-on:exception-other-than-InvalidTypes")
    elif [n for n in _bad(on_i) if n not in silent] != [n for n in _bad(on_m) if n not in silent]:
        diffs.append("switch-on:invalid_fields")
    if off_i.name == "Invalid":
        diffs.append("switch-off:type-validation-happened")
    if on_m.name == "Built" and on_i.name == "Built":
        if off_i.name != "Built":
            diffs.append("switch-off:construction-failed")
        elif same.name != "T":
            diffs.append("switch-off:different-node")
    return diffs


def nontrivial(inp, model_obs):
    if not (isinstance(model_obs, Con) and model_obs.name == "Obs"):
        return False
    bits = [fo.args[0].name == "T" for fo in model_obs.args[2]]
    cont = any(f.args[1].name in ("TTup", "TTupV", "TGen", "TUnion") for f in inp.args[2])
    return (any(bits) and not all(bits)) or cont


def spec_violation(inp, impl_obs, model_obs, diffs):
    """the property's own clause: invalid_fields = exactly the fields that do not conform (Spec/AnnotSpec.v conforms),
    outside the silent pairs; switch off: no validation, same node"""
    if not (isinstance(impl_obs, Con) and impl_obs.name == "Obs"):
        return True
    if any(d.startswith("switch-off") or d.endswith("InvalidTypes") for d in diffs):
        return True
    silent = _silent_names(inp, model_obs)
    spec_bad = [P.s_(f.args[0]) for f, fo in zip(inp.args[2], model_obs.args[2]) if fo.args[1].name == "F" and P.s_(f.args[0]) not in silent]
    return [n for n in _bad(impl_obs.args[0]) if n not in silent] != spec_bad


def finding_key(inp, impl_obs, model_obs, diffs):
    """D21: a NewType left inside an accepted annotation (below the outermost one) never passes is_instance."""
    if not (isinstance(impl_obs, Con) and impl_obs.name == "Obs" and isinstance(model_obs, Con) and model_obs.name == "Obs"):
        return None
    if diffs != ["switch-on:invalid_fields"]:
        return None
    silent = _silent_names(inp, model_obs)
    as_code = model_obs.args[3]
    if [n for n in _bad(impl_obs.args[0]) if n not in silent] != [n for n in _bad(as_code) if n not in silent]:
        return None
    # every field on which the two variants differ has the D21 shape
    differing = set(_bad(as_code)) ^ set(_bad(model_obs.args[0]))
    shapes = {P.s_(f.args[0]): P.has_nested_nt(f.args[1]) for f in inp.args[2]}
    return "D21" if differing and all(shapes.get(n) for n in differing) else None
