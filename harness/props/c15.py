"""C15 - origin algebra. Cases are built in the model's vocabulary and concretised to pyoak objects."""
from __future__ import annotations

import itertools

from ..lib.term import Con, Some, norm

ID = "C15"
ENTRY = "C15"
RUNNER = "run_C15"
RUN_MODULES = ["Run.RunC15"]
RULE = ("exhaustive pairs of ranges on the index grid 0..4 (lines/columns derived from one text, plus an inconsistent "
        "stream), grid of constructor arguments around the guards, tuples of <= 4 origins of every kind over <= 3 "
        "sources for + / merge / concat / ==; non-trivial = the model result is not a constructor error and the "
        "operation involves at least two operands; distinct = distinct input terms")
TRUSTED_BASE = [
    "model coq/Model/Origin.v is hand-written from src/pyoak/origin.py; tie = this correspondence run",
    "Python's min/max/reflected comparison rules as transcribed in pmin/pmax/p_gt/p_ge",
]
ASSUMPTIONS = [
    "hull commutativity/associativity under dataclass == is claimed for consistent points (equal index => equal point); "
    "index-level laws are unconditional (DESIGN 2.10)",
    "raw texts are ASCII (one byte per code point) in the get_raw cases",
]

TEXT = "ab\ncd\nefg"


def pt_of_index(i):
    line = 1 + TEXT[:i].count("\n")
    col = i - (TEXT[:i].rfind("\n") + 1)
    return Con("P", i, line, col)


def P(i, l, c):
    return Con("P", i, l, c)


def R(a, b):
    return Con("R", a, b)


SOURCES = [
    Con("SNo"),
    Con("SMem", b"m1", Some(TEXT.encode())),
    Con("SMem", b"m2", None),
    # equal to the m1 source above (source equality ignores the raw text) but holding another text:
    # a slice must come from the operand's own source object, not from an "equal" one
    Con("SMem", b"m1", Some(b"XY\nZW\nQRS")),
    Con("SText", b"uri::x", b"T"),
    Con("SText", b"uri::x", b"U"),      # same class and uri as the previous one, another source_type: a different source
    Con("SFile", b"dir/f.txt"),
]


def gen_origin(rng, depth=0):
    k = rng.random()
    s = rng.choice(SOURCES[1:] if rng.random() < 0.8 else SOURCES)
    if k < 0.12:
        return Con("ONo")
    if k < 0.5:
        a = rng.randint(0, 5)
        b = rng.randint(a, 6)
        return Con("OCode", s, R(pt_of_index(a), pt_of_index(b)))
    if k < 0.62:
        return Con("OGen", s)
    if k < 0.74:
        return Con("OXml", s, rng.choice([b"/a/b", b"/a", b"//x[1]"]))
    if k < 0.82:
        return Con("OEntire", s)
    if depth == 0:
        n = rng.randint(2, 3)
        ms = []
        while len(ms) < n:
            m = gen_origin(rng, 1)
            if m.name not in ("ONo", "OMulti"):
                ms.append(m)
        return Con("OMulti", ms)
    return Con("OGen", s)


def gen_cases(rng, tier):
    cases = []

    def add(kind, t):
        cases.append({"kind": kind, "input": t})

    # constructor guards
    vals = [-2, -1, 0, 1, 2, 2**62]
    for i, l, c in itertools.product(vals, vals, vals):
        if tier == "thorough" or rng.random() < 0.35:
            add("MkPoint", Con("MkPoint", i, l, c))
    grid = [0, 1, 2, 3]
    for a, b in itertools.product(grid, grid):
        add("MkRange", Con("MkRange", a, 1, a, b, 1, b))
    for _ in range(30 if tier == "quick" else 400):
        add("MkRange", Con("MkRange", *[rng.choice([-1, 0, 1, 2, 5, 2**62]) for _ in range(6)]))
    # relations: exhaustive pairs on the grid (consistent points)
    rs = [R(pt_of_index(a), pt_of_index(b)) for a in range(5) for b in range(a, 5)]
    for x, y in itertools.product(rs, rs):
        add("Rel", Con("Rel", x, y))
    # inconsistent points (same index, different line/column) and huge indices
    for _ in range(60 if tier == "quick" else 2000):
        def rp():
            a = rng.choice([0, 1, 2, 3, 2**62])
            b = rng.choice([v for v in [0, 1, 2, 3, 2**62, 2**62 + 1] if v >= a])
            return R(P(a, rng.randint(1, 3), rng.randint(0, 2)), P(b, rng.randint(1, 3), rng.randint(0, 2)))
        add("Rel-inconsistent", Con("Rel", rp(), rp()))
    n = 600 if tier == "quick" else 20000
    for _ in range(n):
        k = rng.random()
        if k < 0.4:
            add("Add", Con("Add", gen_origin(rng), gen_origin(rng)))
        elif k < 0.65:
            add("Merge", Con("Merge", [gen_origin(rng) for _ in range(rng.randint(0, 4))]))
        elif k < 0.9:
            add("Concat", Con("Concat", gen_origin(rng), [gen_origin(rng) for _ in range(rng.randint(0, 3))]))
        else:
            a = gen_origin(rng)
            b = a if rng.random() < 0.3 else gen_origin(rng)
            add("Eq", Con("Eq", a, b))
    # generated code origins (the CodeOrigin subclass with the fixed empty range at index 0) on either side of code
    # origins of the same / an equal / another source that touch it or not (seeded change C15-8)
    for s1 in SOURCES[1:]:
        for s2 in (s1, rng.choice(SOURCES[1:])):
            for k in (0, 1, 3):
                code = Con("OCode", s2, R(pt_of_index(rng.choice([0, 0, 1])), pt_of_index(k + 1)))
                add("Add-gen", Con("Add", Con("OGen", s1), code))
                add("Add-gen", Con("Add", code, Con("OGen", s1)))
            add("Add-gen", Con("Add", Con("OGen", s1), Con("OGen", s2)))
            add("Add-gen", Con("Concat", Con("OGen", s1), [Con("OCode", s2, R(pt_of_index(0), pt_of_index(2))), Con("OGen", s2)]))
    # a multi-origin in the leading position of a merge / sum (the result must be a new flat listing)
    for _ in range(20 if tier == "quick" else 300):
        m = gen_origin(rng)
        while m.name != "OMulti":
            m = gen_origin(rng)
        rest = [gen_origin(rng) for _ in range(rng.randint(1, 3))]
        add("Merge-multi-first", Con("Merge", [m] + rest))
        add("Merge-multi-first", Con("Add", m, rest[0]))
    # code origins of one source, every pair of grid ranges: the hull / slice clause; the two operands may hold
    # equal sources with different texts (the slice is taken from the left operand's source)
    for x, y in itertools.product(rs, rs):
        if tier == "thorough" or rng.random() < 0.4:
            s1 = rng.choice([SOURCES[1], SOURCES[3]])
            s2 = rng.choice([SOURCES[1], SOURCES[3]])
            add("Add-code", Con("Add", Con("OCode", s1, x), Con("OCode", s2, y)))
    return cases


# ---------------------------------------------------------------- concretisation / observation
def mk_source(t):
    from pathlib import Path

    from pyoak import origin as O

    if t.name == "SNo":
        return O.NO_SOURCE
    if t.name == "SText":
        return O.Source(source_uri=t.args[0].decode(), source_type=t.args[1].decode())
    if t.name == "SMem":
        raw = None if t.args[1].name == "None" else t.args[1].args[0].decode()
        return O.MemoryTextSource(raw, source_uri=t.args[0].decode())
    if t.name == "SFile":
        return O.FileSource(Path(t.args[0].decode()))
    if t.name == "SSet":
        return O.SourceSet(tuple(mk_source(x) for x in t.args[0]))
    raise ValueError(t)


def mk_point(t):
    from pyoak import origin as O

    return O.CodePoint(index=t.args[0], line=t.args[1], column=t.args[2])


def mk_range(t):
    from pyoak import origin as O

    return O.CodeRange(start=mk_point(t.args[0]), end=mk_point(t.args[1]))


def mk_origin(t):
    from pyoak import origin as O

    if t.name == "ONo":
        return O.NO_ORIGIN
    if t.name == "OCode":
        return O.CodeOrigin(source=mk_source(t.args[0]), position=mk_range(t.args[1]))
    if t.name == "OGen":
        return O.GeneratedCodeOrigin(source=mk_source(t.args[0]))
    if t.name == "OXml":
        return O.XMLFileOrigin(source=mk_source(t.args[0]), position=O.XMLPath(t.args[1].decode()))
    if t.name == "OEntire":
        return O.Origin(source=mk_source(t.args[0]), position=O.EntireSourcePosition())
    if t.name == "OMulti":
        return O.MultiOrigin(origins=[mk_origin(x) for x in t.args[0]])
    raise ValueError(t)


def obs_point(p):
    return Con("P", p.index, p.line, p.column)


def obs_range(r):
    return Con("R", obs_point(r.start), obs_point(r.end))


def obs_source(s):
    from pyoak import origin as O

    if s is O.NO_SOURCE or type(s) is O.NoSource:
        return Con("SNo")
    if type(s) is O.MemoryTextSource:
        return Con("SMem", s.source_uri, None if s._raw is None else Some(s._raw))
    if type(s) is O.FileSource:
        return Con("SFile", s.relative_path.as_posix())
    if type(s) is O.SourceSet:
        return Con("SSet", [obs_source(x) for x in s.sources])
    if type(s) is O.Source:
        return Con("SText", s.source_uri, s.source_type)
    return Con("SUnknown", type(s).__name__)


def obs_origin_struct(o):
    from pyoak import origin as O

    if type(o) is O.NoOrigin:
        return Con("ONo")
    if type(o) is O.GeneratedCodeOrigin:
        return Con("OGen", obs_source(o.source))
    if type(o) is O.CodeOrigin:
        return Con("OCode", obs_source(o.source), obs_range(o.position))
    if type(o) is O.XMLFileOrigin:
        return Con("OXml", obs_source(o.source), o.position.xpath)
    if type(o) is O.MultiOrigin:
        return Con("OMulti", [obs_origin_struct(x) for x in o.origins])
    if type(o) is O.Origin and type(o.position) is O.EntireSourcePosition:
        return Con("OEntire", obs_source(o.source))
    return Con("OUnknown", type(o).__name__)


def obs_raw(r):
    if r is None:
        return Con("None")
    if isinstance(r, str):
        return Con("Str", r)
    if isinstance(r, list):
        return [obs_raw(x) for x in r]
    return Con("RawUnknown", type(r).__name__)


def obs_origin(o):
    return Con("Obs", obs_origin_struct(o), o.fqn, obs_source(o.source), obs_raw(o.get_raw()))


def pure(f, operands):
    """The operation is applied twice to the very same operand objects; the operands are observed before and after.
    Origins are values: the second result must equal the first and no operand may change (seeded change C15-9, a
    result list aliasing the member list of its leading operand)."""
    before = [obs_origin(x) for x in operands]
    r1 = guarded(f, obs_origin)
    # the registry of sources (an index used by serialisation) is emptied in between: origin arithmetic compares sources,
    # not their registry entries (seeded change C15-12)
    from pyoak import origin as O
    O.Source.clear_registry()
    r2 = guarded(f, obs_origin)
    after = [obs_origin(x) for x in operands]
    if norm(before) != norm(after):
        return Con("OperandChanged", r1)
    if norm(r1) != norm(r2):
        return Con("Unstable", r1, r2)
    return r1


def guarded(f, obs):
    try:
        v = f()
    except ValueError:
        return Con("Err")
    return Con("Ok", obs(v))


def impl(t, case):
    from pyoak import origin as O

    if t.name == "MkPoint":
        return guarded(lambda: O.CodePoint(index=t.args[0], line=t.args[1], column=t.args[2]), obs_point)
    if t.name == "MkRange":
        return guarded(lambda: O.get_code_range(*t.args), obs_range)
    if t.name == "Rel":
        # ranges are built bypassing nothing: both operands are well-formed by construction of the generator
        a, b = mk_range(t.args[0]), mk_range(t.args[1])
        return Con("Rel", a < b, a <= b, b in a, a.overlaps(b), guarded(lambda: a + b, obs_range), a.fqn,
                   a == b, a.start > b.start, a.end >= b.end)
    if t.name == "Add":
        a, b = mk_origin(t.args[0]), mk_origin(t.args[1])
        return pure(lambda: a + b, [a, b])
    if t.name == "Merge":
        os_ = [mk_origin(x) for x in t.args[0]]
        return pure(lambda: O.merge_origins(*os_), os_)
    if t.name == "Concat":
        a = mk_origin(t.args[0])
        os_ = [mk_origin(x) for x in t.args[1]]
        return pure(lambda: O.concat_origins(a, *os_), [a] + os_)
    if t.name == "Eq":
        return norm(mk_origin(t.args[0]) == mk_origin(t.args[1]))
    raise ValueError("unknown op")


REL_CLAUSES = ["lt", "le", "contains", "overlaps", "hull", "range-fqn", "range-eq", "point-gt", "point-ge"]
OBS_CLAUSES = ["structure", "fqn", "source", "get_raw"]


def compare(inp, impl_obs, model_obs):
    if impl_obs == model_obs:
        return []
    if isinstance(impl_obs, Con) and isinstance(model_obs, Con) and impl_obs.name == model_obs.name:
        if impl_obs.name == "Rel":
            return [c for c, x, y in zip(REL_CLAUSES, impl_obs.args, model_obs.args) if x != y]
        if impl_obs.name == "Ok" and impl_obs.args[0].name == "Obs" and model_obs.args[0].name == "Obs":
            return [c for c, x, y in zip(OBS_CLAUSES, impl_obs.args[0].args, model_obs.args[0].args) if x != y]
    return [inp.name + ":result"]


def nontrivial(inp, model_obs):
    if isinstance(model_obs, Con) and model_obs.name == "Err":
        return False
    if inp.name in ("Merge",):
        return len(inp.args[0]) >= 2
    if inp.name == "Concat":
        return len(inp.args[1]) >= 1
    return True


def spec_violation(inp, impl_obs, model_obs, diffs):
    # everything observed is fixed by the property text except the exact spelling of fqn strings
    return any(d not in ("fqn", "range-fqn") for d in diffs)


def search(rng, tier):
    """Property-level search on the implementation alone (used when the tie or a theorem broke but no case
    violated the property's own clauses): interval laws on the grid, flatness of merges."""
    from pyoak import origin as O

    rs = [mk_range(R(pt_of_index(a), pt_of_index(b))) for a in range(5) for b in range(a, 5)]
    for a in rs:
        if not (a in a):
            return {"input": f"contains not reflexive on {a.fqn}"}
        for b in rs:
            if a.overlaps(b) != b.overlaps(a):
                return {"input": f"overlaps not symmetric on {a.fqn},{b.fqn}"}
            if a.end.index == b.start.index and not a.overlaps(b):
                return {"input": f"touching ranges do not overlap {a.fqn},{b.fqn}"}
            if (a < b) != (a.end.index < b.start.index):
                return {"input": f"< is not 'ends before starts' on {a.fqn},{b.fqn}"}
            h = a + b
            if not (a in h and b in h) or h != b + a or (a + a) != a:
                return {"input": f"hull law fails on {a.fqn},{b.fqn}"}
            for c in rs:
                if (b in a) and (c in b) and not (c in a):
                    return {"input": f"contains not transitive {a.fqn},{b.fqn},{c.fqn}"}
                if (a + b) + c != a + (b + c):
                    return {"input": f"hull not associative {a.fqn},{b.fqn},{c.fqn}"}
    for _ in range(2000):
        os_ = [mk_origin(gen_origin(rng)) for _ in range(rng.randint(0, 4))]
        m = O.merge_origins(*os_)
        if isinstance(m, O.MultiOrigin) and len(os_) != 1:
            if any(isinstance(x, (O.MultiOrigin, O.NoOrigin)) for x in m.origins):
                return {"input": "merge not flat: " + repr([o.fqn for o in os_])}
    return None
