"""C05 - traversals. One case = (class table, tree, prune set, filter set, gather classes)."""
from __future__ import annotations

import itertools

from ..lib.term import Con
from ..lib.universe import Built, TreeGen, gen_universe, iter_nodes, tree_depth, tree_size, universe_from_json, universe_to_json
from .c15 import gen_origin, mk_origin

ID = "C05"
ENTRY = "C05"
RUNNER = "run_C05"
RUN_MODULES = ["Run.RunC05"]
RULE = ("generated universes (single / optional / union / variadic and fixed tuple child fields, inherited fields, falsy "
        "classes) and trees with shared node objects; prune and filter are subsets of node addresses: ALL pairs of subsets "
        "for trees with <= 3 descendants, random subsets beyond; observed: full (node, parent, field, index) streams of dfs "
        "(both directions) and bfs with and without predicates, gather with class tuples (exact and not); non-trivial = "
        "tree depth >= 3 or a tuple field with >= 2 elements; distinct = distinct input terms")
TRUSTED_BASE = [
    "model coq/Model/Traverse.v hand-written from node.py:522-662 (cons-stack for the Python list stack, see file comment); tie = this run",
]
ASSUMPTIONS = ["prune/filter predicates are functions of the yielded node's identity in the correspondence run (arbitrary functions in the theorems)"]


def gen_cases(rng, tier):
    cases = []
    n_uni = 20 if tier == "quick" else 300
    per = 8 if tier == "quick" else 30
    for _ in range(n_uni):
        u = gen_universe(rng, force_falsy=rng.random() < 0.4)
        if rng.random() < 0.4:
            # prefer families in which some class inherits a CHILD field through its second base
            for _try in range(30):
                if any(f.role != "Prop" for c in u.classes for m in c.mixins for f in u.by_name[m].own):
                    break
                u = gen_universe(rng, force_falsy=rng.random() < 0.4)
        uj = universe_to_json(u)
        ct = u.term()
        cn = [c.name for c in u.classes]
        for _ in range(per):
            small = rng.random() < 0.35
            tg = TreeGen(rng, u, max_nodes=3 if small else (25 if tier == "quick" else 120), max_depth=2 if small else rng.randint(2, 6),
                         share=0.1, origins=gen_origin if rng.random() < 0.3 else None)
            root = tg.node(rng.choice(cn))
            addrs = [n.args[0] for n in iter_nodes(root)][1:]
            classes = rng.sample(cn, k=rng.randint(1, min(3, len(cn))))
            exact = rng.random() < 0.5
            if len(addrs) <= 3 and tree_size(root) <= 6:
                subsets = [list(s) for r in range(len(addrs) + 1) for s in itertools.combinations(addrs, r)]
                for pr in subsets:
                    for fl in subsets:
                        cases.append({"kind": "exhaustive-predicates", "input": Con("C05", ct, root, pr, fl, classes, exact),
                                      "opts": {"universe": uj}})
            else:
                for _ in range(2):
                    pr = [a for a in addrs if rng.random() < 0.2]
                    fl = [a for a in addrs if rng.random() < 0.3]
                    cases.append({"kind": "random-predicates", "input": Con("C05", ct, root, pr, fl, classes, exact),
                                  "opts": {"universe": uj}})
    return cases


def impl(t, case):
    u = universe_from_json(case["opts"]["universe"])
    mod = u.load()
    b = Built(u, mk_origin)
    root = b.build(t.args[1])
    prs = set(t.args[2])
    fls = set(t.args[3])
    classes = tuple(getattr(mod, c.decode()) for c in t.args[4])
    exact = t.args[5].name == "T"
    prune = lambda ti: b.addr(ti.node) in prs
    filt = lambda ti: b.addr(ti.node) not in fls

    def stream(it):
        out = []
        for ti in it:
            # the info must be exact: parent's field (at that index) is that very node
            v = getattr(ti.parent, ti.field.name)
            got = v if ti.findex is None else v[ti.findex]
            if got is not ti.node:
                return Con("BadInfo", b.addr(ti.node))
            out.append([b.addr(ti.node), b.addr(ti.parent), ti.field.name, None if ti.findex is None else Con("Some", ti.findex)])
        return out

    res = Con("Trav",
               stream(root.dfs()), stream(root.dfs(bottom_up=True)), stream(root.bfs()),
               stream(root.dfs(prune=prune, filter=filt)), stream(root.dfs(prune=prune, filter=filt, bottom_up=True)),
               stream(root.bfs(prune=prune, filter=filt)),
               [b.addr(n) for n in root.gather(classes if len(classes) > 1 else classes[0], exact_type=exact, extra_filter=filt, prune=prune)],
               [b.addr(n) for n in root.gather(classes, exact_type=not exact)])
    # implementation-only probe (ids are unique among REGISTERED nodes only): the walked tree is detached but kept alive, an
    # equal tree is built - it is issued the same ids - and walked: every position it yields must hold ITS objects
    # (seeded change C05-12: child lists memoised per node id)
    root.detach()
    if True:
        b2 = Built(u, mk_origin)
        root2 = b2.build(t.args[1])
        mine = {id(o) for o in b2.objs.values()}
        for name, it in (("dfs", root2.dfs()), ("dfs(bottom_up)", root2.dfs(bottom_up=True)), ("bfs", root2.bfs())):
            for ti in it:
                v = getattr(ti.parent, ti.field.name)
                got = v if ti.findex is None else v[ti.findex]
                if got is not ti.node or id(ti.node) not in mine or id(ti.parent) not in mine:
                    return Con("RebuiltTreeYieldsForeignNodes", name)
    return res


CLAUSES = ["dfs", "dfs(bottom_up)", "bfs", "dfs(prune,filter)", "dfs(prune,filter,bottom_up)", "bfs(prune,filter)", "gather", "gather(exactness flipped)"]


def compare(inp, impl_obs, model_obs):
    if impl_obs == model_obs:
        return []
    if isinstance(impl_obs, Con) and impl_obs.name == "Trav" and isinstance(model_obs, Con) and model_obs.name == "Trav":
        return [c for c, x, y in zip(CLAUSES, impl_obs.args, model_obs.args) if x != y]
    return ["result"]


def nontrivial(inp, model_obs):
    root = inp.args[1]
    return tree_depth(root) >= 3 or any(len(k.args[2]) >= 2 for n in iter_nodes(root) for k in n.args[4])


def spec_violation(inp, impl_obs, model_obs, diffs):
    return True  # the streams are fixed by the property
