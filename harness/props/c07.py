"""C07 - XPath findall / find / match. One case = (class table, tree without repeated objects, list of xpath ASTs);
the harness prints each AST to text itself (the text -> AST direction is property C17's)."""
from __future__ import annotations

import gc

from ..lib.term import Con, Some, canon
from ..lib.universe import (Built, TreeGen, gen_universe, iter_nodes, node_cls, tree_depth, tree_size,
                            universe_from_json, universe_to_json)
from .c06 import Fresh, add_twins
from .c15 import gen_origin, mk_origin

ID = "C07"
ENTRY = "C07"
RUNNER = "run_C07"
RUN_MODULES = ["Run.RunC07"]
RULE = ("generated class hierarchies (subclasses up to 3 levels, field names including `child` and `items`); trees of 1-30 node "
        "objects without repetition, tuples up to 14 elements, content-identical twins; per tree 12 xpaths generated from the "
        "grammar: 1-4 class-bearing steps, each with every combination of `//` in front / @field / [index] / [] / class "
        "(own class, a base class, ASTNode, omitted), indices 0-14 with leading zeros and blanks between digits, relative and "
        "absolute spellings, blanks / tabs / newlines between tokens; two thirds of the paths are read off the chain of a node "
        "of the tree and then perturbed, one third is free; observed per path: the nodes findall yields (set and number), "
        "find, match(root, n) for EVERY node n; non-trivial = the path has >= 2 elements or a field/index constraint and "
        "the tree has >= 4 nodes; distinct = distinct input terms")
TRUSTED_BASE = [
    "model coq/Model/Xpath.v hand-written from src/pyoak/match/xpath.py (transformer, _match_node_xpath, findall work list with "
    "the synthetic root) over coq/Model/TreeQ.v; tie = this correspondence run",
    "lark LALR parser + contextual lexer for the text -> steps direction (property C17); the printer of xpath ASTs in this file",
]
ASSUMPTIONS = [
    "no node object occurs twice in the tree and all its nodes are registered: registered nodes have pairwise different ids, "
    "so the dict keys (node, parent, field, index) of findall's ordered set compare by object identity (barring a 64-bit str hash collision)",
    "class names are unique (pyoak's TYPES registry)",
]


# ---------------------------------------------------------------------------------------------- xpath ASTs
def St(field, idx, cls):
    """field: str|None; idx: None (absent) | "empty" | int; cls: str|None"""
    it = Con("IAbsent") if idx is None else (Con("IEmpty") if idx == "empty" else Con("IVal", idx))
    return Con("St", None if field is None else Some(field), it, None if cls is None else Some(cls))


EMPTY = St(None, None, None)


def _ws(rng, must=False):
    k = rng.random()
    if k < 0.75 and not must:
        return ""
    return rng.choice([" ", " ", "  ", "\t", "\n", " \t "])


def step_text(rng, s, slash=True, plain=False):
    f, i, c = s.args
    w = (lambda must=False: " " if must else "") if plain else (lambda must=False: _ws(rng, must))
    out = "/" if slash else ""
    if f.name == "Some":
        out += w() + "@" + w() + f.args[0].decode()
    if i.name == "IEmpty":
        out += w() + "[" + w() + "]"
    elif i.name == "IVal":
        d = str(i.args[0])
        if not plain and rng.random() < 0.15:
            d = "0" * rng.randint(1, 2) + d
        if not plain and rng.random() < 0.15:
            d = " ".join(d)
        out += w() + "[" + w() + d + w() + "]"
    if c.name == "Some":
        need = f.name == "Some" and i.name == "IAbsent"   # two names in a row need a blank between them
        out += w(need) + c.args[0].decode()
    return out + w()


def xpath_text(rng, xp, plain=False):
    rel = xp.args[0].name == "T"
    steps = xp.args[1]
    txt = "".join(step_text(rng, s, slash=not (rel and k == 0), plain=plain) for k, s in enumerate(steps))
    if rel:
        txt = txt.lstrip() if not txt.lstrip().startswith("/") else " " + txt.lstrip()
    else:
        txt = txt.lstrip()
    assert txt.startswith("/") != rel
    return txt


def chains(root_t):
    """(node term, [(field, idx, node term) root first; root has field None])"""
    out = []

    def go(t, ch):
        out.append((t, ch))
        for k in t.args[4]:
            many = k.args[1].name == "ShMany"
            for j, c in enumerate(k.args[2]):
                go(c, ch + [(k.args[0].decode(), j if many else None, c)])

    go(root_t, [(None, None, root_t)])
    return out


def gen_xpath(rng, u, root_t, all_chains):
    cn = [c.name for c in u.classes]
    fields = sorted({f.name for c in u.classes for f in c.own}) + ["child", "items", "nope"]

    def cls_choice(actual):
        k = rng.random()
        if actual is not None and k < 0.45:
            return actual
        if actual is not None and k < 0.65:
            b = u.bases(actual)
            return rng.choice(b) if b else actual
        if k < 0.75:
            return "ASTNode"
        if k < 0.85:
            return None
        return rng.choice(cn)

    def idx_choice(actual, arity):
        k = rng.random()
        if k < 0.4:
            return None
        if k < 0.47:
            return "empty"
        if actual is not None and k < 0.8:
            return actual
        if actual is not None and k < 0.9:
            # the first / last digit alone, or ten more: what a one-digit reading would confuse
            return rng.choice([int(str(actual)[0]), actual % 10, actual + 10, max(0, actual - 10)])
        return rng.choice([0, 0, 1, 2, 9, 10, 11, 12, 13, 14])

    steps = []
    if rng.random() < 0.67 and all_chains:
        n, ch = rng.choice(all_chains)
        k = min(len(ch), rng.choice([1, 1, 2, 2, 3, 4]))
        pick = sorted(rng.sample(range(len(ch)), k))
        if rng.random() < 0.7 and pick[-1] != len(ch) - 1:
            pick[-1] = len(ch) - 1          # mostly end on the node itself
        prev = -1
        for p in pick:
            f, i, t = ch[p]
            if p != prev + 1 or (prev == -1 and rng.random() < 0.2):
                steps.append(EMPTY)
            fld = f if (f is not None and rng.random() < 0.55) else None
            if rng.random() < 0.08:
                fld = rng.choice(fields)
            if p != pick[-1] and rng.random() < 0.15:
                # a step that is ONLY `[]`: a class-less, field-less step with an empty index is still one level, not `//`
                steps.append(St(None, "empty", None))
            else:
                steps.append(St(fld, idx_choice(i, None), cls_choice(node_cls(t))))
            prev = p
    else:
        for _ in range(rng.choice([1, 1, 2, 2, 3, 4])):
            if rng.random() < 0.4:
                steps.append(EMPTY)
                if rng.random() < 0.1:
                    steps.append(EMPTY)
            steps.append(St(rng.choice(fields) if rng.random() < 0.4 else None, idx_choice(None, None), cls_choice(None)))
    # the last step carries a class (grammar rule `self`); an all-absent step would be an empty step
    f, i, c = steps[-1].args
    if c.name != "Some":
        steps[-1] = Con("St", f, i, Some(rng.choice(cn + ["ASTNode"])))
    steps = [s if (s == EMPTY or any(a.name not in ("None", "IAbsent") for a in s.args)) else EMPTY for s in steps]
    rel = rng.random() < 0.4
    if rel and steps[0] == EMPTY and rng.random() < 0.7:
        steps = steps[1:]                   # "A/B" is the usual relative spelling of "//A/B"
    return Con("XP", rel, steps)


def gen_tree(rng, u, max_nodes, max_depth, origins):
    from .c06 import gen_tree as g

    return g(rng, u, max_nodes, max_depth, rng.random() < 0.4, origins, cap=max_nodes + 16)


def gen_cases(rng, tier):
    cases = []
    n_uni = 24 if tier == "quick" else 500
    per_u = 3 if tier == "quick" else 8
    n_xp = 12
    for _ in range(n_uni):
        u = gen_universe(rng)
        uj = universe_to_json(u)
        ct = u.term()
        for _k in range(per_u):
            root = gen_tree(rng, u, max_nodes=rng.choice([8, 14, 22, 30]), max_depth=rng.choice([2, 3, 4, 5]),
                            origins=gen_origin if rng.random() < 0.3 else None)
            if tree_size(root) > 60:
                continue
            chs = chains(root)
            xps = [gen_xpath(rng, u, root, chs) for _ in range(n_xp)]
            seed = rng.randrange(1 << 30)
            cases.append({"kind": "xpaths", "input": Con("C07", ct, root, xps), "opts": {"universe": uj, "ws_seed": seed}})
    return cases


# ---------------------------------------------------------------------------------------------- implementation
def _q(fn):
    try:
        return fn()
    except KeyError:
        return Con("KeyError")
    except ValueError:
        return Con("ValueError")


def impl(t, case):
    import random

    from pyoak.match.xpath import ASTXpath

    from .c17 import probe_redefined_class
    bad = probe_redefined_class()
    if bad:
        return Con("ProbeViolation", bad)
    u = universe_from_json(case["opts"]["universe"])
    u.load()
    gc.collect()
    ctt, root_t, xps = t.args
    b = Built(u, mk_origin)
    root = b.build(root_t)
    nodes = [b.objs[n.args[0]] for n in iter_nodes(root_t)]
    wrng = random.Random(case["opts"].get("ws_seed", 0))
    plain = bool(case["opts"].get("plain"))
    A = b.addr
    out = []
    tree = root.to_tree()
    for k, xp in enumerate(xps):
        text = xpath_text(wrng, xp, plain=plain)
        X = ASTXpath(text)
        fa = list(X.findall(root)) if k % 2 else list(root.findall(text))
        f = root.find(text) if k % 3 else root.find(X)
        if fa:
            assert f is fa[0] or A(f) != A(fa[0]), "find returned an equal but different object"
        ms = [_q(lambda: X.match(root if (k + j) % 4 == 0 else tree, n)) for j, n in enumerate(nodes)]
        out.append(Con("R", [A(n) for n in fa], Con("None") if f is None else Some(A(f)), ms))
    return out


# ---------------------------------------------------------------------------------------------- comparison
def _clauses(ri, rm):
    """ri / rm: one (R findall find matches) of the implementation / the model"""
    d = []
    ok = lambda r: isinstance(r, Con) and r.name == "R" and len(r.args) == 3 and isinstance(r.args[0], tuple)
    if not ok(rm) or not ok(ri):
        return ["result"]
    fi, fm = ri.args[0], rm.args[0]
    if sorted(fi) != sorted(fm):
        d.append("findall:nodes" if set(fi) != set(fm) else "findall:each-once")
    first = Some(fi[0]) if fi else Con("None")
    if ri.args[1] != first:
        d.append("find:first-of-findall")
    if ri.args[2] != rm.args[2]:
        d.append("match")
    return d


def compare(inp, impl_obs, model_obs):
    impl_obs, model_obs = canon(impl_obs), canon(model_obs)
    if not isinstance(impl_obs, tuple) or not isinstance(model_obs, tuple) or len(impl_obs) != len(model_obs):
        return ["result"]
    d = set()
    for ri, rm in zip(impl_obs, model_obs):
        d.update(_clauses(ri, rm))
    return sorted(d)


def nontrivial(inp, model_obs):
    root, xps = inp.args[1], inp.args[2]
    rich = any(len([s for s in xp.args[1] if s != EMPTY]) >= 2 or
               any(s.args[0].name == "Some" or s.args[1].name == "IVal" for s in xp.args[1]) for xp in xps)
    return tree_size(root) >= 4 and rich


def spec_violation(inp, impl_obs, model_obs, diffs):
    return True   # every observable is fixed by the documented semantics (theorems C07_findall_sem / C07_match_sem)
