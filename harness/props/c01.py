"""C01 - content_id / is_equal. One case = (class table, tree a, tree b); pairs are mutation pairs, twin pairs,
separator-collision pairs and independent pairs."""
from __future__ import annotations

import json

from ..lib.term import Con, canon
from ..lib.universe import (Built, FieldSpec, ClassSpec, Universe, TreeGen, gen_universe, gen_value, iter_nodes, tree_depth, tree_size,
                            universe_from_json, universe_to_json)
from .c15 import gen_origin, mk_origin

ID = "C01"
ENTRY = "C01"
RUNNER = "run_C01"
RUN_MODULES = ["Run.RunC01"]
RULE = ("pairs of trees over generated universes: mutation pairs (one edit: a property value incl. type changes 1/True/'1', one "
        "character anywhere incl. the last of a long string, separator-laden strings, frozenset reorder, swap of two tuple "
        "children, optional child present/absent, child replaced by a node of another class, node class changed to a subclass "
        "with the same fields), twin pairs (same content; other origins / object identities / non-comparable values), "
        "separator-collision pairs built to collide under unframed concatenation, independent pairs; each pair is digested by "
        "pyoak at ID_DIGEST_SIZE 8 in a worker whose PYTHONHASHSEED differs per shard; non-trivial = the pair differs by at "
        "most one edit or one tree has depth >= 3; distinct = distinct input terms")
TRUSTED_BASE = [
    "model coq/Model/Encode.v hand-written from node.py __post_init__ (preimages byte for byte); tie = exact digest equality on every case",
    "blake2b is not modelled: H is a Section variable in the theorems and real hashlib.blake2b in the runs",
    "py_repr / str_repr model CPython's repr for ASCII strings; nested strings in tuples/frozensets are ASCII in the generator",
]
ASSUMPTIONS = ["class identity is the class name", "collision freedom of H where stated (completeness direction only)"]


# ---------------------------------------------------------------- tree edits on terms
def retag(t, off):
    return Con("N", t.args[0] + off, t.args[1], t.args[2], t.args[3],
               [Con("K", k.args[0], k.args[1], [retag(c, off) for c in k.args[2]]) for k in t.args[4]])


def with_origin(t, o):
    return Con("N", t.args[0], t.args[1], o, t.args[3], t.args[4])


def paths(t, pre=()):
    yield pre
    for i, k in enumerate(t.args[4]):
        for j, c in enumerate(k.args[2]):
            yield from paths(c, pre + ((i, j),))


def get_at(t, path):
    for i, j in path:
        t = t.args[4][i].args[2][j]
    return t


def bump(t):
    return Con("N", t.args[0] + 500000, t.args[1], t.args[2], t.args[3], t.args[4])


def replace_at(t, path, f):
    """the edited node and all its ancestors become new objects (fresh addresses): a shared subtree that is edited at
    one of its positions must not stay shared"""
    if not path:
        return bump(f(t))
    (i, j), rest = path[0], path[1:]
    ks = list(t.args[4])
    k = ks[i]
    kids = list(k.args[2])
    kids[j] = replace_at(kids[j], rest, f)
    ks[i] = Con("K", k.args[0], k.args[1], kids)
    return Con("N", t.args[0] + 500000, t.args[1], t.args[2], t.args[3], ks)


def mutate_value(rng, v, u):
    n = v.name
    if n == "VStr":
        s = v.args[0].decode()
        k = rng.random()
        if k < 0.3 and s:
            i = rng.choice([0, len(s) - 1, rng.randrange(len(s))])
            return Con("VStr", s[:i] + ("x" if s[i] != "x" else "y") + s[i + 1:])
        if k < 0.5:
            return Con("VStr", s + rng.choice([" ", ")", ":", "(", "\x00", "é"]))
        if k < 0.6:
            return Con("VStr", s[:-1]) if s else Con("VStr", "0")
        return Con("VStr", s + "a" * 400 + rng.choice("bc"))
    if n == "VInt":
        return rng.choice([Con("VInt", v.args[0] + 1), Con("VBool", True), Con("VStr", str(v.args[0])), Con("VFloat", repr(float(v.args[0] % 1000)))])
    if n == "VBool":
        return rng.choice([Con("VBool", v.args[0].name != "T"), Con("VInt", 1 if v.args[0].name == "T" else 0)])
    if n == "VNone":
        return rng.choice([Con("VInt", 0), Con("VStr", "None"), Con("VBool", False)])
    if n == "VEnum":
        from ..lib.universe import ENUM_MEMBERS
        m = rng.choice([m for m in ENUM_MEMBERS if m.encode() != v.args[1]])
        return Con("VEnum", v.args[0], m, ENUM_MEMBERS[m])
    if n == "VFloat":
        return Con("VFloat", repr(float(v.args[0].decode()) + 1.0)) if v.args[0] != b"1e+17" else Con("VFloat", "1.5")
    if n == "VPath":
        return Con("VPath", v.args[0].decode() + "x")
    if n == "VTuple":
        l = list(v.args[0])
        if l and rng.random() < 0.5:
            i = rng.randrange(len(l))
            l[i] = mutate_value(rng, l[i], u)
            return Con("VTuple", l)
        return Con("VTuple", l + [l[0] if l else Con("VInt", 0)])
    if n == "VFset":
        l = list(v.args[0])
        # 1 == True == 1.0 and 0 == False in Python: a set holding the int and a set holding the bool are EQUAL python
        # objects of different content (element types differ); nothing keyed by the set itself may confuse them
        for i, x in enumerate(l):
            if x == Con("VInt", 1) and Con("VBool", True) not in l and rng.random() < 0.7:
                return Con("VFset", l[:i] + [Con("VBool", True)] + l[i + 1:])
            if x == Con("VInt", 0) and Con("VBool", False) not in l and rng.random() < 0.7:
                return Con("VFset", l[:i] + [Con("VBool", False)] + l[i + 1:])
        if l:
            return Con("VFset", l[1:])
        return Con("VFset", [Con("VInt", 3)])
    return v


def same_fields(u, c, d):
    a, b = u.merged(c), u.merged(d)
    # non-init fields always hold their class's default: the edited node could not carry the original value
    return [(f.name, f.role, f.compare) for f in a] == [(f.name, f.role, f.compare) for f in b] \
        and all(f.init for f in a) and all(f.init for f in b) \
        and [f.ptype for f in a] == [f.ptype for f in b]


def edit(rng, u, t):
    """returns (kind, t', expect_equal) or None"""
    ps = list(paths(t))
    path = rng.choice(ps)
    n = get_at(t, path)
    cname = n.args[1].decode()
    fields = {f.name: f for f in u.merged(cname)}
    choices = ["origin", "noncompare", "prop", "prop", "prop", "swap", "optional", "childclass", "class", "fsetorder", "tuplelen"]
    rng.shuffle(choices)
    for ch in choices:
        if ch == "origin":
            return "twin:origin", replace_at(t, path, lambda x: with_origin(x, gen_origin(rng))), True
        props = list(n.args[3])
        if ch in ("prop", "noncompare", "fsetorder") and props:
            cand = [i for i, p in enumerate(props) if fields[p.args[0].decode()].init and
                    (fields[p.args[0].decode()].compare != (ch == "noncompare"))]
            if ch == "fsetorder":
                cand = [i for i in cand if props[i].args[1].name == "VFset" and len(props[i].args[1].args[0]) >= 2]
            if not cand:
                continue
            i = rng.choice(cand)
            v = props[i].args[1]
            if ch == "fsetorder":
                l = list(v.args[0])
                l.reverse()
                nv = Con("VFset", l)
            else:
                nv = mutate_value(rng, v, u)
                if ch == "prop" and fields[props[i].args[0].decode()].ptype in ("int", "bool", "optint", "float", "str", "path", "enum",
                                                                                "tupint", "tupstr", "fsetstr", "fsetint") \
                        and nv.name != v.name and rng.random() < 0.5:
                    pass  # type-changing edits are kept: pyoak does not type check by default
            if canon(nv) == canon(v):
                continue
            props[i] = Con("P", props[i].args[0], nv)
            t2 = replace_at(t, path, lambda x: Con("N", x.args[0], x.args[1], x.args[2], props, x.args[4]))
            return ("mutation:" + ch, t2, ch != "prop")
        ks = list(n.args[4])
        if ch == "swap":
            cand = [i for i, k in enumerate(ks) if k.args[1].name == "ShMany" and len(k.args[2]) >= 2]
            if not cand:
                continue
            i = rng.choice(cand)
            kids = list(ks[i].args[2])
            a, b = rng.sample(range(len(kids)), 2)
            if kids[a] == kids[b]:
                continue
            kids[a], kids[b] = kids[b], kids[a]
            ks[i] = Con("K", ks[i].args[0], ks[i].args[1], kids)
            return "mutation:swap", replace_at(t, path, lambda x: Con("N", x.args[0], x.args[1], x.args[2], x.args[3], ks)), None
        if ch == "tuplelen":
            cand = [i for i, k in enumerate(ks) if k.args[1].name == "ShMany" and len(k.args[2]) >= 1 and not fields[k.args[0].decode()].fixed]
            if not cand:
                continue
            i = rng.choice(cand)
            kids = list(ks[i].args[2])
            kids = kids[:-1] if rng.random() < 0.5 else kids + [retag(kids[-1], 5000)]
            ks[i] = Con("K", ks[i].args[0], ks[i].args[1], kids)
            return "mutation:tuplelen", replace_at(t, path, lambda x: Con("N", x.args[0], x.args[1], x.args[2], x.args[3], ks)), False
        if ch == "optional":
            cand = [i for i, k in enumerate(ks) if fields[k.args[0].decode()].role == "Opt" and k.args[1].name == "ShOne"]
            if not cand:
                continue
            i = rng.choice(cand)
            ks[i] = Con("K", ks[i].args[0], Con("ShNone"), [])
            return "mutation:optional-absent", replace_at(t, path, lambda x: Con("N", x.args[0], x.args[1], x.args[2], x.args[3], ks)), False
        if ch == "childclass" and path:
            # replace this node by a freshly generated node of an allowed other class at the same position
            parent = get_at(t, path[:-1])
            pf = {f.name: f for f in u.merged(parent.args[1].decode())}
            k = parent.args[4][path[-1][0]]
            allowed = [c for ct_ in pf[k.args[0].decode()].child_types for c in u.subclasses_of(ct_)]
            others = [c for c in allowed if c != cname]
            if not others:
                continue
            tg = TreeGen(rng, u, max_nodes=4, max_depth=1)
            tg.count = 7000
            nn = tg.node(rng.choice(others))
            return "mutation:childclass", replace_at(t, path, lambda x: nn), False
        if ch == "class":
            sibs = [c.name for c in u.classes if c.name != cname and same_fields(u, cname, c.name)]
            if path:
                parent = get_at(t, path[:-1])
                pf = {f.name: f for f in u.merged(parent.args[1].decode())}
                k = parent.args[4][path[-1][0]]
                allowed = {c for ct_ in pf[k.args[0].decode()].child_types for c in u.subclasses_of(ct_)}
                sibs = [c for c in sibs if c in allowed]
            if not sibs:
                continue
            d = rng.choice(sibs)
            return "mutation:class", replace_at(t, path, lambda x: Con("N", x.args[0], d, x.args[2], x.args[3], x.args[4])), False
    return None


def collision_universe(rng):
    """a class with two adjacent comparable str properties, for separator collisions"""
    tag = f"_c{rng.randint(0, 10**9)}"
    p, q = rng.choice([("a", "b"), ("x", "y"), ("name", "value")])
    fs = [FieldSpec(p, "Prop", ptype="str"), FieldSpec(q, "Prop", ptype="str"),
          FieldSpec("kids", "Tup", child_types=("Leaf" + tag,), has_default=True)]
    # the class refers to itself in `kids`: that needs postponed annotations
    u = Universe([ClassSpec("Leaf" + tag, None, fs)], "Color" + tag, True, 900000 + rng.randint(0, 10**6))
    return u, p, q


def gen_cases(rng, tier):
    cases = []
    n_uni = 14 if tier == "quick" else 200
    per = 30 if tier == "quick" else 120
    for _ in range(n_uni):
        u = gen_universe(rng, force_falsy=rng.random() < 0.4)
        uj = universe_to_json(u)
        ct = u.term()
        cn = [c.name for c in u.classes]
        for _ in range(per):
            hard = rng.random() < 0.5
            tg = TreeGen(rng, u, max_nodes=10 if tier == "quick" else 60, max_depth=rng.randint(1, 5), share=0.05,
                         origins=gen_origin if rng.random() < 0.5 else None, hard_strings=hard)
            a = tg.node(rng.choice(cn))
            k = rng.random()
            if k < 0.7:
                e = edit(rng, u, a)
                if e is None:
                    continue
                kind, b, _ = e
                b = retag(b, 10000)
            elif k < 0.8:
                kind, b = "twin:identity", retag(a, 10000)
            else:
                tg2 = TreeGen(rng, u, max_nodes=10, max_depth=3)
                tg2.count = 20000
                kind, b = "independent", tg2.node(a.args[1].decode())
            cases.append({"kind": kind, "input": Con("C01", ct, a, b), "digest_size": 8, "opts": {"universe": uj}})
    # frozenset-order pairs: equal sets built in different insertion orders (colliding small ints, strings)
    for _ in range(20 if tier == "quick" else 400):
        tag = f"_f{rng.randint(0, 10**9)}"
        fs = [FieldSpec("s", "Prop", ptype="fsetint"), FieldSpec("t", "Prop", ptype="fsetstr"), FieldSpec("u", "Prop", ptype="any")]
        u = Universe([ClassSpec("Leaf" + tag, None, fs)], "Color" + tag, rng.random() < 0.5, 800000 + rng.randint(0, 10**6))
        ints = rng.sample([0, 8, 16, 24, 32, 40, 1, 9], k=rng.randint(2, 5))
        if rng.random() < 0.5 and 1 not in ints:
            ints.append(1)
        strs = rng.sample(["a", "b", "c", "ab", "ba", "x:y", ""], k=rng.randint(2, 5))
        ints2, strs2 = ints[:], strs[:]
        rng.shuffle(ints2)
        rng.shuffle(strs2)
        nested = [Con("VFset", [Con("VInt", i) for i in ints]), Con("VInt", 1)]
        nested2 = [Con("VFset", [Con("VInt", i) for i in ints2]), Con("VInt", 1)]
        if rng.random() < 0.5:
            # a frozenset OF frozensets (sets are only partially ordered by <: the canonical order must not rest on it;
            # seeded change C01-11), its members listed in two orders
            inner = [Con("VFset", [Con("VInt", i) for i in ints[:k]]) for k in range(1, len(ints) + 1)]
            inner += [Con("VFset", [Con("VInt", 99)]), Con("VFset", [Con("VInt", 7), Con("VInt", 99)])]
            inner2 = inner[:]
            rng.shuffle(inner2)
            nested = nested + [Con("VFset", inner)]
            nested2 = nested2 + [Con("VFset", inner2)]
        def leaf(addr, i, s_, nv):
            return Con("N", addr, "Leaf" + tag, Con("ONo"),
                       [Con("P", "s", Con("VFset", [Con("VInt", x) for x in i])), Con("P", "t", Con("VFset", [Con("VStr", x) for x in s_])),
                        Con("P", "u", Con("VTuple", nv))], [])
        cases.append({"kind": "frozenset-order", "input": Con("C01", u.term(), leaf(1, ints, strs, nested), leaf(2, ints2, strs2, nested2)),
                      "digest_size": 8, "opts": {"universe": universe_to_json(u)}})
        if 1 in ints:
            # the same set with True in place of 1: an equal Python object, different content
            def leafb(addr, i, s_):
                return Con("N", addr, "Leaf" + tag, Con("ONo"),
                           [Con("P", "s", Con("VFset", [Con("VBool", True) if x == 1 else Con("VInt", x) for x in i])),
                            Con("P", "t", Con("VFset", [Con("VStr", x) for x in s_])), Con("P", "u", Con("VTuple", nested))], [])
            cases.append({"kind": "frozenset-bool-int", "input": Con("C01", u.term(), leaf(1, ints, strs, nested), leafb(2, ints, strs)),
                          "digest_size": 8, "opts": {"universe": universe_to_json(u)}})
    # separator-collision pairs
    for _ in range(20 if tier == "quick" else 400):
        u, p, q = collision_universe(rng)
        uj = universe_to_json(u)
        cname = u.classes[0].name
        X, Y, Z = [rng.choice(["1", "", "ab", "2", "é", ")", "3("]) for _ in range(3)]
        sep = rng.choice([f"):{q}=<class 'str'>(", f"):{q}=<class 'str'>(1:", f":{q}=", ")"])
        def leaf(addr, pv, qv):
            return Con("N", addr, cname, Con("ONo"), [Con("P", p, Con("VStr", pv)), Con("P", q, Con("VStr", qv))], [Con("K", "kids", Con("ShMany"), [])])
        a = leaf(1, X + sep + Y, Z)
        b = leaf(2, X, Y + sep + Z)
        cases.append({"kind": "separator-collision", "input": Con("C01", u.term(), a, b), "digest_size": 8, "opts": {"universe": uj}})
    # default-equal pairs: a property holding its declared default against the same node holding a value that is == to the
    # default but of another type (0 / False, 1 / True, 1 / 1.0-like enum members are not modelled): the digest must not
    # be computed relative to the default (seeded change C01-9)
    for _ in range(12 if tier == "quick" else 200):
        tag = f"_d{rng.randint(0, 10**9)}"
        dv, ov = rng.choice([(Con("VInt", 0), Con("VBool", False)), (Con("VInt", 1), Con("VBool", True)),
                             (Con("VBool", False), Con("VInt", 0)), (Con("VBool", True), Con("VInt", 1))])
        fs = [FieldSpec("v", "Prop", ptype="any", has_default=True, default=dv), FieldSpec("w", "Prop", ptype="any", has_default=True, default=dv)]
        u = Universe([ClassSpec("Leaf" + tag, None, fs)], "Color" + tag, rng.random() < 0.5, 600000 + rng.randint(0, 10**6))
        other = rng.choice([dv, ov, Con("VInt", 5)])
        a = Con("N", 1, "Leaf" + tag, Con("ONo"), [Con("P", "v", dv), Con("P", "w", other)], [])
        b = Con("N", 2, "Leaf" + tag, Con("ONo"), [Con("P", "v", ov), Con("P", "w", other)], [])
        cases.append({"kind": "default-equal", "input": Con("C01", u.term(), a, b), "digest_size": 8, "opts": {"universe": universe_to_json(u)}})
    # name-boundary pairs: (class C, first property xF) against (class Cx, first property F) with the same value - the
    # class name and the first property name must be framed against each other (seeded change C01-8)
    for _ in range(10 if tier == "quick" else 200):
        tag = f"_n{rng.randint(0, 10**9)}"
        x = rng.choice(["s", "x", "_", "B"])
        f = rng.choice(["_k", "k", "ab"])
        if x == "_" and f.startswith("_"):
            f = "k"          # no leading double underscore: Python mangles such names in a class body
        pt = rng.choice(["str", "int"])
        v = Con("VStr", rng.choice(["", "a", "1"])) if pt == "str" else Con("VInt", rng.choice([0, 1, 7]))
        c1, c2 = "Nb" + tag, "Nb" + tag + x
        u = Universe([ClassSpec(c1, None, [FieldSpec(x + f, "Prop", ptype=pt)]), ClassSpec(c2, None, [FieldSpec(f, "Prop", ptype=pt)])],
                     "Color" + tag, rng.random() < 0.5, 700000 + rng.randint(0, 10**6))
        a = Con("N", 1, c1, Con("ONo"), [Con("P", x + f, v)], [])
        b = Con("N", 2, c2, Con("ONo"), [Con("P", f, v)], [])
        cases.append({"kind": "name-boundary", "input": Con("C01", u.term(), a, b), "digest_size": 8, "opts": {"universe": universe_to_json(u)}})
    return cases


def impl(t, case):
    import gc

    from pyoak import config
    u = universe_from_json(case["opts"]["universe"])
    u.load()
    config.ID_DIGEST_SIZE = case.get("digest_size") or 8
    try:
        b = Built(u, mk_origin)
        x = b.build(t.args[1])
        y = b.build(t.args[2])
        bx = x.id.split("_")[0]
        by = y.id.split("_")[0]
        r = Con("Cid", x.content_id, y.content_id, bx, by, x.is_equal(y), y.is_equal(x), x.content_id == y.content_id)
        cid_x = x.content_id
        del b, x, y
        gc.collect()
        # declaration-order probe (implementation only): the same classes declared again with every class's own fields in
        # reverse order (all keyword-only, so that any order is legal) must give the first tree the same content_id
        # (seeded change C01-7: a sort with ties, so that declaration order leaks)
        uj = json.loads(json.dumps(case["opts"]["universe"]))
        for c in uj["classes"]:
            c["own"] = list(reversed(c["own"]))
            for f in c["own"]:
                f["kw_only"] = True
        u2 = universe_from_json(uj, cache=False)
        u2.load()
        b2 = Built(u2, mk_origin)
        x2 = b2.build(t.args[1])
        if x2.content_id != cid_x:
            r = Con("DeclarationOrderMatters", cid_x, x2.content_id)
        del b2, x2
        # put the original classes back where name-based lookups find them
        import sys

        from pyoak.serialize import TYPES
        sys.modules[u.module.__name__] = u.module
        for c in u.classes:
            TYPES[c.name] = getattr(u.module, c.name)
    finally:
        config.ID_DIGEST_SIZE = 8
    gc.collect()
    return r


CLAUSES = ["content_id(a)", "content_id(b)", "id(a)", "id(b)", "is_equal(a,b)", "is_equal(b,a)", "content_id equal"]
SPEC_CLAUSES = {"is_equal(a,b)", "is_equal(b,a)", "content_id equal"}


def compare(inp, impl_obs, model_obs):
    if isinstance(impl_obs, Con) and impl_obs.name == "Cid" and isinstance(model_obs, Con) and model_obs.name == "Cid":
        return [c for c, x, y in zip(CLAUSES, impl_obs.args, model_obs.args) if x != y]
    return ["result"]


def nontrivial(inp, model_obs):
    return tree_depth(inp.args[1]) >= 2 or tree_depth(inp.args[2]) >= 2 or tree_size(inp.args[1]) >= 3


def spec_violation(inp, impl_obs, model_obs, diffs):
    # exact digests and ids are model detail (a changed preimage format is allowed by the property);
    # the property's own clauses are the equal / not-equal verdicts
    return any(d in SPEC_CLAUSES or d == "result" for d in diffs)
