"""C14 - duplicate and replace produce faithful, independent copies.  Same histories, same implementation runner and
same model as C03 (harness/props/c03.py, coq/Run/RunC03.v); the clauses compared are the ones C14 speaks about."""
from __future__ import annotations

from ..lib.term import Con
from . import c03
from .c03 import impl, gen_history  # noqa: F401  (impl is the interface function)

ID = "C14"
ENTRY = "C14"
RUNNER = "run_C14"
RUN_MODULES = ["Run.RunC14"]
RULE = ("the C03 histories with more duplicate / replace / dataclasses.replace operations (single- and multi-field changes "
        "of origin, comparable and non-comparable properties, optional / required / tuple children; on registered and "
        "detached originals, with and without registered twins, on roots and inner nodes, over trees with shared "
        "subtrees, non-init and non-comparable fields). Compared after every operation: the result; for a duplicate "
        "that every node of the copy is an object never seen before, copy == original, and the complete content of "
        "every new node (class, origin, every property, child objects by identity, id, content_id); for a replace "
        "that the result is new, of the same class, and field by field that untouched init fields hold the very same "
        "object (`is`); ids and get_any / get of every held node (registry membership of original and copy). "
        "non-trivial = at least one duplicate or replace took effect; distinct = distinct input terms")
TRUSTED_BASE = c03.TRUSTED_BASE
ASSUMPTIONS = c03.ASSUMPTIONS + ["C14_dup_eq is proved on reified trees (Proofs/RegistryReify.v); that the machine's own node_eq (the == printed for every Dup) is eqn on the reified trees is not proved - it is compared with pyoak's == on every Dup"]

C14_IDX = (0, 1, 2, 4)


def gen_cases(rng, tier):
    cases = c03.gen_cases(rng, tier)
    # keep the histories that exercise a copy; top up with the rest
    def has_copy(c):
        return any(op.name in ("Dup", "Replace", "DcReplace") for op in c03.hist_parts(c["input"])[3])
    cases.sort(key=lambda c: not has_copy(c))
    for c in cases:
        c["kind"] = "history+copy" if has_copy(c) else "history"
    return cases


def compare(inp, impl_obs, model_obs):
    return c03.compare_with(inp, impl_obs, model_obs, C14_IDX)


def nontrivial(inp, model_obs):
    if not (isinstance(model_obs, Con) and model_obs.name == "Out"):
        return False
    return any(s.args[4].name in ("XDup", "XRep") for s in model_obs.args[0])


def spec_violation(inp, impl_obs, model_obs, diffs):
    return True  # copies, identities and registry membership are fixed by the property


def search(rng, tier):
    return c03.search(rng, tier)
