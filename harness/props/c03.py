"""C03 - registry state machine (shared with C14 and C10).  One case = one whole history of public operations over
<= 8 variables; after EVERY operation everything the three properties speak about is observed on both sides."""
from __future__ import annotations

import gc
import weakref

from ..lib.term import Con, Some, canon, norm
from ..lib.universe import from_py, gen_universe, gen_value, universe_from_json, universe_to_json
from .c15 import P as _P, R as _R, SOURCES, mk_origin, obs_origin_struct, pt_of_index

# the extracted driver prints observations of several MB through non-tail-recursive list functions: give the
# processes started from here (the model driver is started by the worker after this module is imported) the hard
# stack limit instead of the 8 MB default
try:
    import resource as _resource

    _soft, _hard = _resource.getrlimit(_resource.RLIMIT_STACK)
    _resource.setrlimit(_resource.RLIMIT_STACK, (_hard, _hard))
except Exception:  # noqa
    pass

ID = "C03"
ENTRY = "C03"
RUNNER = "run_C03"
RUN_MODULES = ["Run.RunC03"]
RULE = ("random histories (<= 12 operations quick, <= 60 thorough) over 4-8 variables in a generated class family: construct "
        "(children taken from any position of any held tree, so trees share nodes), duplicate, dataclasses.replace and "
        "ASTNode.replace (succeeding; failing with a non-init key / an unknown key), detach, detach_self (also on inner and "
        "on already detached nodes), drop of a variable + gc, read-only calls; biased to content-identical twins and to the "
        "scripts detach->twin->detach/replace, replace of a detached node, drop->re-create; ID_DIGEST_SIZE in {1,2,8}. "
        "After every operation: result (ids exactly), for every node of every held tree id and get_any(id), for every held "
        "root Cls.get(id) strict/non-strict for every class of the family and ASTNode, for every node ever seen whether its "
        "weakref is alive and what get_any(old id) returns. non-trivial = at least 3 operations took effect; distinct = "
        "distinct input terms")
TRUSTED_BASE = [
    "model coq/Model/Registry.v hand-written from node.py (NODE_REGISTRY, _get_next_unique_id, __post_init__, get/get_any, "
    "detach/detach_self/replace, duplicate) and dataclasses.replace; tie = this correspondence run",
    "weak registry = reachability from the harness's variables (CPython reference counting + WeakValueDictionary are assumed, "
    "and observed through weakrefs after del + gc.collect())",
    "digest preimages from coq/Model/Encode.v; blake2b supplied by hashlib at the case's digest size",
]
ASSUMPTIONS = [
    "class identity is the class name; RUNTIME_TYPE_CHECK is off (pyoak default), child fields are init fields",
    "non-init fields always hold their declared default",
    "as_dict/as_obj (forced-id path of _deserialize) is outside the modelled operation set",
]

ORIGINS = [
    Con("ONo"),
    Con("OCode", SOURCES[1], _R(pt_of_index(0), pt_of_index(2))),
    Con("OCode", SOURCES[1], _R(pt_of_index(3), pt_of_index(5))),
    Con("OGen", SOURCES[3]),
    Con("OXml", SOURCES[4], b"/a/b"),
]
READ_KINDS = 10


# ------------------------------------------------------------------------------------------------ generator
class Sh:
    """shadow of a node: just enough structure to generate well-formed operations"""
    __slots__ = ("cls", "origin", "props", "kids")

    def __init__(self, cls, origin, props, kids):
        self.cls, self.origin, self.props, self.kids = cls, origin, props, kids  # kids: [(fname, shape, [Sh])]

    def pre(self):
        out = [self]
        for _, _, l in self.kids:
            for k in l:
                out.extend(k.pre())
        return out


class GenRetry(Exception):
    pass


def L(v, k):
    return Con("L", v, k)


class HistGen:
    def __init__(self, rng, u, nvars, max_ops):
        self.rng, self.u, self.nvars, self.max_ops = rng, u, nvars, max_ops
        self.vars = [None] * nvars
        self.ops = []
        self.origins = rng.sample(ORIGINS, 2) if rng.random() < 0.7 else list(ORIGINS)
        self.cnames = [c.name for c in u.classes]

    # ----- shadow helpers
    def all_locs(self):
        out = []
        for v, r in enumerate(self.vars):
            if r is not None:
                for k, s in enumerate(r.pre()):
                    out.append((v, k, s))
        return out

    def loc_of(self, sh):
        for v, k, s in self.all_locs():
            if s is sh:
                return (v, k)
        return None

    def pick_loc(self, inner=0.3):
        held = [v for v, r in enumerate(self.vars) if r is not None]
        if not held:
            return None
        v = self.rng.choice(held)
        p = self.vars[v].pre()
        k = self.rng.randrange(len(p)) if self.rng.random() < inner else 0
        return (v, k, p[k])

    def gen_props(self, cname):
        ps = []
        for f in self.u.merged(cname):
            if f.role != "Prop":
                continue
            if not f.init:
                v = f.default
            elif f.has_default and self.rng.random() < 0.3:
                v = f.default
            else:
                v = self.small_value(f)
            ps.append((f.name, v))
        return ps

    def small_value(self, f):
        rng = self.rng
        if f.ptype == "int":
            return Con("VInt", rng.choice([0, 1, 2]))
        if f.ptype == "str":
            return Con("VStr", rng.choice(["", "a", "test", "L3C2089KVA"]))
        return gen_value(rng, f.ptype, self.u.enum_name)

    # ----- operations
    def emit_new(self, dst, cname, depth=0, recipe=None, avoid=()):
        rng, u = self.rng, self.u
        if len(self.ops) > self.max_ops + 8:
            raise GenRetry()
        origin = recipe.origin if recipe is not None else rng.choice(self.origins)
        props = list(recipe.props) if recipe is not None else self.gen_props(cname)
        used = set(avoid) | {dst}
        kid_terms, kid_sh = [], []
        rk = {n: l for n, _, l in recipe.kids} if recipe is not None else {}
        for f in u.merged(cname):
            if f.role == "Prop":
                continue
            want = rk.get(f.name)
            if want is not None:
                n = len(want)
            elif f.role == "Opt":
                n = 0 if depth >= 2 or rng.random() < 0.4 else 1
            elif f.role == "One":
                n = 1
            else:
                n = f.fixed or (0 if depth >= 2 else rng.choice([0, 1, 2, 2, 3]))
            shape = "ShMany" if f.role == "Tup" else ("ShOne" if n == 1 else "ShNone")
            elems = []
            for j in range(n):
                loc = None
                if want is not None and rng.random() < 0.85:
                    loc = self.loc_of(want[j])
                cands = [(v, k) for v, k, s in self.all_locs() if any(u.is_sub(s.cls, t) for t in f.child_types)]
                if loc is None and cands and rng.random() < 0.65:
                    loc = rng.choice(cands)
                if loc is None:
                    free = [v for v in range(self.nvars) if v not in used]
                    if free:
                        empty = [v for v in free if self.vars[v] is None]
                        v = rng.choice(empty or free)
                        used.add(v)
                        ccls = want[j].cls if want is not None else rng.choice(u.subclasses_of(rng.choice(f.child_types)))
                        self.emit_new(v, ccls, depth + 1, recipe=want[j] if want is not None else None, avoid=used)
                        loc = (v, 0)
                    elif cands:
                        loc = rng.choice(cands)
                    else:
                        raise GenRetry()
                used.add(loc[0])
                elems.append(loc)
            if f.role == "Opt" and not elems:
                shape = "ShNone"
            if f.role == "Tup" and f.fixed and len(elems) != f.fixed:
                raise GenRetry()
            kid_terms.append(Con("K", f.name, Con(shape), [L(v, k) for v, k in elems]))
            kid_sh.append((f.name, shape, [self.vars[v].pre()[k] for v, k in elems]))
        self.ops.append(Con("New", dst, cname, origin, [Con("P", n, v) for n, v in props], kid_terms))
        self.vars[dst] = Sh(cname, origin, props, kid_sh)

    def gen_changes(self, sh, fail=None):
        """changes for a replace of the node with shadow sh: (terms, new shadow or None when the call must raise)"""
        rng, u = self.rng, self.u
        fields = u.merged(sh.cls)
        init_fields = [f for f in fields if f.init]
        pool = ["origin"] + [f.name for f in init_fields]
        chosen = rng.sample(pool, k=min(len(pool), rng.choice([1, 1, 2, 3])))
        terms = []
        origin, props, kids = sh.origin, list(sh.props), list(sh.kids)
        for name in chosen:
            if name == "origin":
                origin = rng.choice(ORIGINS if rng.random() < 0.5 else self.origins)
                terms.append(Con("Ch", "origin", Con("COrigin", origin)))
                continue
            f = next(f for f in fields if f.name == name)
            if f.role == "Prop":
                old = dict(props)[name]
                v = old if rng.random() < 0.3 else self.small_value(f)
                props = [(n, v if n == name else x) for n, x in props]
                terms.append(Con("Ch", name, Con("CProp", v)))
            else:
                cands = [(v, k, s) for v, k, s in self.all_locs() if any(u.is_sub(s.cls, t) for t in f.child_types)]
                if f.role == "Opt":
                    n = 1 if cands and rng.random() < 0.6 else 0
                elif f.role == "One":
                    n = 1
                else:
                    n = f.fixed or rng.choice([0, 1, 2])
                if n and not cands:
                    if f.role == "One" or f.fixed:
                        continue
                    n = 0
                el = [rng.choice(cands) for _ in range(n)]
                shape = "ShMany" if f.role == "Tup" else ("ShOne" if n == 1 else "ShNone")
                terms.append(Con("Ch", name, Con("CKids", Con(shape), [L(v, k) for v, k, _ in el])))
                kids = [(n_, shape, [s for _, _, s in el]) if n_ == name else (n_, s_, l_) for n_, s_, l_ in kids]
        if fail:
            noninit = [f.name for f in fields if not f.init] + ["id", "content_id"]
            if fail in ("value", "both"):
                nm = rng.choice(noninit)
                f = next((f for f in fields if f.name == nm), None)
                val = Con("CProp", self.small_value(f) if f is not None and f.role == "Prop" else Con("VStr", "forced"))
                terms.insert(rng.randrange(len(terms) + 1), Con("Ch", nm, val))
            if fail in ("type", "both"):
                terms.insert(rng.randrange(len(terms) + 1), Con("Ch", "nosuch_field", Con("CProp", Con("VInt", 1))))
            return terms, None
        return terms, Sh(sh.cls, origin, props, kids)

    def free_var(self, prefer_empty=0.6, avoid=()):
        rng = self.rng
        empty = [v for v in range(self.nvars) if self.vars[v] is None and v not in avoid]
        if empty and rng.random() < prefer_empty:
            return rng.choice(empty)
        c = [v for v in range(self.nvars) if v not in avoid]
        return rng.choice(c or list(range(self.nvars)))

    def emit_replace(self, kind, loc, dst, fail=None):
        v, k, sh = loc
        terms, nsh = self.gen_changes(sh, fail)
        self.ops.append(Con(kind, dst, L(v, k), terms))
        if nsh is not None:
            self.vars[dst] = nsh

    def step(self):
        rng = self.rng
        r = rng.random()
        loc = self.pick_loc()
        sizes = [(len(x.pre()), v) for v, x in enumerate(self.vars) if x is not None]
        if sum(n for n, _ in sizes) > 40 and rng.random() < 0.8:
            # keep the held forest (and with it the size of every observation) bounded: drop the biggest tree
            v = max(sizes)[1]
            self.ops.append(Con("Drop", v))
            self.vars[v] = None
            return
        if loc is None or r < 0.28:
            dst = self.free_var()
            twins = [s for _, _, s in self.all_locs()]
            if twins and rng.random() < 0.5:
                s = rng.choice(twins)
                self.emit_new(dst, s.cls, recipe=s)
            else:
                self.emit_new(dst, rng.choice(self.cnames))
        elif r < 0.37:
            dst = self.free_var()
            v, k, sh = loc
            self.ops.append(Con("Dup", dst, L(v, k)))
            self.vars[dst] = self.copy(sh)
        elif r < 0.50:
            self.emit_replace("Replace", loc, self.free_var(avoid=(loc[0],) if rng.random() < 0.8 else ()),
                              fail=rng.choice([None, None, None, "value", "type", "both"]))
        elif r < 0.58:
            self.emit_replace("DcReplace", loc, self.free_var(avoid=(loc[0],) if rng.random() < 0.8 else ()),
                              fail=rng.choice([None, None, None, "value", "type"]))
        elif r < 0.64:
            self.ops.append(Con("Detach", L(loc[0], loc[1])))
        elif r < 0.74:
            self.ops.append(Con("DetachSelf", L(loc[0], loc[1])))
        elif r < 0.83:
            v = loc[0]
            self.ops.append(Con("Drop", v))
            self.vars[v] = None
        elif r < 0.90:
            self.ops.append(Con("Read", L(loc[0], loc[1]), rng.randrange(READ_KINDS)))
        else:
            self.script(loc)

    def copy(self, sh):
        return Sh(sh.cls, sh.origin, list(sh.props), [(n, s, [self.copy(x) for x in l]) for n, s, l in sh.kids])

    def script(self, loc):
        rng = self.rng
        v, k, sh = loc
        which = rng.choice(["detach-twin-detach", "replace-detached", "drop-recreate"])
        if which == "detach-twin-detach":
            self.ops.append(Con(rng.choice(["DetachSelf", "DetachSelf", "Detach"]), L(v, k)))
            b = self.free_var(avoid=(v,))
            self.emit_new(b, sh.cls, recipe=sh, avoid=(v,))
            l2 = self.loc_of(sh)
            if l2 is None:
                return
            end = rng.choice(["DetachSelf", "Detach", "Replace", "ReplaceFail"])
            if end in ("DetachSelf", "Detach"):
                self.ops.append(Con(end, L(*l2)))
            else:
                self.emit_replace("Replace", (l2[0], l2[1], sh), self.free_var(avoid=(v, b)),
                                  fail=None if end == "Replace" else rng.choice(["value", "type"]))
        elif which == "replace-detached":
            self.ops.append(Con(rng.choice(["DetachSelf", "Detach"]), L(v, k)))
            self.emit_replace(rng.choice(["Replace", "Replace", "DcReplace"]), loc, self.free_var(avoid=(v,)),
                              fail=rng.choice([None, None, "value"]))
        else:
            root = self.vars[v]
            self.ops.append(Con("Drop", v))
            self.vars[v] = None
            self.emit_new(self.free_var(), root.cls, recipe=root)

    def run(self, n_ops):
        tries = 0
        while len(self.ops) < n_ops and tries < 4 * n_ops:
            tries += 1
            snap = (list(self.vars), len(self.ops))
            try:
                self.step()
            except GenRetry:
                self.vars = snap[0]
                del self.ops[snap[1]:]
        return self.ops[: self.max_ops + 8]


def gen_history(rng, u, tier, lo=4, hi=None):
    nvars = rng.randint(4, 8)
    max_ops = 12 if tier == "quick" else 60
    n_ops = rng.randint(min(lo, max_ops), hi or max_ops)
    g = HistGen(rng, u, nvars, max_ops)
    ops = g.run(n_ops)[:max_ops]
    return Con("Hist", u.term(), nvars, ops)


def gen_cases(rng, tier):
    from ..lib.term import to_text

    cases = []
    n_uni = 10 if tier == "quick" else 60
    per = 24 if tier == "quick" else 40
    for _ in range(n_uni):
        u = gen_universe(rng, n_roots=rng.choice([1, 2, 2]), max_levels=2, rich=rng.random() < 0.6)
        uj = universe_to_json(u)
        for j in range(per):
            if tier == "quick":
                t = gen_history(rng, u, tier)
            elif j == 0:
                # thorough: one short history per class family stays small enough for the in-kernel re-evaluation
                # (harness/main.py samples inputs below 6000 characters; the observations of long histories are
                # megabytes of text, which coqc cannot hold as string literals)
                t = gen_history(rng, u, tier, lo=4, hi=8)
            else:
                t = gen_history(rng, u, tier, lo=40, hi=60)
                if len(to_text(t)) < 6000:
                    continue
            cases.append({"kind": "history", "input": t, "digest_size": rng.choice([1, 1, 2, 8]), "opts": {"universe": uj}})
    return cases


# ------------------------------------------------------------------------------------------------ implementation
class Run:
    def __init__(self, u, nvars):
        self.u = u
        self.mod = u.load()
        self.vars = [None] * nvars
        self.seen = []        # (weakref, id string) in order of first sight
        self.seen_at = {}     # id(obj) -> index in seen
        self.kf = {}

    def kid_fields(self, cname):
        if cname not in self.kf:
            self.kf[cname] = [f for f in self.u.merged(cname) if f.role != "Prop"]
        return self.kf[cname]

    def kids(self, o):
        out = []
        for f in self.kid_fields(type(o).__name__):
            v = getattr(o, f.name)
            if v is None:
                continue
            if isinstance(v, tuple):
                out.extend(v)
            else:
                out.append(v)
        return out

    def walk(self, o):
        out = [o]
        for k in self.kids(o):
            out.extend(self.walk(k))
        return out

    def resolve(self, l):
        v, k = l.args
        if v >= len(self.vars) or self.vars[v] is None:
            return None
        p = self.walk(self.vars[v])
        return p[k] if k < len(p) else None

    def is_seen(self, o):
        i = self.seen_at.get(id(o))
        return i is not None and self.seen[i][0]() is o

    def desig_map(self):
        d = {}
        for v, r in enumerate(self.vars):
            if r is not None:
                for k, o in enumerate(self.walk(r)):
                    d.setdefault(id(o), (v, k))
        return d


def tdesig(d, o):
    if o is None:
        return Con("None")
    if id(o) in d:
        return Con("At", *d[id(o)])
    return Con("Unheld")


def tcell(run, d, o):
    cname = type(o).__name__
    ps, ks = [], []
    for f in run.u.merged(cname):
        v = getattr(o, f.name)
        if f.role == "Prop":
            ps.append(Con("P", f.name, from_py(v)))
        else:
            shape = "ShNone" if v is None else ("ShMany" if isinstance(v, tuple) else "ShOne")
            l = [] if v is None else (list(v) if isinstance(v, tuple) else [v])
            ks.append(Con("K", f.name, Con(shape), [tdesig(d, x) for x in l]))
    return Con("Nd", cname, obs_origin_struct(o.origin), ps, ks, o.id, o.content_id)


def snapshot(run):
    """every dataclass field, id, content_id and hash of every held node; holds no reference to a node"""
    import dataclasses

    from pyoak.node import ASTNode

    snap = {}
    for r in run.vars:
        if r is None:
            continue
        for o in run.walk(r):
            if id(o) in snap:
                continue
            vals = []
            for f in dataclasses.fields(o):
                v = getattr(o, f.name)
                if isinstance(v, ASTNode):
                    vals.append((f.name, "node", id(v)))
                elif isinstance(v, tuple) and any(isinstance(x, ASTNode) for x in v):
                    vals.append((f.name, "tuple", tuple(id(x) for x in v)))
                else:
                    vals.append((f.name, type(v).__name__, repr(v)))
            snap[id(o)] = (weakref.ref(o), (tuple(vals), o.id, o.content_id, hash(o)))
    return snap


def to_value(run, cv):
    """a change value -> Python value, or the marker _SKIP when a locator does not resolve"""
    from ..lib.universe import to_py

    if cv.name == "CProp":
        return to_py(cv.args[0], run.mod, run.u.enum_name)
    if cv.name == "COrigin":
        return mk_origin(cv.args[0])
    shape, ls = cv.args[0].name, cv.args[1]
    objs = [run.resolve(l) for l in ls]
    if any(o is None for o in objs):
        return _SKIP
    if shape == "ShNone":
        return None
    if shape == "ShOne":
        return objs[0]
    return tuple(objs)


_SKIP = object()


def do_read(run, x, kind):
    """read-only public calls; whatever they return is dropped"""
    import io

    from pyoak.node import ASTNode

    try:
        if kind == 0:
            list(x.dfs())
            list(x.dfs(bottom_up=True))
        elif kind == 1:
            list(x.bfs())
        elif kind == 2:
            t = x.to_tree()
            for ni in x.dfs():
                t.get_parent(ni.node), t.get_depth(ni.node), t.is_in_tree(ni.node), t.get_xpath(ni.node)
                list(t.get_ancestors(ni.node))
            t.is_root(x)
            del t
        elif kind == 3:
            list(x.findall("//" + type(x).__name__))
            x.find("/" + type(x).__name__)
        elif kind == 4:
            for y in run.vars:
                if y is not None:
                    try:
                        x == y, x != y
                    except ValueError:
                        pass
                    hash(y)
            hash(x)
        elif kind == 5:
            from rich.console import Console

            Console(file=io.StringIO(), width=100).print(x)
        elif kind == 6:
            x.as_dict()
            x.to_json()
        elif kind == 7:
            list(x.gather(ASTNode))
            x.is_equal(x)
            x.to_properties_dict()
            repr(x), str(x)
            list(x.get_properties()), list(x.get_child_nodes()), x.children
        elif kind == 8:
            from pyoak.visitor import ASTVisitor

            class V(ASTVisitor):
                def generic_visit(self, node):
                    return [self.visit(c) for c in node.get_child_nodes()]

            V().visit(x)
        else:
            from pyoak.match.pattern import NodeMatcher

            m, _ = NodeMatcher.from_pattern("(" + type(x).__name__ + ")")
            if m is not None:
                m.match(x)
            for ni in x.dfs():
                if m is not None:
                    m.match(ni.node)
    except Exception:  # noqa: a read-only call that raises changes nothing either; not this property's business
        pass


def exec_op(run, op):
    """executes one operation; returns (result term, extra term). No local reference survives the return."""
    import dataclasses

    name = op.name
    nv = len(run.vars)
    if name == "New":
        dst, cname, origin, ps, ks = op.args
        cname = cname.decode()
        from ..lib.universe import to_py

        kwargs = {}
        finit = {f.name: f.init for f in run.u.merged(cname)}
        for p in ps:
            n = p.args[0].decode()
            if finit[n]:
                kwargs[n] = to_py(p.args[1], run.mod, run.u.enum_name)
        for k in ks:
            v = to_value(run, Con("CKids", k.args[1], k.args[2]))
            if v is _SKIP:
                return Con("Skipped"), Con("XNone")
            kwargs[k.args[0].decode()] = v
        obj = getattr(run.mod, cname)(origin=mk_origin(origin), **kwargs)
        run.vars[dst] = obj
        return ("node", obj), Con("XNone")
    if name == "Dup":
        dst, l = op.args
        src = run.resolve(l)
        if src is None:
            return Con("Skipped"), Con("XNone")
        res = src.duplicate()
        all_new = all(not run.is_seen(o) for o in run.walk(res))
        try:
            eq = Some(bool(res == src))
        except ValueError:
            eq = None
        run.vars[dst] = res
        return ("node", res), Con("XDup", all_new, eq)
    if name in ("Replace", "DcReplace"):
        dst, l, ch = op.args
        src = run.resolve(l)
        if src is None:
            return Con("Skipped"), Con("XNone")
        kwargs = {}
        for c in ch:
            v = to_value(run, c.args[1])
            if v is _SKIP:
                return Con("Skipped"), Con("XNone")
            kwargs[c.args[0].decode()] = v
        try:
            res = src.replace(**kwargs) if name == "Replace" else dataclasses.replace(src, **kwargs)
        except ValueError:
            return Con("Raised", "ValueError"), Con("XNone")
        except TypeError:
            return Con("Raised", "TypeError"), Con("XNone")
        same = []
        if "origin" not in kwargs:
            same.append(["origin", res.origin is src.origin])
        for f in run.u.merged(type(src).__name__):
            if f.init and f.name not in kwargs:
                same.append([f.name, getattr(res, f.name) is getattr(src, f.name)])
        extra = Con("XRep", not run.is_seen(res), type(res) is type(src), same)
        run.vars[dst] = res
        return ("node", res), extra
    if name == "Detach":
        x = run.resolve(op.args[0])
        if x is None:
            return Con("Skipped"), Con("XNone")
        r = x.detach()
        return (Con("OkNone") if r is None else Con("OkOther")), Con("XNone")
    if name == "DetachSelf":
        x = run.resolve(op.args[0])
        if x is None:
            return Con("Skipped"), Con("XNone")
        r = x.detach_self()
        return (Con("OkBool", r) if isinstance(r, bool) else Con("OkOther")), Con("XNone")
    if name == "Drop":
        v = op.args[0]
        if v < nv:
            run.vars[v] = None
        return Con("OkNone"), Con("XNone")
    if name == "Read":
        x = run.resolve(op.args[0])
        if x is None:
            return Con("Skipped"), Con("XNone")
        do_read(run, x, op.args[1])
        return Con("OkNone"), Con("XNone")
    raise ValueError("unknown op " + name)


def observe(run, result, extra, before):
    from pyoak.node import ASTNode

    gc.collect()
    d = run.desig_map()
    if isinstance(result, tuple):
        result = Con("OkNode", tdesig(d, result[1]))
    classes = [getattr(run.mod, c.name) for c in run.u.classes] + [ASTNode]
    pervar = []
    for r in run.vars:
        if r is None:
            pervar.append(None)
            continue
        pos = [[o.id, tdesig(d, ASTNode.get_any(o.id))] for o in run.walk(r)]
        cl = [[tdesig(d, C.get(r.id)), tdesig(d, C.get(r.id, strict=False))] for C in classes]
        pervar.append(Con("Some", pos, cl))
    fresh = []
    for r in run.vars:
        if r is None:
            continue
        for o in run.walk(r):
            if not run.is_seen(o):
                run.seen_at[id(o)] = len(run.seen)
                run.seen.append((weakref.ref(o), o.id))
                fresh.append(tcell(run, d, o))
    seen = [[wr() is not None, tdesig(d, ASTNode.get_any(i))] for wr, i in run.seen]
    after = snapshot(run)
    frame_ok = all(after[k][1] == s for k, (wr, s) in before.items() if k in after and after[k][0]() is wr())
    hash_ok = all(s[3] == hash(s[1]) for _, s in after.values())
    return Con("Step", result, pervar, fresh, seen, extra, Con("Frame", frame_ok, hash_ok)), after


def frozen_obs(run):
    import dataclasses

    out = []
    for r in run.vars:
        if r is None:
            out.append(None)
            continue
        row = []
        for f in dataclasses.fields(r):
            try:
                setattr(r, f.name, getattr(r, f.name))
                s = False
            except (dataclasses.FrozenInstanceError, AttributeError, TypeError):
                s = True
            try:
                delattr(r, f.name)
                dl = False
            except (dataclasses.FrozenInstanceError, AttributeError, TypeError):
                dl = True
            row.append([f.name, s, dl])
        out.append(row)
    return out


def impl(t, case):
    from pyoak import config

    u = universe_from_json(case["opts"]["universe"])
    ops = t.args[2]
    old = config.ID_DIGEST_SIZE
    config.ID_DIGEST_SIZE = case.get("digest_size") or 8
    run = Run(u, t.args[1])
    try:
        gc.collect()
        steps = []
        before = {}
        for op in ops:
            result, extra = exec_op(run, op)
            st, before = observe(run, result, extra, before)
            del result
            steps.append(st)
        out = Con("Out", steps, frozen_obs(run))
    finally:
        config.ID_DIGEST_SIZE = old
        run.vars = []
        del run
        gc.collect()
    return out


# ------------------------------------------------------------------------------------------------ comparison
STEP_CLAUSES = ["result", "lookup", "new-node", "dropped-or-detached", "copy", "frame"]


def step_diffs(si, sm, which):
    out = []
    for idx in which:
        x, y = si.args[idx], sm.args[idx]
        if idx == 2 and which is C03_IDX:
            # C03 speaks about ids only: compare the id of every newly created node
            x = [n.args[4] if isinstance(n, Con) and n.name == "Nd" else n for n in x]
            y = [n.args[4] if isinstance(n, Con) and n.name == "Nd" else n for n in y]
        if x != y:
            out.append(STEP_CLAUSES[idx])
    return out


C03_IDX = (0, 1, 2, 3)


def compare_with(inp, impl_obs, model_obs, which, frozen=False):
    impl_obs, model_obs = canon(impl_obs), canon(model_obs)
    if impl_obs == model_obs:
        return []
    if not (isinstance(impl_obs, Con) and impl_obs.name == "Out" and isinstance(model_obs, Con) and model_obs.name == "Out"):
        return ["result"]
    a, b = impl_obs.args[0], model_obs.args[0]
    if len(a) != len(b):
        return ["length"]
    diffs = []
    for k, (si, sm) in enumerate(zip(a, b)):
        d = step_diffs(si, sm, which)
        if d:
            diffs += [f"step{k}:{x}" for x in d]
            break  # later steps follow from the first divergence
    if frozen and impl_obs.args[1] != model_obs.args[1]:
        diffs.append("frozen")
    return diffs


def compare(inp, impl_obs, model_obs):
    return compare_with(inp, impl_obs, model_obs, C03_IDX)


def nontrivial(inp, model_obs):
    if not (isinstance(model_obs, Con) and model_obs.name == "Out"):
        return False
    return sum(1 for s in model_obs.args[0] if s.args[0].name != "Skipped") >= 3


def spec_violation(inp, impl_obs, model_obs, diffs):
    # lookups, liveness, results of detach_self/replace are fixed by the property; only the spelling of a fresh
    # node's id (the digest preimage) is the model's own detail
    return any(not d.endswith(":new-node") for d in diffs)


def search(rng, tier):
    """The invariant evaluated on the implementation alone: a held, never detached node must be returned by get_any(id),
    nothing else may be, ids of held registered nodes are pairwise different."""
    from pyoak.node import ASTNode

    for _ in range(60 if tier == "quick" else 600):
        u = gen_universe(rng, n_roots=2, max_levels=2, rich=False)
        t = norm(gen_history(rng, u, tier))
        ds = rng.choice([1, 2, 8])
        from pyoak import config

        old = config.ID_DIGEST_SIZE
        config.ID_DIGEST_SIZE = ds
        run = Run(u, t.args[1])
        det = []  # weakrefs of nodes detached / replaced away
        try:
            for op in t.args[2]:
                tgt = run.resolve(op.args[0]) if op.name in ("Detach", "DetachSelf") else (
                    run.resolve(op.args[1]) if op.name == "Replace" else None)
                if tgt is not None:
                    nodes = run.walk(tgt) if op.name == "Detach" else [tgt]
                    det_new = [weakref.ref(o) for o in nodes]
                else:
                    det_new = []
                del tgt
                r, _ = exec_op(run, op)
                if not (op.name == "Replace" and isinstance(r, Con) and r.name in ("Raised", "Skipped")):
                    det += det_new
                del r
                gc.collect()
                dead = {id(w()) for w in det if w() is not None}
                ids = {}
                for root in run.vars:
                    if root is None:
                        continue
                    for o in run.walk(root):
                        got = ASTNode.get_any(o.id)
                        if id(o) not in dead and got is not o:
                            return {"input": repr(t)[:4000], "digest_size": ds, "opts": {"universe": universe_to_json(u)},
                                    "what": "a held, never detached node is not returned by get_any(id)"}
                        if id(o) in dead and got is o:
                            return {"input": repr(t)[:4000], "digest_size": ds, "opts": {"universe": universe_to_json(u)},
                                    "what": "a detached node is still returned"}
                        if got is o and ids.setdefault(o.id, id(o)) != id(o):
                            return {"input": repr(t)[:4000], "digest_size": ds, "opts": {"universe": universe_to_json(u)},
                                    "what": "two registered nodes share an id"}
        finally:
            config.ID_DIGEST_SIZE = old
            run.vars = []
    return None
