"""C03 - registry state machine (shared with C14 and C10).  One case = one whole history of public operations over
<= 8 variables; after EVERY operation everything the three properties speak about is observed on both sides."""
from __future__ import annotations

import gc
import weakref

from ..lib.term import Con, Some, canon, norm
from ..lib.universe import from_py, gen_universe, gen_value, universe_from_json, universe_to_json
from .c15 import P as _P, R as _R, SOURCES, mk_origin, obs_origin_struct, pt_of_index

# the extracted driver prints observations of several MB through non-tail-recursive list functions: give the
# processes started from here (the model driver is started by the worker after this module is imported) the hard
# stack limit instead of the 8 MB default
try:
    import resource as _resource

    _soft, _hard = _resource.getrlimit(_resource.RLIMIT_STACK)
    _resource.setrlimit(_resource.RLIMIT_STACK, (_hard, _hard))
except Exception:  # noqa
    pass

ID = "C03"
ENTRY = "C03"
RUNNER = "run_C03"
RUN_MODULES = ["Run.RunC03"]
RULE = ("random histories (<= 12 operations quick, <= 60 thorough) over 4-8 variables in a generated class family: construct "
        "(children taken from any position of any held tree, so trees share nodes), duplicate, dataclasses.replace and "
        "ASTNode.replace (succeeding; failing with a non-init key / an unknown key), detach, detach_self (also on inner and "
        "on already detached nodes), drop of a variable + gc, read-only calls, as_dict of a held (sub)tree into one of 3 value "
        "slots and Cls.as_obj of a slot into a variable (scenarios: everything alive - the very same objects must come back; "
        "the whole tree dropped first - a fresh process; partly alive - the parent dropped / detach_self'ed / replaced / "
        "detached while its children are held by other variables, biased to children that are NO instance of the first member "
        "of a union-typed child field; twins and suffixed ids; results of as_obj at digest sizes below 8 are opaque to the "
        "generator and only used by class-independent operations); biased to content-identical twins and to the "
        "scripts detach->twin->detach/replace, replace of a detached node, drop->re-create; ID_DIGEST_SIZE in {1,2,8}. "
        "About 60% of the class families validate in their own __post_init__ AFTER super().__post_init__() (a rejected value of "
        "an int/str property - usually an added non-comparable keyword-only one, so that a replace() setting only it builds the "
        "replacement under the original's own id - or an id ending in _1/_2), raising per rule one of ValueError, TypeError, "
        "RuntimeError, KeyError, AssertionError or a user-defined Exception subclass: constructor, dataclasses.replace, replace(), "
        "duplicate() (half-way) and as_obj then raise with the new node(s) already registered. "
        "After every operation: result (ids exactly), for every node of every held tree id and get_any(id), for every held "
        "root Cls.get(id) strict/non-strict for every class of the family and ASTNode, for every node ever seen whether its "
        "weakref is alive and what get_any(old id) returns, for as_obj position by position whether the result is an object "
        "seen before (the live original) or a new one. non-trivial = at least 3 operations took effect; distinct = "
        "distinct input terms")
TRUSTED_BASE = [
    "model coq/Model/Registry.v hand-written from node.py (NODE_REGISTRY, _get_next_unique_id, __post_init__, get/get_any, "
    "detach/detach_self/replace, duplicate) and dataclasses.replace; tie = this correspondence run",
    "weak registry = reachability from the harness's variables (CPython reference counting + WeakValueDictionary are assumed, "
    "and observed through weakrefs after del + gc.collect())",
    "digest preimages from coq/Model/Encode.v; blake2b supplied by hashlib at the case's digest size",
]
ASSUMPTIONS = [
    "class identity is the class name; RUNTIME_TYPE_CHECK is off (pyoak default), child fields are init fields",
    "non-init fields always hold their declared default",
    "as_dict/as_obj: the dict is an opaque value between the two calls (its JSON form and the fidelity of property values are "
    "C04's); the class as_obj is called on is the class of the serialized root; a value slot holds no reference to a node",
    "validating classes call super().__post_init__() first and raise afterwards (any Exception subclass, none derived from "
    "BaseException directly); every class along the MRO cooperates; every late failure is the model's single outcome Raised",
]

ORIGINS = [
    Con("ONo"),
    Con("OCode", SOURCES[1], _R(pt_of_index(0), pt_of_index(2))),
    Con("OCode", SOURCES[1], _R(pt_of_index(3), pt_of_index(5))),
    Con("OGen", SOURCES[2]),   # (not SOURCES[3]: it EQUALS SOURCES[1] with another text, and a deserialized origin refers to
                               #  whichever equal source the process registered first - C04's business, not this property's)
    Con("OXml", SOURCES[4], b"/a/b"),
]
READ_KINDS = 14


# ------------------------------------------------------------------------------------------------ histories, validators
def hist_parts(t):
    """(class table, validation rules, number of variables, operations) of a (Hist ..) / (HistV ..) term"""
    if t.name == "HistV":
        return t.args[0], t.args[1], t.args[2], t.args[3]
    return t.args[0], [], t.args[1], t.args[2]


def mk_hist(ct, rules, nvars, ops):
    return Con("HistV", ct, rules, nvars, ops) if rules else Con("Hist", ct, nvars, ops)


def _s(x):
    return x.decode() if isinstance(x, (bytes, bytearray)) else x


def rules_to_json(rules):
    from ..lib.term import to_text

    return [to_text(r) for r in rules]


def rules_from_json(js):
    from ..lib.term import from_text

    return [norm(from_text(x)) for x in js or []]


def add_validated_field(rng, u):
    """gives one class of the family (and so its subclasses) a non-comparable keyword-only init property `vnote` with a
    default, and returns the rule rejecting one value of it: a replace() that only sets `vnote` to that value builds a
    node with the ORIGINAL's id (detach_self has just freed it) before its class rejects it"""
    from ..lib.universe import FieldSpec

    mixins = {m for c in u.classes for m in c.mixins}
    cands = [c for c in u.classes if c.name not in mixins]
    if not cands or any(f.name == "vnote" for c in u.classes for f in c.own):
        return None
    c = rng.choice([x for x in cands if x.base is None] or cands)
    if rng.random() < 0.5:
        f = FieldSpec("vnote", "Prop", compare=False, init=True, kw_only=True, ptype="str", default=Con("VStr", ""), has_default=True)
        bad = Con("VStr", rng.choice(["a", "test"]))
    else:
        f = FieldSpec("vnote", "Prop", compare=False, init=True, kw_only=True, ptype="int", default=Con("VInt", 0), has_default=True)
        bad = Con("VInt", rng.choice([1, 2]))
    c.own.append(f)
    return norm(Con("VReject", c.name, "vnote", bad))


def gen_rules(rng, u):
    """validations performed by generated classes in their own __post_init__, AFTER super().__post_init__() (so the node
    has its id and is registered when ValueError leaves): reject one value of one int/str init property (preferably
    a non-comparable one: a replace() that only sets it keeps the id), or reject ids ending in a collision suffix"""
    rules = []
    cands = []
    for c in u.classes:
        for f in u.merged(c.name):
            if f.role == "Prop" and f.init and f.ptype in ("int", "str"):
                cands.append((c.name, f))
    noncmp = [x for x in cands if not x[1].compare]
    for _ in range(rng.choice([1, 1, 2])):
        pool = noncmp if noncmp and rng.random() < 0.7 else cands
        if not pool:
            break
        cname, f = rng.choice(pool)
        v = Con("VInt", rng.choice([0, 1, 2])) if f.ptype == "int" else Con("VStr", rng.choice(["", "a", "test"]))
        rules.append(Con("VReject", cname, f.name, v))
    if rng.random() < 0.35 or not rules:
        rules.append(Con("VIdSuffix", rng.choice(u.classes).name, rng.choice(["_1", "_2", "_2"])))
    return [norm(r) for r in rules]


# what a validating __post_init__ raises: the property speaks of "a replace() that raises", whatever is raised - the
# library may not assume the exception class of a user subclass's validation.  BaseException-derived classes are not used.
LATE_EXCS = ["ValueError", "TypeError", "RuntimeError", "KeyError", "AssertionError", "VerifRejected"]
LATE_MARK = "verif-late-rejection"


class VerifRejected(Exception):
    """a user-defined exception class (the generated modules define their own class of this name)"""


def gen_excs(rng, rules):
    """one exception class per rule, chosen by the generator"""
    return [rng.choice(LATE_EXCS) for _ in rules]


def default_excs(rules):
    """cases written before the exception classes were generated (corpus): a fixed, rule-dependent choice"""
    import zlib

    from ..lib.term import to_text

    return [LATE_EXCS[zlib.crc32(to_text(r).encode()) % len(LATE_EXCS)] for r in rules]


def is_late(e):
    """the exception was raised by an injected validator (after the node had been registered)"""
    return bool(getattr(e, "args", None)) and e.args[0] == LATE_MARK


def inject_validators(u, src, rules, excs=None):
    """adds `def __post_init__(self): super(C, self).__post_init__(); <checks>; raise <Exc>` to the classes named
    by the rules (subclasses inherit it; cooperative super() so every rule along the MRO applies); the exception class
    is chosen per rule (ValueError, TypeError, RuntimeError, KeyError, AssertionError, a user-defined Exception subclass)"""
    excs = list(excs) if excs else default_excs(rules)
    by_cls = {}
    for r, e in zip(rules, excs):
        by_cls.setdefault(_s(r.args[0]), []).append((r, e))
    lines = ["class VerifRejected(Exception):", "    pass", ""] + src.split("\n")
    if lines[3].startswith("from __future__"):
        lines = [lines[3]] + lines[:3] + lines[4:]
    out = []
    i = 0
    while i < len(lines):
        ln = lines[i]
        out.append(ln)
        i += 1
        if ln.startswith("class ") and "(" in ln:
            cname = ln[len("class "):ln.index("(")]
            if cname not in by_cls:
                continue
            while i < len(lines) and lines[i] != "":
                out.append(lines[i])
                i += 1
            out.append("    def __post_init__(self):")
            out.append(f"        super({cname}, self).__post_init__()")
            for r, exc in by_cls[cname]:
                if r.name == "VReject":
                    fn, v = _s(r.args[1]), r.args[2]
                    if v.name == "VInt":
                        cond = f"type(self.{fn}) is int and self.{fn} == {int(v.args[0])}"
                    else:
                        cond = f"type(self.{fn}) is str and self.{fn} == {_s(v.args[0])!r}"
                else:
                    cond = f"self.id.endswith({_s(r.args[1])!r})"
                out.append(f"        if {cond}:")
                out.append(f"            raise {exc}({LATE_MARK!r}, 'rejected by {cname}')")
    return "\n".join(out)


def load_universe(u, rules, excs=None):
    """u.load() with the validators injected into the generated source (a universe is always loaded with the same rules
    and exception classes: they are generated once per class family)"""
    if not rules:
        return u.load()
    excs = list(excs) if excs else default_excs(rules)
    if u.module is None:
        import sys
        import types

        m = types.ModuleType(f"verif_universe_{u.uid}")
        sys.modules[m.__name__] = m
        exec(compile(inject_validators(u, u.source(), rules, excs), m.__name__, "exec", dont_inherit=True), m.__dict__)
        u.module = m
        u._c03_rules = (list(rules), excs)
    assert getattr(u, "_c03_rules", None) == (list(rules), excs), "universe loaded twice with different validators"
    return u.module


# ------------------------------------------------------------------------------------------------ generator
class Sh:
    """shadow of a node: just enough structure to generate well-formed operations"""
    __slots__ = ("cls", "origin", "props", "kids")

    def __init__(self, cls, origin, props, kids):
        self.cls, self.origin, self.props, self.kids = cls, origin, props, kids  # kids: [(fname, shape, [Sh])]

    def pre(self):
        out = [self]
        for _, _, l in self.kids:
            for k in l:
                out.extend(k.pre())
        return out


class GenRetry(Exception):
    pass


def L(v, k):
    return Con("L", v, k)


OPAQUE = "opaque"   # shadow of a slot / marker: content unknown to the generator


class HistGen:
    def __init__(self, rng, u, nvars, max_ops, rules=(), ds=8):
        self.rng, self.u, self.nvars, self.max_ops = rng, u, nvars, max_ops
        self.rules = list(rules)
        self.ds = ds          # digest size of the case: below 8 bytes ids collide, and what as_obj hands back for a
                              # registered id may be a node of another class - its result is then opaque to the generator
        self.slots = {}       # slot -> shadow of the serialized tree, or OPAQUE
        self.opaque = set()   # variables whose content the generator does not know (shadow None; possibly empty)
        self.maybe = set()   # variables believed to hold self.vars[v] but possibly empty (an id-suffix rule may have fired)
        self.vars = [None] * nvars
        self.ops = []
        self.origins = rng.sample(ORIGINS, 2) if rng.random() < 0.7 else list(ORIGINS)
        self.cnames = [c.name for c in u.classes]

    # ----- shadow helpers
    def all_locs(self):
        out = []
        for v, r in enumerate(self.vars):
            if r is not None:
                for k, s in enumerate(r.pre()):
                    out.append((v, k, s))
        return out

    def loc_of(self, sh):
        for v, k, s in self.all_locs():
            if s is sh:
                return (v, k)
        return None

    def pick_loc(self, inner=0.3):
        held = [v for v, r in enumerate(self.vars) if r is not None]
        if not held:
            return None
        v = self.rng.choice(held)
        p = self.vars[v].pre()
        k = self.rng.randrange(len(p)) if self.rng.random() < inner else 0
        return (v, k, p[k])

    def gen_props(self, cname):
        ps = []
        for f in self.u.merged(cname):
            if f.role != "Prop":
                continue
            if not f.init:
                v = f.default
            elif f.has_default and self.rng.random() < 0.3:
                v = f.default
            else:
                v = self.small_value(f)
            ps.append((f.name, v))
        return ps

    def small_value(self, f):
        rng = self.rng
        if f.ptype == "int":
            return Con("VInt", rng.choice([0, 1, 2]))
        if f.ptype == "str":
            return Con("VStr", rng.choice(["", "a", "test", "L3C2089KVA"]))
        return gen_value(rng, f.ptype, self.u.enum_name)

    # ----- validators
    def rejects(self, cname, props):
        """True: a VReject rule fires for (class, property values); None: an id-suffix rule applies (unpredictable)"""
        pd = dict(props)
        maybe = False
        for r in self.rules:
            if not self.u.is_sub(cname, _s(r.args[0])):
                continue
            if r.name == "VReject":
                if pd.get(_s(r.args[1])) == r.args[2]:
                    return True
            else:
                maybe = True
        return None if maybe else False

    def tree_rejects(self, sh):
        rs = [self.rejects(x.cls, x.props) for x in sh.pre()]
        return True if any(r is True for r in rs) else (None if any(r is None for r in rs) else False)

    def push(self, op, dst, sh, verdict):
        """appends an operation whose result goes to variable dst: verdict False = it returns the node with shadow sh,
        True = its class rejects it (dst keeps what it holds), None = unpredictable (id-suffix rule).  An operation is
        also unpredictable when one of its operands sits in a maybe-empty variable (then it is Skipped on both sides).
        Invariant kept: a variable holds what the generator believes, or - when listed in self.maybe - possibly nothing;
        never a node of another class.  For that an unpredictable operation only writes into an empty variable."""
        if verdict is True:
            self.ops.append(op)
            return
        used = set()

        def walk(x):
            if isinstance(x, Con):
                if x.name == "L":
                    used.add(x.args[0])
                for a in x.args:
                    walk(a)
            elif isinstance(x, (list, tuple)):
                for a in x:
                    walk(a)

        walk(op)
        if verdict is None or any(v in self.maybe for v in used):
            if dst in used:
                raise GenRetry()
            if self.vars[dst] is not None or dst in self.maybe or dst in self.opaque:
                self.ops.append(Con("Drop", dst))
            self.ops.append(op)
            self.vars[dst] = sh
            self.maybe.add(dst)
            self.opaque.discard(dst)
        else:
            self.ops.append(op)
            self.vars[dst] = sh
            self.maybe.discard(dst)
            self.opaque.discard(dst)

    def drop(self, v):
        self.ops.append(Con("Drop", v))
        self.vars[v] = None
        self.maybe.discard(v)
        self.opaque.discard(v)

    # ----- as_dict / as_obj
    def emit_opaque(self, op, dst):
        """an operation whose result the generator cannot predict (class, shape, or whether it returns at all): it writes
        into an emptied variable, which from then on is only used by class-independent operations"""
        if len(self.opaque) >= 2 and dst not in self.opaque:
            self.drop(self.rng.choice(sorted(self.opaque)))
        if self.vars[dst] is not None or dst in self.maybe or dst in self.opaque:
            self.ops.append(Con("Drop", dst))
        self.vars[dst] = None
        self.maybe.discard(dst)
        self.ops.append(op)
        self.opaque.add(dst)

    def emit_asdict(self, loc, slot):
        v, k, sh = loc
        self.ops.append(Con("AsDict", L(v, k), slot))
        self.slots[slot] = self.copy(sh) if (self.ds >= 8 and sh is not None and v not in self.maybe) else OPAQUE

    def emit_asobj(self, slot, dst=None):
        sh = self.slots.get(slot, OPAQUE)
        dst = self.free_var() if dst is None else dst
        op = Con("AsObj", slot, dst)
        if sh is OPAQUE:
            self.emit_opaque(op, dst)
        else:
            # every node of the value passed its class's validation once; an id-suffix rule may still fire (fresh ids)
            self.push(op, dst, self.copy(sh), None if self.tree_rejects(sh) is not False else False)

    def opaque_op(self):
        rng = self.rng
        v = rng.choice(sorted(self.opaque))
        k = rng.choice([0, 0, 0, 1, 2])
        r = rng.random()
        if r < 0.2:
            self.drop(v)
        elif r < 0.45:
            self.ops.append(Con(rng.choice(["DetachSelf", "DetachSelf", "Detach"]), L(v, k)))
        elif r < 0.55:
            self.ops.append(Con("Read", L(v, k), rng.randrange(READ_KINDS)))
        elif r < 0.72:
            self.ops.append(Con("AsDict", L(v, k), rng.randrange(3)))
            self.slots[self.ops[-1].args[1]] = OPAQUE
        elif r < 0.82:
            dst = self.free_var(avoid=(v,))
            if dst != v:
                self.emit_opaque(Con("Dup", dst, L(v, 0)), dst)
        else:
            dst = self.free_var(avoid=(v,))
            if dst == v:
                return
            ch = rng.choice([[Con("Ch", "origin", Con("COrigin", rng.choice(ORIGINS)))],
                             [Con("Ch", "origin", Con("COrigin", rng.choice(ORIGINS)))],
                             [Con("Ch", "nosuch_field", Con("CProp", Con("VInt", 1)))],
                             [Con("Ch", "id", Con("CProp", Con("VStr", "forced")))]])
            self.emit_opaque(Con(rng.choice(["Replace", "Replace", "DcReplace"]), dst, L(v, k), ch), dst)

    def ser_step(self):
        rng = self.rng
        k = rng.random()
        filled = sorted(self.slots)
        if self.opaque and k < 0.2:
            return self.opaque_op()
        if filled and k < 0.4:
            return self.emit_asobj(rng.choice(filled))
        if k < 0.5:
            loc = self.pick_loc(inner=0.3)
            if loc is not None:
                self.emit_asdict(loc, rng.randrange(3))
            return
        self.ser_script()

    def ser_script(self):
        """the scenarios of the property: as_obj while everything is alive (the very same objects must come back), after
        the whole tree was dropped (a fresh process), and while only a part is alive / registered - the parent dropped,
        detached or replaced, its children still held by other variables; biased to children whose class is NOT (a
        subclass of) the first member of a union-typed child field"""
        rng, u = self.rng, self.u
        which = rng.choice(["alive", "fresh", "partly", "partly", "union", "union", "union", "twin", "twin"])
        slot = rng.randrange(3)
        if which == "twin":
            # the SECOND of two identical trees over the same (still held) children is written, both parents are dropped
            # and the value is read back: its serialized id carries a collision suffix that is free again, so the forced-id
            # branch of _deserialize runs while live descendants exist (seeded change C10-8)
            cands = [c for c in self.cnames if any(f.role != "Prop" for f in u.merged(c))]
            if not cands:
                return
            dst0 = self.free_var()
            self.emit_new(dst0, rng.choice(cands), want_kids=True)
            if self.vars[dst0] is None or dst0 in self.maybe:
                return
            dst1 = self.free_var(avoid=(dst0,))
            self.emit_new(dst1, self.vars[dst0].cls, recipe=self.vars[dst0], avoid=(dst0,))
            if self.vars[dst1] is None or dst1 in self.maybe:
                return
            self.emit_asdict((dst1, 0, self.vars[dst1]), slot)
            self.drop(dst0)
            self.drop(dst1)
            self.emit_asobj(slot, dst=self.free_var())
            return
        if which in ("alive", "fresh"):
            loc = self.pick_loc(inner=0.2)
            if loc is None:
                return
            v, k, sh = loc
            self.emit_asdict(loc, slot)
            if which == "fresh":
                mine = {id(x) for x in sh.pre()}
                self.drop(v)
                if rng.random() < 0.6:
                    for w in range(self.nvars):
                        if self.vars[w] is not None and any(id(x) in mine for x in self.vars[w].pre()):
                            self.drop(w)
            self.emit_asobj(slot)
            return
        cands = [c for c in self.cnames if any(f.role != "Prop" for f in u.merged(c))]
        if which == "union":
            cands = [c for c in cands if any(f.role != "Prop" and len(f.child_types) > 1 for f in u.merged(c))] or cands
        if not cands:
            return
        dst0 = self.free_var()
        self.emit_new(dst0, rng.choice(cands), want_kids=True, second=(which == "union"))
        if self.vars[dst0] is None or dst0 in self.maybe:
            return
        self.emit_asdict((dst0, 0, self.vars[dst0]), slot)
        how = rng.choice(["drop", "drop", "detach_self", "detach_self", "replace", "detach"])
        if how == "drop":
            self.drop(dst0)
        elif how == "replace":
            self.emit_replace("Replace", (dst0, 0, self.vars[dst0]), self.free_var(avoid=(dst0,)))
        else:
            self.ops.append(Con("DetachSelf" if how == "detach_self" else "Detach", L(dst0, 0)))
        self.emit_asobj(slot, dst=self.free_var(avoid=(dst0,)))

    def reject_rule_for(self, cname):
        rs = [r for r in self.rules if r.name == "VReject" and self.u.is_sub(cname, _s(r.args[0]))]
        fields = {f.name: f for f in self.u.merged(cname)}
        rs = [r for r in rs if _s(r.args[1]) in fields and fields[_s(r.args[1])].role == "Prop" and fields[_s(r.args[1])].init]
        return self.rng.choice(rs) if rs else None

    # ----- operations
    def emit_new(self, dst, cname, depth=0, recipe=None, avoid=(), late=False, want_kids=False, second=False):
        rng, u = self.rng, self.u
        if len(self.ops) > self.max_ops + 8:
            raise GenRetry()
        origin = recipe.origin if recipe is not None else rng.choice(self.origins)
        props = list(recipe.props) if recipe is not None else self.gen_props(cname)
        if late:
            r = self.reject_rule_for(cname)
            if r is not None:
                props = [(n, r.args[2] if n == _s(r.args[1]) else v) for n, v in props]
        used = set(avoid) | {dst}
        kid_terms, kid_sh = [], []
        rk = {n: l for n, _, l in recipe.kids} if recipe is not None else {}
        for f in u.merged(cname):
            if f.role == "Prop":
                continue
            want = rk.get(f.name)
            if want is not None:
                n = len(want)
            elif f.role == "Opt":
                n = 0 if depth >= 2 or rng.random() < (0.1 if want_kids else 0.4) else 1
            elif f.role == "One":
                n = 1
            else:
                n = f.fixed or (0 if depth >= 2 else rng.choice([1, 2, 2] if want_kids else [0, 1, 2, 2, 3]))
            shape = "ShMany" if f.role == "Tup" else ("ShOne" if n == 1 else "ShNone")
            elems = []
            for j in range(n):
                loc = None
                if want is not None and rng.random() < 0.85:
                    loc = self.loc_of(want[j])
                cands = [(v, k) for v, k, s in self.all_locs() if any(u.is_sub(s.cls, t) for t in f.child_types)]
                others = []
                if second and len(f.child_types) > 1:
                    # children that are no instance of the FIRST member of the union
                    c2 = [(v, k) for v, k, s in self.all_locs() if any(u.is_sub(s.cls, t) for t in f.child_types[1:])
                          and not u.is_sub(s.cls, f.child_types[0])]
                    cands = c2 or cands
                    others = [c for t in f.child_types[1:] for c in u.subclasses_of(t) if not u.is_sub(c, f.child_types[0])]
                if loc is None and cands and rng.random() < (0.4 if others else 0.65):
                    loc = rng.choice(cands)
                if loc is None:
                    free = [v for v in range(self.nvars) if v not in used]
                    if free:
                        empty = [v for v in free if self.vars[v] is None]
                        v = rng.choice(empty or free)
                        used.add(v)
                        ccls = want[j].cls if want is not None else (
                            rng.choice(others) if others else rng.choice(u.subclasses_of(rng.choice(f.child_types))))
                        self.emit_new(v, ccls, depth + 1, recipe=want[j] if want is not None else None, avoid=used)
                        if self.vars[v] is None:
                            raise GenRetry()   # the child was (or may have been) rejected by its class
                        loc = (v, 0)
                    elif cands:
                        loc = rng.choice(cands)
                    else:
                        raise GenRetry()
                used.add(loc[0])
                elems.append(loc)
            if f.role == "Opt" and not elems:
                shape = "ShNone"
            if f.role == "Tup" and f.fixed and len(elems) != f.fixed:
                raise GenRetry()
            kid_terms.append(Con("K", f.name, Con(shape), [L(v, k) for v, k in elems]))
            kid_sh.append((f.name, shape, [self.vars[v].pre()[k] for v, k in elems]))
        self.push(Con("New", dst, cname, origin, [Con("P", n, v) for n, v in props], kid_terms),
                  dst, Sh(cname, origin, props, kid_sh), self.rejects(cname, props))

    def gen_changes(self, sh, fail=None):
        """changes for a replace of the node with shadow sh: (terms, new shadow or None when the call must raise)"""
        rng, u = self.rng, self.u
        fields = u.merged(sh.cls)
        init_fields = [f for f in fields if f.init]
        pool = ["origin"] + [f.name for f in init_fields]
        chosen = rng.sample(pool, k=min(len(pool), rng.choice([1, 1, 2, 3])))
        terms = []
        origin, props, kids = sh.origin, list(sh.props), list(sh.kids)
        for name in chosen:
            if name == "origin":
                origin = rng.choice(ORIGINS if rng.random() < 0.5 else self.origins)
                terms.append(Con("Ch", "origin", Con("COrigin", origin)))
                continue
            f = next(f for f in fields if f.name == name)
            if f.role == "Prop":
                old = dict(props)[name]
                v = old if rng.random() < 0.3 else self.small_value(f)
                props = [(n, v if n == name else x) for n, x in props]
                terms.append(Con("Ch", name, Con("CProp", v)))
            else:
                cands = [(v, k, s) for v, k, s in self.all_locs() if any(u.is_sub(s.cls, t) for t in f.child_types)]
                if f.role == "Opt":
                    n = 1 if cands and rng.random() < 0.6 else 0
                elif f.role == "One":
                    n = 1
                else:
                    n = f.fixed or rng.choice([0, 1, 2])
                if n and not cands:
                    if f.role == "One" or f.fixed:
                        continue
                    n = 0
                el = [rng.choice(cands) for _ in range(n)]
                shape = "ShMany" if f.role == "Tup" else ("ShOne" if n == 1 else "ShNone")
                terms.append(Con("Ch", name, Con("CKids", Con(shape), [L(v, k) for v, k, _ in el])))
                kids = [(n_, shape, [s for _, _, s in el]) if n_ == name else (n_, s_, l_) for n_, s_, l_ in kids]
        if fail == "late":
            r = self.reject_rule_for(sh.cls)
            if r is None:
                return terms, Sh(sh.cls, origin, props, kids)
            nm = _s(r.args[1])
            if rng.random() < 0.6:
                # only the rejected value (and nothing else that takes part in the id, when the field is non-comparable)
                terms = [t for t in terms if _s(t.args[0]) == "origin" and rng.random() < 0.2]
                origin, props, kids = (origin if terms else sh.origin), list(sh.props), list(sh.kids)
            terms = [t for t in terms if _s(t.args[0]) != nm]
            terms.insert(rng.randrange(len(terms) + 1), Con("Ch", nm, Con("CProp", r.args[2])))
            props = [(n, r.args[2] if n == nm else x) for n, x in props]
            return terms, Sh(sh.cls, origin, props, kids)
        if fail:
            noninit = [f.name for f in fields if not f.init] + ["id", "content_id"]
            if fail in ("value", "both"):
                nm = rng.choice(noninit)
                f = next((f for f in fields if f.name == nm), None)
                val = Con("CProp", self.small_value(f) if f is not None and f.role == "Prop" else Con("VStr", "forced"))
                terms.insert(rng.randrange(len(terms) + 1), Con("Ch", nm, val))
            if fail in ("type", "both"):
                terms.insert(rng.randrange(len(terms) + 1), Con("Ch", "nosuch_field", Con("CProp", Con("VInt", 1))))
            return terms, None
        return terms, Sh(sh.cls, origin, props, kids)

    def free_var(self, prefer_empty=0.6, avoid=()):
        rng = self.rng
        empty = [v for v in range(self.nvars) if self.vars[v] is None and v not in avoid]
        if empty and rng.random() < prefer_empty:
            return rng.choice(empty)
        c = [v for v in range(self.nvars) if v not in avoid]
        return rng.choice(c or list(range(self.nvars)))

    def emit_replace(self, kind, loc, dst, fail=None):
        v, k, sh = loc
        terms, nsh = self.gen_changes(sh, fail)
        if nsh is not None:
            self.push(Con(kind, dst, L(v, k), terms), dst, nsh, self.rejects(nsh.cls, nsh.props))
        else:
            self.ops.append(Con(kind, dst, L(v, k), terms))

    def step(self):
        rng = self.rng
        r = rng.random()
        loc = self.pick_loc()
        sizes = [(len(x.pre()), v) for v, x in enumerate(self.vars) if x is not None]
        if sum(n for n, _ in sizes) > 40 and rng.random() < 0.8:
            # keep the held forest (and with it the size of every observation) bounded: drop the biggest tree
            v = max(sizes)[1]
            self.drop(v)
            return
        if rng.random() < 0.25:
            self.ser_step()
            return
        if self.rules and loc is not None and rng.random() < 0.3:
            # a construction rejected by its class AFTER registration: replace / dataclasses.replace / constructor /
            # duplicate (id-suffix rules: the copy of a registered node carries a collision suffix)
            ruled = [x for x in self.all_locs() if self.reject_rule_for(x[2].cls) is not None]
            if ruled and rng.random() < 0.85:
                loc = rng.choice(ruled)
            sfx = [r for r in self.rules if r.name == "VIdSuffix"]
            k = rng.random()
            if sfx and k < 0.35:
                r = rng.choice(sfx)
                under = [x for x in self.all_locs() if any(self.u.is_sub(y.cls, _s(r.args[0])) for y in x[2].pre())]
                if under:
                    v, kk, sh = rng.choice(under)
                    if _s(r.args[1]) == "_2" and rng.random() < 0.7:
                        tw = [y for y in sh.pre() if self.u.is_sub(y.cls, _s(r.args[0]))]
                        self.emit_new(self.free_var(avoid=(v,)), tw[0].cls, recipe=tw[0], avoid=(v,))
                        l2 = self.loc_of(sh)
                        if l2 is None:
                            return
                        v, kk = l2
                    dst = self.free_var(avoid=(v,))
                    self.push(Con("Dup", dst, L(v, kk)), dst, self.copy(sh), self.tree_rejects(sh))
                    return
            if k < 0.55:
                self.emit_replace("Replace", loc, self.free_var(avoid=(loc[0],) if rng.random() < 0.8 else ()), fail="late")
            elif k < 0.75:
                self.emit_replace("DcReplace", loc, self.free_var(avoid=(loc[0],) if rng.random() < 0.8 else ()), fail="late")
            else:
                cl = [c for c in self.cnames if self.reject_rule_for(c) is not None]
                self.emit_new(self.free_var(), rng.choice(cl or self.cnames), late=True)
            return
        if loc is None or r < 0.28:
            dst = self.free_var()
            twins = [s for _, _, s in self.all_locs()]
            if twins and rng.random() < 0.5:
                s = rng.choice(twins)
                self.emit_new(dst, s.cls, recipe=s)
            else:
                self.emit_new(dst, rng.choice(self.cnames))
        elif r < 0.37:
            dst = self.free_var()
            v, k, sh = loc
            self.push(Con("Dup", dst, L(v, k)), dst, self.copy(sh), self.tree_rejects(sh))
        elif r < 0.50:
            self.emit_replace("Replace", loc, self.free_var(avoid=(loc[0],) if rng.random() < 0.8 else ()),
                              fail=rng.choice([None, None, None, "value", "type", "both"]))
        elif r < 0.58:
            self.emit_replace("DcReplace", loc, self.free_var(avoid=(loc[0],) if rng.random() < 0.8 else ()),
                              fail=rng.choice([None, None, None, "value", "type"]))
        elif r < 0.64:
            self.ops.append(Con("Detach", L(loc[0], loc[1])))
        elif r < 0.74:
            self.ops.append(Con("DetachSelf", L(loc[0], loc[1])))
        elif r < 0.83:
            self.drop(loc[0])
        elif r < 0.90:
            self.ops.append(Con("Read", L(loc[0], loc[1]), rng.randrange(READ_KINDS)))
        else:
            self.script(loc)

    def copy(self, sh):
        return Sh(sh.cls, sh.origin, list(sh.props), [(n, s, [self.copy(x) for x in l]) for n, s, l in sh.kids])

    def script(self, loc):
        rng = self.rng
        v, k, sh = loc
        which = rng.choice(["detach-twin-detach", "replace-detached", "drop-recreate"])
        if which == "detach-twin-detach":
            self.ops.append(Con(rng.choice(["DetachSelf", "DetachSelf", "Detach"]), L(v, k)))
            b = self.free_var(avoid=(v,))
            self.emit_new(b, sh.cls, recipe=sh, avoid=(v,))
            l2 = self.loc_of(sh)
            if l2 is None:
                return
            end = rng.choice(["DetachSelf", "Detach", "Replace", "ReplaceFail"])
            if end in ("DetachSelf", "Detach"):
                self.ops.append(Con(end, L(*l2)))
            else:
                self.emit_replace("Replace", (l2[0], l2[1], sh), self.free_var(avoid=(v, b)),
                                  fail=None if end == "Replace" else rng.choice(["value", "type"]))
        elif which == "replace-detached":
            self.ops.append(Con(rng.choice(["DetachSelf", "Detach"]), L(v, k)))
            self.emit_replace(rng.choice(["Replace", "Replace", "DcReplace"]), loc, self.free_var(avoid=(v,)),
                              fail=rng.choice([None, None, "value"]))
        else:
            root = self.vars[v]
            self.drop(v)
            self.emit_new(self.free_var(), root.cls, recipe=root)

    def run(self, n_ops):
        tries = 0
        while len(self.ops) < n_ops and tries < 4 * n_ops:
            tries += 1
            snap = (list(self.vars), len(self.ops), set(self.maybe), set(self.opaque), dict(self.slots))
            try:
                self.step()
            except GenRetry:
                self.vars = snap[0]
                del self.ops[snap[1]:]
                self.maybe = snap[2]
                self.opaque = snap[3]
                self.slots = snap[4]
        return self.ops[: self.max_ops + 8]


def gen_history(rng, u, tier, lo=4, hi=None, rules=(), ds=8):
    nvars = rng.randint(4, 8)
    max_ops = 12 if tier == "quick" else 60
    n_ops = rng.randint(min(lo, max_ops), hi or max_ops)
    g = HistGen(rng, u, nvars, max_ops, rules, ds)
    ops = g.run(n_ops)[:max_ops]
    return mk_hist(u.term(), list(rules), nvars, ops)


def gen_cases(rng, tier):
    from ..lib.term import to_text

    cases = []
    n_uni = 16 if tier == "quick" else 150
    per = 24 if tier == "quick" else 40
    for _ in range(n_uni):
        u = gen_universe(rng, n_roots=rng.choice([1, 2, 2]), max_levels=2, rich=rng.random() < 0.6, force_falsy=rng.random() < 0.35)
        # more than half of the class families validate in their own __post_init__ (late-failing constructions)
        rules = []
        if rng.random() < 0.6:
            r0 = add_validated_field(rng, u) if rng.random() < 0.8 else None
            rules = ([r0] if r0 is not None else []) + (gen_rules(rng, u) if r0 is None or rng.random() < 0.5 else [])
        excs = gen_excs(rng, rules)     # what each validating class raises: one exception class per rule
        uj = universe_to_json(u)
        rj = rules_to_json(rules)
        for j in range(per):
            ds = rng.choice([1, 1, 2, 8, 8])
            if tier == "quick":
                t = gen_history(rng, u, tier, rules=rules, ds=ds)
            elif j == 0:
                # thorough: one short history per class family stays small enough for the in-kernel re-evaluation
                # (harness/main.py samples inputs below 6000 characters; the observations of long histories are
                # megabytes of text, which coqc cannot hold as string literals)
                t = gen_history(rng, u, tier, lo=4, hi=8, rules=rules, ds=ds)
            else:
                t = gen_history(rng, u, tier, lo=40, hi=60, rules=rules, ds=ds)
                if len(to_text(t)) < 6000:
                    continue
            has_ser = any(op.name == "AsObj" for op in hist_parts(t)[3])
            cases.append({"kind": ("history+validators" if rules else "history") + ("+asobj" if has_ser else ""), "input": t,
                          "digest_size": ds, "opts": {"universe": uj, "rules": rj, "excs": excs}})
    # implementation-only probe of the forced-id path of as_obj (finding C03:asobj-forced-id-evicts-live-child, repaired in
    # /repo): a fixed 1-byte-digest collision scenario, kept as the regression case; rides on a short valid history
    if cases:
        plain = [c for c in cases if not c["kind"].endswith("+asobj")] or cases   # (a history generated for 8-byte digests
        c0 = min(plain, key=lambda c: len(to_text(c["input"])))                 #  trusts as_obj results: not to be re-run at 1 byte)
        cases.append(dict(c0, kind="probe:asobj-forced-id", digest_size=1, opts=dict(c0["opts"], probe="asobj_forced_id")))
    return cases


# ------------------------------------------------------------------------------------------------ implementation
class Run:
    def __init__(self, u, nvars, rules=(), excs=None):
        self.u = u
        self.mod = load_universe(u, list(rules), excs)
        self.vars = [None] * nvars
        self.slots = {}       # slot -> (class of the serialized root, dict): plain values, no reference to a node
        self.seen = []        # (weakref, id string) in order of first sight
        self.seen_at = {}     # id(obj) -> index in seen
        self.kf = {}

    def kid_fields(self, cname):
        if cname not in self.kf:
            self.kf[cname] = [f for f in self.u.merged(cname) if f.role != "Prop"]
        return self.kf[cname]

    def kids(self, o):
        out = []
        for f in self.kid_fields(type(o).__name__):
            v = getattr(o, f.name)
            if v is None:
                continue
            if isinstance(v, tuple):
                out.extend(v)
            else:
                out.append(v)
        return out

    def walk(self, o):
        out = [o]
        for k in self.kids(o):
            out.extend(self.walk(k))
        return out

    def resolve(self, l):
        v, k = l.args
        if v >= len(self.vars) or self.vars[v] is None:
            return None
        p = self.walk(self.vars[v])
        return p[k] if k < len(p) else None

    def is_seen(self, o):
        i = self.seen_at.get(id(o))
        return i is not None and self.seen[i][0]() is o

    def desig_map(self):
        d = {}
        for v, r in enumerate(self.vars):
            if r is not None:
                for k, o in enumerate(self.walk(r)):
                    d.setdefault(id(o), (v, k))
        return d


def tdesig(d, o):
    if o is None:
        return Con("None")
    if id(o) in d:
        return Con("At", *d[id(o)])
    return Con("Unheld")


def tcell(run, d, o):
    cname = type(o).__name__
    ps, ks = [], []
    for f in run.u.merged(cname):
        v = getattr(o, f.name)
        if f.role == "Prop":
            ps.append(Con("P", f.name, from_py(v)))
        else:
            shape = "ShNone" if v is None else ("ShMany" if isinstance(v, tuple) else "ShOne")
            l = [] if v is None else (list(v) if isinstance(v, tuple) else [v])
            ks.append(Con("K", f.name, Con(shape), [tdesig(d, x) for x in l]))
    return Con("Nd", cname, obs_origin_struct(o.origin), ps, ks, o.id, o.content_id)


def snapshot(run):
    """every dataclass field, id, content_id and hash of every held node; holds no reference to a node"""
    import dataclasses

    from pyoak.node import ASTNode

    snap = {}
    for r in run.vars:
        if r is None:
            continue
        for o in run.walk(r):
            if id(o) in snap:
                continue
            vals = []
            for f in dataclasses.fields(o):
                v = getattr(o, f.name)
                if isinstance(v, ASTNode):
                    vals.append((f.name, "node", id(v)))
                elif isinstance(v, tuple) and any(isinstance(x, ASTNode) for x in v):
                    vals.append((f.name, "tuple", tuple(id(x) for x in v)))
                else:
                    vals.append((f.name, type(v).__name__, repr(v)))
            snap[id(o)] = (weakref.ref(o), (tuple(vals), o.id, o.content_id, hash(o)), ASTNode.get_any(o.id) is o)
    return snap


def to_value(run, cv):
    """a change value -> Python value, or the marker _SKIP when a locator does not resolve"""
    from ..lib.universe import to_py

    if cv.name == "CProp":
        return to_py(cv.args[0], run.mod, run.u.enum_name)
    if cv.name == "COrigin":
        return mk_origin(cv.args[0])
    shape, ls = cv.args[0].name, cv.args[1]
    objs = [run.resolve(l) for l in ls]
    if any(o is None for o in objs):
        return _SKIP
    if shape == "ShNone":
        return None
    if shape == "ShOne":
        return objs[0]
    return tuple(objs)


_SKIP = object()


def do_read(run, x, kind):
    """read-only public calls; whatever they return is dropped"""
    import io

    from pyoak.node import ASTNode

    try:
        if kind == 0:
            list(x.dfs())
            list(x.dfs(bottom_up=True))
        elif kind == 1:
            list(x.bfs())
        elif kind == 2:
            t = x.to_tree()
            for ni in x.dfs():
                t.get_parent(ni.node), t.get_depth(ni.node), t.is_in_tree(ni.node), t.get_xpath(ni.node)
                list(t.get_ancestors(ni.node))
            t.is_root(x)
            del t
        elif kind == 3:
            list(x.findall("//" + type(x).__name__))
            x.find("/" + type(x).__name__)
        elif kind == 4:
            for y in run.vars:
                if y is not None:
                    try:
                        x == y, x != y
                    except ValueError:
                        pass
                    hash(y)
            hash(x)
        elif kind == 5:
            from rich.console import Console

            Console(file=io.StringIO(), width=100).print(x)
        elif kind == 6:
            x.as_dict()
            x.to_json()
        elif kind == 7:
            list(x.gather(ASTNode))
            x.is_equal(x)
            x.to_properties_dict()
            repr(x), str(x)
            list(x.get_properties()), list(x.get_child_nodes()), x.children
        elif kind == 8:
            from pyoak.visitor import ASTVisitor

            class V(ASTVisitor):
                def generic_visit(self, node):
                    return [self.visit(c) for c in node.get_child_nodes()]

            V().visit(x)
        elif kind == 10:
            # xpath generators consumed to exhaustion, with and without matches (seeded change C10-6)
            list(x.findall("//@zz_no_such_field[99]" + type(x).__name__))
            list(x.findall("//ASTNode"))
            for ni in x.dfs():
                list(ni.node.findall("//" + type(x).__name__))
                break
            from pyoak.match.xpath import ASTXpath

            xp = ASTXpath("//" + type(x).__name__)
            t = x.to_tree()
            for ni in x.dfs():
                xp.match(t, ni.node)
            list(xp.findall(x))
        elif kind == 11:
            # a transformer that changes nothing: no node is rebuilt, so nothing may happen to any existing node
            from pyoak.visitor import ASTTransformVisitor

            class TV(ASTTransformVisitor):
                pass

            TV().transform(x)

            # ... and one that rebuilds every leaf, hence every ancestor of a leaf (seeded change C10-13: rebuilding
            # through node.replace un-registers the originals); the rebuilt tree is dropped at once
            import dataclasses

            class TV2(ASTTransformVisitor):
                def generic_visit(self, node):
                    if not node.children:
                        return dataclasses.replace(node)
                    return super().generic_visit(node)

            res = TV2().transform(x)
            del res
        elif kind == 12:
            x.to_msgpck()
            x.to_yaml()
            x.to_jsonb() if hasattr(x, "to_jsonb") else None
        elif kind == 13:
            from pyoak.match.pattern import MultiPatternMatcher, NodeMatcher

            names = sorted({type(ni.node).__name__ for ni in x.dfs()} | {type(x).__name__})
            mm = MultiPatternMatcher([(f"r{i}", "(" + n + ")") for i, n in enumerate(names)] + [("any", "(*)")])
            mm.match(x)
            for ni in x.dfs():
                mm.match(ni.node)
            m, _ = NodeMatcher.from_pattern("(" + "|".join(names) + ")")
            if m is not None:
                m.match(x)
        else:
            from pyoak.match.pattern import NodeMatcher

            m, _ = NodeMatcher.from_pattern("(" + type(x).__name__ + ")")
            if m is not None:
                m.match(x)
            for ni in x.dfs():
                if m is not None:
                    m.match(ni.node)
    except Exception:  # noqa: a read-only call that raises changes nothing either; not this property's business
        pass


def exec_op(run, op):
    """executes one operation; returns (result term, extra term). No local reference survives the return."""
    import dataclasses

    name = op.name
    nv = len(run.vars)
    if name == "New":
        dst, cname, origin, ps, ks = op.args
        cname = cname.decode()
        from ..lib.universe import to_py

        kwargs = {}
        finit = {f.name: f.init for f in run.u.merged(cname)}
        for p in ps:
            n = p.args[0].decode()
            if finit[n]:
                kwargs[n] = to_py(p.args[1], run.mod, run.u.enum_name)
        for k in ks:
            v = to_value(run, Con("CKids", k.args[1], k.args[2]))
            if v is _SKIP:
                return Con("Skipped"), Con("XNone")
            kwargs[k.args[0].decode()] = v
        try:
            obj = getattr(run.mod, cname)(origin=mk_origin(origin), **kwargs)
        except Exception as e:   # the class's own validation, after the node was registered: whatever class it raises
            if not is_late(e):
                raise
            return Con("Raised", "ValueError"), Con("XNone")
        run.vars[dst] = obj
        return ("node", obj), Con("XNone")
    if name == "Dup":
        dst, l = op.args
        src = run.resolve(l)
        if src is None:
            return Con("Skipped"), Con("XNone")
        try:
            res = src.duplicate()
        except Exception as e:
            if not is_late(e):
                raise
            return Con("Raised", "ValueError"), Con("XNone")
        all_new = all(not run.is_seen(o) for o in run.walk(res))
        try:
            eq = Some(bool(res == src))
        except ValueError:
            eq = None
        run.vars[dst] = res
        return ("node", res), Con("XDup", all_new, eq)
    if name in ("Replace", "DcReplace"):
        dst, l, ch = op.args
        src = run.resolve(l)
        if src is None:
            return Con("Skipped"), Con("XNone")
        kwargs = {}
        for c in ch:
            v = to_value(run, c.args[1])
            if v is _SKIP:
                return Con("Skipped"), Con("XNone")
            kwargs[c.args[0].decode()] = v
        try:
            res = src.replace(**kwargs) if name == "Replace" else dataclasses.replace(src, **kwargs)
        except Exception as e:
            # a late rejection (any exception class) is the model's single `Raised EValue`; the two early failures of
            # dataclasses.replace keep their classes (non-init key: ValueError, unknown key: TypeError)
            if is_late(e) or isinstance(e, ValueError):
                return Con("Raised", "ValueError"), Con("XNone")
            if isinstance(e, TypeError):
                return Con("Raised", "TypeError"), Con("XNone")
            raise
        same = []
        if "origin" not in kwargs:
            same.append(["origin", res.origin is src.origin])
        for f in run.u.merged(type(src).__name__):
            if f.init and f.name not in kwargs:
                same.append([f.name, getattr(res, f.name) is getattr(src, f.name)])
        extra = Con("XRep", not run.is_seen(res), type(res) is type(src), same)
        run.vars[dst] = res
        return ("node", res), extra
    if name == "Detach":
        x = run.resolve(op.args[0])
        if x is None:
            return Con("Skipped"), Con("XNone")
        r = x.detach()
        return (Con("OkNone") if r is None else Con("OkOther")), Con("XNone")
    if name == "DetachSelf":
        x = run.resolve(op.args[0])
        if x is None:
            return Con("Skipped"), Con("XNone")
        r = x.detach_self()
        return (Con("OkBool", r) if isinstance(r, bool) else Con("OkOther")), Con("XNone")
    if name == "Drop":
        v = op.args[0]
        if v < nv:
            run.vars[v] = None
        return Con("OkNone"), Con("XNone")
    if name == "Read":
        x = run.resolve(op.args[0])
        if x is None:
            return Con("Skipped"), Con("XNone")
        do_read(run, x, op.args[1])
        return Con("OkNone"), Con("XNone")
    if name == "AsDict":
        x = run.resolve(op.args[0])
        if x is None:
            return Con("Skipped"), Con("XNone")
        run.slots[op.args[1]] = (type(x), x.as_dict())
        return Con("OkNone"), Con("XNone")
    if name == "AsObj":
        slot, dst = op.args
        if slot not in run.slots:
            return Con("Skipped"), Con("XNone")
        cls, d = run.slots[slot]
        try:
            res = cls.as_obj(d)
        except Exception:   # a class rejected a node while the value was read (mashumaro wraps nested failures)
            return Con("Raised", "ValueError"), Con("XNone")
        flags = [run.is_seen(o) for o in run.walk(res)]
        run.vars[dst] = res
        return ("node", res), Con("XObj", flags)
    raise ValueError("unknown op " + name)


def observe(run, result, extra, before, op=None):
    from pyoak.node import ASTNode

    gc.collect()
    d = run.desig_map()
    # C10: the operations specified to change the registry membership of an existing node
    exempt = op is not None and (op.name in ("Detach", "DetachSelf") or (op.name == "Replace" and isinstance(result, tuple)))
    if isinstance(result, tuple):
        result = Con("OkNode", tdesig(d, result[1]))
    classes = [getattr(run.mod, c.name) for c in run.u.classes] + [ASTNode]
    pervar = []
    for r in run.vars:
        if r is None:
            pervar.append(None)
            continue
        pos = [[o.id, tdesig(d, ASTNode.get_any(o.id))] for o in run.walk(r)]
        cl = [[tdesig(d, C.get(r.id)), tdesig(d, C.get(r.id, strict=False))] for C in classes]
        pervar.append(Con("Some", pos, cl))
    fresh = []
    for r in run.vars:
        if r is None:
            continue
        for o in run.walk(r):
            if not run.is_seen(o):
                run.seen_at[id(o)] = len(run.seen)
                run.seen.append((weakref.ref(o), o.id))
                fresh.append(tcell(run, d, o))
    seen = [[wr() is not None, tdesig(d, ASTNode.get_any(i))] for wr, i in run.seen]
    after = snapshot(run)
    frame_ok = all(after[k][1] == s for k, (wr, s, _) in before.items() if k in after and after[k][0]() is wr())
    hash_ok = all(s[3] == hash(s[1]) for _, s, _ in after.values())
    flips = [(m, after[k][2]) for k, (wr, _, m) in before.items() if k in after and after[k][0]() is wr() and after[k][2] != m]
    if op is not None and op.name == "Replace" and exempt:
        # a replace() that returned un-registers its receiver and nothing else (seeded change C10-14: it also detached the
        # children the new node no longer refers to)
        member_ok = len(flips) <= 1 and all(was and not now for was, now in flips)
    else:
        member_ok = exempt or not flips
    return Con("Step", result, pervar, fresh, seen, extra, Con("Frame", frame_ok, hash_ok, member_ok)), after


def frozen_obs(run):
    import dataclasses

    out = []
    for r in run.vars:
        if r is None:
            out.append(None)
            continue
        row = []
        for f in dataclasses.fields(r):
            try:
                setattr(r, f.name, getattr(r, f.name))
                s = False
            except (dataclasses.FrozenInstanceError, AttributeError, TypeError):
                s = True
            try:
                delattr(r, f.name)
                dl = False
            except (dataclasses.FrozenInstanceError, AttributeError, TypeError):
                dl = True
            row.append([f.name, s, dl])
        out.append(row)
    return out


_PROBE_CLS = []


def probe_asobj_forced_id():
    """A tree serialized while it holds a DETACHED child whose id collides (1-byte digest) with its parent's: reading it
    back into an empty registry must not leave a referenced, never-detached node that lookup does not return.
    Returns the violated clause or None."""
    import gc
    from dataclasses import dataclass

    from pyoak import config
    from pyoak.node import ASTNode

    if not _PROBE_CLS:
        import sys
        import types
        m = types.ModuleType("verif_c03_probe")
        sys.modules[m.__name__] = m
        exec(compile("from dataclasses import dataclass\nfrom pyoak.node import ASTNode\n"
                     "@dataclass(frozen=True)\nclass VerifEvLeaf(ASTNode):\n    v: int\n"
                     "@dataclass(frozen=True)\nclass VerifEvBox(ASTNode):\n    xs: tuple[VerifEvLeaf, ...]\n",
                     m.__name__, "exec", dont_inherit=True), m.__dict__)
        _PROBE_CLS.extend([m.VerifEvLeaf, m.VerifEvBox])
    Leaf, Box = _PROBE_CLS
    old = config.ID_DIGEST_SIZE
    config.ID_DIGEST_SIZE = 1
    try:
        found = None
        for v in range(4000):
            x = Leaf(v)
            x.detach_self()
            p = Box((x,))
            if p.id == x.id:
                found = (x, p)
                break
            p.detach()
            del x, p
        if found is None:
            return None
        x, p = found
        d = p.as_dict()
        p.detach()
        del x, p, found
        gc.collect()
        p2 = Box.as_obj(d)
        c2 = p2.xs[0]
        bad = None
        if ASTNode.get_any(c2.id) is not c2 and ASTNode.get_any(p2.id) is not p2:
            bad = "both"
        elif ASTNode.get_any(c2.id) is not c2 and c2 is not p2:
            bad = "asobj-forced-id-evicts-live-child"
        elif ASTNode.get_any(p2.id) is not p2:
            bad = "asobj-forced-id-parent-not-registered"
        p2.detach()
        del p2, c2
        gc.collect()
        return bad
    finally:
        config.ID_DIGEST_SIZE = old


def impl(t, case):
    if (case.get("opts") or {}).get("probe") == "asobj_forced_id":
        bad = probe_asobj_forced_id()
        if bad:
            return Con("ProbeViolation", bad)
    return impl_history(t, case)


def impl_history(t, case):
    from pyoak import config

    u = universe_from_json(case["opts"]["universe"])
    _, rules, nvars, ops = hist_parts(t)
    assert [norm(r) for r in rules] == rules_from_json(case["opts"].get("rules")), "rules of the term and of the case differ"
    old = config.ID_DIGEST_SIZE
    config.ID_DIGEST_SIZE = case.get("digest_size") or 8
    run = Run(u, nvars, rules, case["opts"].get("excs"))
    try:
        gc.collect()
        steps = []
        before = {}
        for op in ops:
            result, extra = exec_op(run, op)
            st, before = observe(run, result, extra, before, op)
            del result
            steps.append(st)
        out = Con("Out", steps, frozen_obs(run))
    finally:
        config.ID_DIGEST_SIZE = old
        run.vars = []
        run.slots = {}
        del run
        gc.collect()
    return out


# ------------------------------------------------------------------------------------------------ comparison
STEP_CLAUSES = ["result", "lookup", "new-node", "dropped-or-detached", "copy", "frame"]


def step_diffs(si, sm, which):
    out = []
    for idx in which:
        x, y = si.args[idx], sm.args[idx]
        if idx == 2 and which is C03_IDX:
            # C03 speaks about ids only: compare the id of every newly created node
            x = [n.args[4] if isinstance(n, Con) and n.name == "Nd" else n for n in x]
            y = [n.args[4] if isinstance(n, Con) and n.name == "Nd" else n for n in y]
        if x != y:
            out.append(STEP_CLAUSES[idx])
    if 4 not in which and (si.args[4].name == "XObj" or sm.args[4].name == "XObj") and si.args[4] != sm.args[4]:
        out.append("asobj-result")   # as_obj: the live original where the id is registered, a new object otherwise
    return out


C03_IDX = (0, 1, 2, 3)


def compare_with(inp, impl_obs, model_obs, which, frozen=False):
    impl_obs, model_obs = canon(impl_obs), canon(model_obs)
    if impl_obs == model_obs:
        return []
    if not (isinstance(impl_obs, Con) and impl_obs.name == "Out" and isinstance(model_obs, Con) and model_obs.name == "Out"):
        return ["result"]
    a, b = impl_obs.args[0], model_obs.args[0]
    if len(a) != len(b):
        return ["length"]
    diffs = []
    for k, (si, sm) in enumerate(zip(a, b)):
        d = step_diffs(si, sm, which)
        if d:
            diffs += [f"step{k}:{x}" for x in d]
            break  # later steps follow from the first divergence
    if frozen and impl_obs.args[1] != model_obs.args[1]:
        diffs.append("frozen")
    return diffs


def finding_key(inp, impl_obs, model_obs, diffs):
    if isinstance(impl_obs, Con) and impl_obs.name == "ProbeViolation":
        return "C03:" + impl_obs.args[0].decode()
    return None


def compare(inp, impl_obs, model_obs):
    if isinstance(impl_obs, Con) and impl_obs.name == "ProbeViolation":
        return ["probe:" + impl_obs.args[0].decode()]
    return compare_with(inp, impl_obs, model_obs, C03_IDX)


def nontrivial(inp, model_obs):
    if not (isinstance(model_obs, Con) and model_obs.name == "Out"):
        return False
    return sum(1 for s in model_obs.args[0] if s.args[0].name != "Skipped") >= 3


def spec_violation(inp, impl_obs, model_obs, diffs):
    # lookups, liveness, results of detach_self/replace are fixed by the property; only the spelling of a fresh
    # node's id (the digest preimage) is the model's own detail
    return any(not d.endswith(":new-node") for d in diffs)


def search(rng, tier):
    """The invariant evaluated on the implementation alone: a held, never detached node must be returned by get_any(id),
    nothing else may be, ids of held registered nodes are pairwise different."""
    from pyoak.node import ASTNode

    for _ in range(60 if tier == "quick" else 600):
        u = gen_universe(rng, n_roots=2, max_levels=2, rich=False)
        rules = gen_rules(rng, u) if rng.random() < 0.6 else []
        t = norm(gen_history(rng, u, tier, rules=rules))
        ds = rng.choice([1, 2, 8])
        from pyoak import config

        old = config.ID_DIGEST_SIZE
        config.ID_DIGEST_SIZE = ds
        run = Run(u, hist_parts(t)[2], rules)
        det = []  # weakrefs of nodes detached / replaced away
        try:
            for op in hist_parts(t)[3]:
                tgt = run.resolve(op.args[0]) if op.name in ("Detach", "DetachSelf") else (
                    run.resolve(op.args[1]) if op.name == "Replace" else None)
                if tgt is not None:
                    nodes = run.walk(tgt) if op.name == "Detach" else [tgt]
                    det_new = [weakref.ref(o) for o in nodes]
                else:
                    det_new = []
                del tgt
                r, _ = exec_op(run, op)
                if not (op.name == "Replace" and isinstance(r, Con) and r.name in ("Raised", "Skipped")):
                    det += det_new
                del r
                gc.collect()
                dead = {id(w()) for w in det if w() is not None}
                ids = {}
                for root in run.vars:
                    if root is None:
                        continue
                    for o in run.walk(root):
                        got = ASTNode.get_any(o.id)
                        if id(o) not in dead and got is not o:
                            return {"input": repr(t)[:4000], "digest_size": ds, "opts": {"universe": universe_to_json(u)},
                                    "what": "a held, never detached node is not returned by get_any(id)"}
                        if id(o) in dead and got is o:
                            return {"input": repr(t)[:4000], "digest_size": ds, "opts": {"universe": universe_to_json(u)},
                                    "what": "a detached node is still returned"}
                        if got is o and ids.setdefault(o.id, id(o)) != id(o):
                            return {"input": repr(t)[:4000], "digest_size": ds, "opts": {"universe": universe_to_json(u)},
                                    "what": "two registered nodes share an id"}
        finally:
            config.ID_DIGEST_SIZE = old
            run.vars = []
    return None
