"""Annotation terms / values of coq/Model/PyTypes.v on the Python side: constructors, printers to Python source,
generators (random and exhaustive) and the module builder used by c11.py and c13.py.
Nothing here reads pyoak introspection: the term is what the generator decided, the Python text is printed from it."""
from __future__ import annotations

import itertools
import random
import sys
import types

from ..lib.term import Con

_uid = itertools.count()

# ------------------------------------------------------------------ constructors
T_INT, T_STR, T_BOOL, T_FLOAT, T_BYTES, T_ANY, T_NONE = (Con(n) for n in ("TInt", "TStr", "TBool", "TFloat", "TBytes", "TAny", "TNoneT"))
SCALARS = [T_INT, T_STR, T_BOOL, T_FLOAT, T_BYTES]


def TLit(*vs):
    return Con("TLit", list(vs))


def TEnum(c):
    return Con("TEnum", c)


def TNew(t):
    return Con("TNew", t)


def TUnion(*ts):
    return Con("TUnion", list(ts))


def TTup(*ts):
    return Con("TTup", list(ts))


def TTupV(t):
    return Con("TTupV", t)


def TGen(c, *ts):
    return Con("TGen", Con(c), list(ts))


def TBare(c):
    return Con("TBare", Con(c))


def TNode(c):
    return Con("TNode", c)


def TFwd(c):
    return Con("TFwd", c)


X_NONE = Con("XNone")


def XBool(b):
    return Con("XBool", bool(b))


def XInt(z):
    return Con("XInt", int(z))


def XFloat(tok):
    return Con("XFloat", tok)


def XStr(s):
    return Con("XStr", s)


def XEnum(c, m):
    return Con("XEnum", c, m)


def XNode(c):
    return Con("XNode", c)


def XTuple(*l):
    return Con("XTuple", list(l))


def XList(*l):
    return Con("XList", list(l))


def XFset(*l):
    return Con("XFset", list(l))


ENUMS = {"Color": ["RED", "GREEN"], "Shape": ["SQ"]}
EARLY = ["A", "B", "C"]           # B is a subclass of A
SUPERS = {"A": [], "B": ["A"], "C": []}
LATE = ["Z"]
CON_SRC = {"CTuple": "tuple", "CFrozenset": "frozenset", "CSequence": "Sequence", "CMapping": "Mapping", "CList": "list",
           "CDict": "dict", "CSet": "set"}
CON_ALT = {"CTuple": "typing.Tuple", "CFrozenset": "typing.FrozenSet", "CSequence": "collections.abc.Sequence",
           "CMapping": "collections.abc.Mapping", "CList": "typing.List", "CDict": "typing.Dict", "CSet": "typing.Set"}


def s_(b):
    return b.decode() if isinstance(b, bytes) else b


def children(t):
    n = t.name
    if n in ("TNew", "TTupV"):
        return [t.args[0]]
    if n in ("TUnion", "TTup"):
        return list(t.args[0])
    if n == "TGen":
        return list(t.args[1])
    return []


def subterms(t):
    yield t
    for c in children(t):
        yield from subterms(c)


def depth(t):
    return 1 + max([depth(c) for c in children(t)], default=0)


def mentions_node(t):
    return any(x.name in ("TNode", "TFwd") for x in subterms(t))


def has_nt_over_node(t):
    """D14 shape: a NewType wrapping something that mentions a node class (nested: the field is silently a property;
    outermost: only the moment of the rejection differs between the code and its repair)."""
    return any(x.name == "TNew" and mentions_node(x.args[0]) for x in subterms(t))


def has_nested_fwd(t, top=True):
    """D20 shape: a string forward reference below the top of an annotation."""
    if t.name == "TFwd":
        return not top
    return any(has_nested_fwd(c, False) for c in children(t))


def has_nested_nt(t, top=True):
    """D21 shape: a NewType below the outermost NewType layers."""
    if t.name == "TNew":
        return (not top) or has_nested_nt(t.args[0], top)
    return any(has_nested_nt(c, False) for c in children(t))


# ------------------------------------------------------------------ printing
class PrintCtx:
    """sfx: suffix appended to every node class name (pyoak's class registry is process-global);
    spell: seed of the spelling choices (| vs Union/Optional, builtin vs typing aliases when alt)."""

    def __init__(self, sfx, spell=0, alt=False):
        self.sfx, self.alt = sfx, alt
        self.rnd = random.Random(spell)
        self.newtypes = []          # (name, body source) in definition order
        self._nt = {}

    def cls(self, c):
        return s_(c) + self.sfx

    def newtype(self, body):
        if body not in self._nt:
            name = f"NT{len(self._nt)}{self.sfx}"
            self._nt[body] = name
            self.newtypes.append((name, body))
        return self._nt[body]


def val_src(v, ctx):
    n = v.name
    if n == "XNone":
        return "None"
    if n == "XBool":
        return "True" if v.args[0].name == "T" else "False"
    if n == "XInt":
        return repr(v.args[0])
    if n == "XFloat":
        return s_(v.args[0])
    if n == "XStr":
        return repr(s_(v.args[0]))
    if n == "XEnum":
        return f"{s_(v.args[0])}.{s_(v.args[1])}"
    if n == "XNode":
        return f"{ctx.cls(v.args[0])}()"
    if n == "XTuple":
        return "(" + "".join(val_src(x, ctx) + ", " for x in v.args[0]) + ")"
    if n == "XList":
        return "[" + ", ".join(val_src(x, ctx) for x in v.args[0]) + "]"
    if n == "XFset":
        return "frozenset([" + ", ".join(val_src(x, ctx) for x in v.args[0]) + "])"
    raise ValueError(v)


def ty_src(t, ctx, in_string, pos="top"):
    """pos: 'top' | 'union' | 'arg'.  in_string: the whole annotation is (or will be evaluated as) a string, so a
    nested forward reference needs inner quotes; otherwise it is a plain str object inside the annotation."""
    n = t.name
    if n == "TInt":
        return "int"
    if n == "TStr":
        return "str"
    if n == "TBool":
        return "bool"
    if n == "TFloat":
        return "float"
    if n == "TBytes":
        return "bytes"
    if n == "TAny":
        return "Any"
    if n == "TNoneT":
        return "None" if pos in ("top", "union") else "type(None)"
    if n == "TLit":
        return "Literal[" + ", ".join(val_src(v, ctx) for v in t.args[0]) + "]"
    if n == "TEnum":
        return s_(t.args[0])
    if n == "TNew":
        return ctx.newtype(ty_src(t.args[0], ctx, False, "top"))
    if n == "TNode":
        return ctx.cls(t.args[0])
    if n == "TFwd":
        if pos == "top":
            # unquoted field: the annotation is the string itself; quoted field: the bare name inside the string
            return ctx.cls(t.args[0]) if in_string else repr(ctx.cls(t.args[0]))
        return repr(ctx.cls(t.args[0]))
    if n == "TUnion":
        ms = list(t.args[0])
        can_pipe = not any(m.name == "TFwd" for m in ms)
        k = ctx.rnd.random()
        if can_pipe and k < 0.5:
            return " | ".join(_paren(ty_src(m, ctx, in_string, "union")) for m in ms)
        nones = [m for m in ms if m.name == "TNoneT"]
        rest = [m for m in ms if m.name != "TNoneT"]
        if nones and rest and k < 0.8:
            inner = ty_src(rest[0], ctx, in_string, "union") if len(rest) == 1 else \
                "Union[" + ", ".join(ty_src(m, ctx, in_string, "union") for m in rest) + "]"
            return f"Optional[{inner}]"
        return "Union[" + ", ".join(ty_src(m, ctx, in_string, "union") for m in ms) + "]"
    alt = ctx.alt and ctx.rnd.random() < 0.5
    if n == "TTup":
        name = CON_ALT["CTuple"] if alt else "tuple"
        if not t.args[0]:
            return name + "[()]"
        return name + "[" + ", ".join(ty_src(m, ctx, in_string, "arg") for m in t.args[0]) + "]"
    if n == "TTupV":
        name = CON_ALT["CTuple"] if alt else "tuple"
        return name + "[" + ty_src(t.args[0], ctx, in_string, "arg") + ", ...]"
    if n == "TGen":
        c = t.args[0].name
        name = CON_ALT[c] if alt else CON_SRC[c]
        return name + "[" + ", ".join(ty_src(m, ctx, in_string, "arg") for m in t.args[1]) + "]"
    if n == "TBare":
        c = t.args[0].name
        return CON_ALT[c] if alt else CON_SRC[c]
    raise ValueError(t)


def _paren(s):
    return s


def outer_is_tuple(t):
    while t.name == "TNew":
        t = t.args[0]
    return t.name in ("TTup", "TTupV") or (t.name == "TBare" and t.args[0].name == "CTuple")


PREAMBLE = """import collections.abc, enum, typing
from dataclasses import dataclass, field
from typing import Any, Literal, Mapping, NewType, Optional, Sequence, Union
from pyoak.node import ASTNode

class Color(enum.Enum):
    RED = 1
    GREEN = 'g'

class Shape(enum.Enum):
    SQ = 1
"""


def node_cls_src(name, base, future):
    return (("from __future__ import annotations\n" if future else "")
            + f"@dataclass(frozen=True)\nclass {name}({base}):\n    pass\n")


class Mod:
    """A fresh module; chunks of source are executed in it one by one."""

    def __init__(self):
        self.uid = next(_uid)
        self.sfx = f"_v{self.uid}"
        self.m = types.ModuleType(f"verif_ann{self.sfx}")
        sys.modules[self.m.__name__] = self.m
        self.sources = []

    def run(self, src):
        self.sources.append(src)
        exec(compile(src, self.m.__name__, "exec", dont_inherit=True), self.m.__dict__)   # do not inherit this file's __future__ flags

    def drop(self):
        sys.modules.pop(self.m.__name__, None)


# ------------------------------------------------------------------ generators
HASHABLE_LEAF_VALS = [X_NONE, XBool(True), XBool(False), XInt(0), XInt(1), XInt(2), XInt(-7), XFloat("0.5"), XFloat("2.5"),
                      XStr(""), XStr("a"), XStr("ab"), XStr("1"), XEnum("Color", "RED"), XEnum("Color", "GREEN"), XEnum("Shape", "SQ")]
NODE_VALS = [XNode("A"), XNode("B"), XNode("C")]
LIT_VALS = [XInt(0), XInt(1), XInt(2), XStr("a"), XStr("ab"), XBool(True), XBool(False), XEnum("Color", "RED")]


def gen_val(rng, d=2, hashable=False):
    k = rng.random()
    if d <= 0 or k < 0.45:
        return rng.choice(HASHABLE_LEAF_VALS + NODE_VALS) if rng.random() < 0.9 else rng.choice(NODE_VALS)
    n = rng.choice([0, 1, 1, 2, 2, 3])
    if k < 0.75:
        return XTuple(*[gen_val(rng, d - 1, hashable) for _ in range(n)])
    if k < 0.88 and not hashable:
        return XList(*[gen_val(rng, d - 1, False) for _ in range(n)])
    return XFset(*_dedup([gen_val(rng, d - 1, True) for _ in range(n)]))


def _dedup(l):
    out = []
    for x in l:
        if x not in out:
            out.append(x)
    return out


def val_for(rng, t, d=3):
    """a value that is likely (not certainly) conforming to t: the generator mixes these with random values"""
    n = t.name
    if n == "TInt":
        return XInt(rng.choice([0, 1, 2, -7, 10]))
    if n == "TStr":
        return XStr(rng.choice(["", "a", "ab", "1"]))
    if n == "TBool":
        return XBool(rng.random() < 0.5)
    if n == "TFloat":
        return rng.choice([XFloat("0.5"), XFloat("2.5"), XInt(1), XInt(0)])
    if n == "TBytes":
        return XStr("a")
    if n == "TAny":
        return gen_val(rng, 1)
    if n == "TNoneT":
        return X_NONE
    if n == "TLit":
        return rng.choice(list(t.args[0]))
    if n == "TEnum":
        c = s_(t.args[0])
        return XEnum(c, rng.choice(ENUMS[c]))
    if n == "TNew":
        return val_for(rng, t.args[0], d)
    if n == "TUnion":
        return val_for(rng, rng.choice(list(t.args[0])), d)
    if n == "TTup":
        return XTuple(*[val_for(rng, a, d - 1) for a in t.args[0]])
    if n == "TTupV":
        return XTuple(*[val_for(rng, t.args[0], d - 1) for _ in range(rng.choice([0, 1, 2, 3]))])
    if n == "TGen":
        c = t.args[0].name
        if c == "CFrozenset":
            return XFset(*_dedup([val_for(rng, t.args[1][0], d - 1) for _ in range(rng.choice([0, 1, 2]))]))
        if c == "CSequence":
            items = [val_for(rng, t.args[1][0], d - 1) for _ in range(rng.choice([0, 1, 2]))]
            k = rng.random()
            if k < 0.15 and t.args[1][0].name in ("TStr", "TAny"):
                return XStr(rng.choice(["", "a", "ab"]))
            return XTuple(*items) if k < 0.6 else XList(*items)
        return gen_val(rng, 1)
    if n == "TBare":
        c = t.args[0].name
        if c == "CTuple":
            return XTuple(*[gen_val(rng, 0) for _ in range(rng.choice([0, 1, 2]))])
        if c == "CFrozenset":
            return XFset(*_dedup([gen_val(rng, 0, True) for _ in range(rng.choice([0, 1, 2]))]))
        if c == "CSequence":
            return rng.choice([XTuple(XInt(1)), XList(XInt(1)), XStr("ab"), XTuple()])
        return gen_val(rng, 1)
    if n in ("TNode", "TFwd"):
        c = s_(t.args[0])
        subs = [k for k in EARLY if k == c or c in SUPERS.get(k, [])]
        return XNode(rng.choice(subs or EARLY))
    raise ValueError(t)


def hashable_val(v):
    if v.name == "XList":
        return False
    if v.name in ("XTuple", "XFset"):
        return all(hashable_val(x) for x in v.args[0])
    return True


def fix_fsets(v):
    """frozenset elements must be hashable and distinct as Python values: drop the others"""
    if v.name == "XFset":
        elems = [fix_fsets(x) for x in v.args[0] if hashable_val(x)]
        out, seen = [], set()
        for x in elems:
            k = _pykey(x)
            if k not in seen:
                seen.add(k)
                out.append(x)
        return XFset(*out)
    if v.name in ("XTuple", "XList"):
        return Con(v.name, [fix_fsets(x) for x in v.args[0]])
    return v


def _pykey(v):
    """a key equal for values that are == in Python (True == 1): such values cannot both be in one frozenset"""
    n = v.name
    if n == "XBool":
        return ("num", 1 if v.args[0].name == "T" else 0)
    if n == "XInt":
        return ("num", v.args[0])
    if n == "XNode":
        return ("node", next(_uid))       # every XNode(...) printed is a new object
    if n in ("XTuple", "XFset"):
        return (n, tuple(_pykey(x) for x in v.args[0]))
    return (n, v.args)


def resolved(t):
    """The annotation after typing.get_type_hints: every string forward reference replaced by the class it names."""
    if t.name == "TFwd":
        return TNode(t.args[0])
    if not isinstance(t, Con):
        return t
    return Con(t.name, *[_res_arg(a) for a in t.args])


def _res_arg(a):
    if isinstance(a, Con):
        return resolved(a)
    if isinstance(a, tuple):
        return tuple(_res_arg(x) for x in a)
    return a


def mk_union(ms):
    """typing removes duplicate union members AFTER forward references are resolved (tuple["B", ...] | tuple[B, ...]
    is tuple[B, ...]); that normalisation belongs to typing, not to pyoak, and is outside the model, so members that
    coincide once resolved are not generated.
    mashumaro (pyoak's serialization mixin) cannot build a class whose annotation has a NewType as a member of a
    union other than Optional[NewType]: such unions are not generated"""
    seen, uniq = [], []
    for m in ms:
        r = resolved(m)
        if r not in seen:
            seen.append(r)
            uniq.append(m)
    ms = uniq
    non_none = [m for m in ms if m.name != "TNoneT"]
    if len(non_none) > 1:
        kept = [m for m in ms if m.name != "TNew"]
        ms = kept if [m for m in kept if m.name != "TNoneT"] else [non_none[0]] + [m for m in ms if m.name == "TNoneT"]
    return TUnion(*ms) if len(ms) >= 2 else ms[0]


def gen_prop_ty(rng, d, pos="top"):
    """the accepted property grammar (no node class, no mutable collection)"""
    k = rng.random()
    if d <= 1 or k < 0.3:
        c = [T_INT, T_STR, T_BOOL, T_FLOAT, T_ANY, TEnum("Color"), TEnum("Shape"),
             TLit(*rng.sample(LIT_VALS, rng.choice([1, 2, 3]))), TBare("CTuple"), TBare("CFrozenset"), TBare("CSequence"),
             TBare("CMapping"), T_BYTES, TTup()]
        if pos in ("top", "union"):
            c += [T_NONE, T_NONE]
        return rng.choice(c)
    if k < 0.45 and pos != "union":
        ms = []
        for _ in range(rng.choice([2, 2, 3])):
            m = gen_prop_ty(rng, d - 1, "union")
            if m not in ms:
                ms.append(m)
        return mk_union(ms)
    if k < 0.6:
        return TTupV(gen_prop_ty(rng, d - 1, "arg"))
    if k < 0.75:
        return TTup(*[gen_prop_ty(rng, d - 1, "arg") for _ in range(rng.choice([1, 2, 2, 3]))])
    if k < 0.82:
        return TGen("CFrozenset", gen_prop_ty(rng, d - 1, "arg"))
    if k < 0.9:
        return TGen("CSequence", gen_prop_ty(rng, d - 1, "arg"))
    if k < 0.94:
        return TGen("CMapping", T_STR, gen_prop_ty(rng, d - 1, "arg"))
    inner = gen_prop_ty(rng, d - 1, "arg")
    return TNew(T_INT if inner.name == "TNoneT" else inner)


def gen_node_elem(rng, opt, names=EARLY):
    k = rng.random()
    if k < 0.5:
        return TNode(rng.choice(names))
    ms = [TNode(c) for c in rng.sample(names, min(len(names), rng.choice([2, 2, 3])))]
    if opt and rng.random() < 0.6:
        ms.insert(rng.randrange(len(ms) + 1), T_NONE)
    if len(ms) < 2:
        return ms[0]
    return TUnion(*ms)


def gen_child_ty(rng, names=EARLY):
    k = rng.random()
    if k < 0.4:
        e = gen_node_elem(rng, True, names)
        if e.name == "TNode" and rng.random() < 0.4:
            return TUnion(e, T_NONE)
        return e
    if k < 0.7:
        return TTupV(gen_node_elem(rng, False, names))
    return TTup(*[gen_node_elem(rng, False, names) for _ in range(rng.choice([1, 2, 3]))])


def gen_any_ty(rng, d, node_names, fwd_names, pos="top", under_nt=False):
    """the whole grammar of C11, valid and invalid shapes alike.
    node_names: classes that may appear as class objects; fwd_names: classes that may appear as strings."""
    k = rng.random()
    if d <= 1 or k < 0.28:
        c = [T_INT, T_STR, T_BOOL, T_ANY, TEnum("Color"), TLit(XInt(1), XStr("a")), TBare("CTuple"), TBare("CList"), TBare("CDict"),
             TBare("CSequence"), TBare("CFrozenset"), TBare("CSet"), TBare("CMapping"), T_FLOAT]
        c += [TNode(n) for n in node_names] * 3
        if not under_nt:
            c += [TFwd(n) for n in fwd_names] * 2
        if pos in ("top", "union"):
            c += [T_NONE] * 3
        return rng.choice(c)
    if k < 0.45 and pos != "union":
        ms = []
        for _ in range(rng.choice([2, 2, 3])):
            m = gen_any_ty(rng, d - 1, node_names, fwd_names, "union", under_nt)
            if m not in ms and m.name != "TUnion":
                ms.append(m)
        return mk_union(ms)
    if k < 0.58:
        return TTupV(gen_any_ty(rng, d - 1, node_names, fwd_names, "arg", under_nt))
    if k < 0.7:
        return TTup(*[gen_any_ty(rng, d - 1, node_names, fwd_names, "arg", under_nt) for _ in range(rng.choice([0, 1, 2, 2, 3]))])
    if k < 0.9:
        c = rng.choice(["CFrozenset", "CSequence", "CMapping", "CList", "CDict", "CSet"])
        if c in ("CMapping", "CDict"):
            return TGen(c, T_STR, gen_any_ty(rng, d - 1, node_names, fwd_names, "arg", under_nt))
        return TGen(c, gen_any_ty(rng, d - 1, node_names, fwd_names, "arg", under_nt))
    inner = gen_any_ty(rng, d - 1, [n for n in node_names if n in EARLY], [], "arg", True)
    return TNew(T_INT if inner.name == "TNoneT" else inner)


REASONS = {"Optional type in sequence": "ROptInSeq", "Mutable sequence": "RMutSeq",
           "Non-node type or not a tuple sequence": "RNonNode", "Empty tuple": "REmptyTuple", "Other": "ROther",
           "A mutable collection in type": "RMutProp"}
