"""C06 - Tree queries. One case = (class table, tree without repeated objects, foreign nodes, class queries);
every unary query for every node and every binary query for every ordered pair are observed at once."""
from __future__ import annotations

import gc
import re

from ..lib.term import Con, Some, canon
from ..lib.universe import (Built, TreeGen, gen_universe, iter_nodes, node_cls, tree_depth, tree_size,
                            universe_from_json, universe_to_json)
from .c15 import gen_origin, mk_origin

ID = "C06"
ENTRY = "C06"
RUNNER = "run_C06"
RUN_MODULES = ["Run.RunC06"]
RULE = ("generated class hierarchies (single / optional / union / variadic / fixed tuple child fields, subclasses, tuples up to 14); "
        "trees of 1-22 node objects without repetition, half of them with content-identical twins inserted next to their "
        "originals (same origin: == holds) and deeper twins; foreign arguments: a content-identical twin built after the tree "
        "(registered, id suffixed), a twin built and detached BEFORE the tree so that its ids are re-issued to tree members, "
        "an unrelated tree; every node of tree and foreign trees is an argument of every unary query "
        "(is_in_tree, is_root, get_parent, get_parent_info, get_ancestors, get_depth, get_xpath, get_first_ancestor_of_type "
        "for 3-5 class tuples x exact/instance) and every ordered pair of is_ancestor, get_depth(relative_to, check_ancestor "
        "True/False); non-trivial = at least 4 nodes, depth >= 3 and a foreign argument; distinct = distinct input terms")
TRUSTED_BASE = [
    "model coq/Model/TreeQ.v hand-written from src/pyoak/tree.py (tables as insertion-ordered association lists keyed by "
    "object identity, generators run to their end); tie = this correspondence run",
    "dfs of Model/Traverse.v (property C05) supplies the positions",
]
ASSUMPTIONS = [
    "no node object occurs twice in the tree and all its nodes are registered (the property's premise; the model rejects "
    "other inputs)",
    "Python's id() of a live object is unique (object identity = model address)",
]

CLAUSES_U = ["addr", "is_in_tree", "is_root", "get_parent", "get_parent_info", "get_ancestors", "get_depth", "get_xpath",
             "get_first_ancestor_of_type"]
CLAUSES_B = ["is_ancestor", "get_depth(relative_to)", "get_depth(relative_to,check_ancestor=False)"]


# ---------------------------------------------------------------------------------------------- generation
class Fresh:
    def __init__(self, start):
        self.n = start

    def __call__(self):
        self.n += 1
        return self.n


def recopy(t, fresh):
    """the same content under fresh addresses (new objects)"""
    return Con("N", fresh(), t.args[1], t.args[2], t.args[3],
               [Con("K", k.args[0], k.args[1], [recopy(c, fresh) for c in k.args[2]]) for k in t.args[4]])


def add_twins(rng, u, t, fresh, p):
    """insert twins (content-identical copies under new addresses) into variadic tuple fields, next to an original"""
    ks = []
    fixed = {f.name: f.fixed for f in u.merged(node_cls(t)) if f.role == "Tup"}
    for k in t.args[4]:
        kids = [add_twins(rng, u, c, fresh, p) for c in k.args[2]]
        name = k.args[0].decode()
        if k.args[1].name == "ShMany" and kids and not fixed.get(name) and rng.random() < p:
            i = rng.randrange(len(kids))
            kids.insert(rng.randint(0, len(kids)), recopy(kids[i], fresh))
        ks.append(Con("K", k.args[0], k.args[1], kids))
    return Con("N", t.args[0], t.args[1], t.args[2], t.args[3], ks)


def gen_tree(rng, u, max_nodes, max_depth, twins, origins, cap=None):
    """a tree of at most [cap] node objects (TreeGen's max_nodes is a soft bound), preferably of at least 4"""
    cap = cap or max(max_nodes, 4) + 6
    cn = [c.name for c in u.classes]
    best = None
    for _ in range(10):
        tg = TreeGen(rng, u, max_nodes=max_nodes, max_depth=max_depth, share=0, origins=origins)
        t = tg.node(rng.choice(cn))
        n = tree_size(t)
        if n > cap:
            if best is None or tree_size(best) > cap and n < tree_size(best):
                best = t
            continue
        if best is None or tree_size(best) > cap or n > tree_size(best):
            best = t
        if 4 <= tree_size(best) <= cap:
            break
    t = best
    if twins:
        t2 = add_twins(rng, u, t, Fresh(1000), 0.5)
        if tree_size(t2) <= cap:
            t = t2
    return t


def class_queries(rng, u):
    cn = [c.name for c in u.classes]
    qs = [([rng.choice(cn)], False), ([rng.choice(cn)], True), (["ASTNode"], rng.random() < 0.5)]
    bases = [c.base for c in u.classes if c.base]
    if bases:
        b = rng.choice(bases)
        qs.append(([b], False))
        qs.append(([b], True))
    if len(cn) >= 2:
        qs.append((rng.sample(cn, 2), rng.random() < 0.5))
    return qs


def gen_cases(rng, tier):
    cases = []
    n_uni = 20 if tier == "quick" else 500
    per = 5 if tier == "quick" else 8
    for _ in range(n_uni):
        u = gen_universe(rng)
        uj = universe_to_json(u)
        ct = u.term()
        for _k in range(per):
            big = rng.random() < 0.3
            root = gen_tree(rng, u, max_nodes=(16 if tier == 'quick' else 22) if big else 9, max_depth=rng.choice([2, 3, 4, 5]),
                            twins=rng.random() < 0.5, origins=gen_origin if rng.random() < 0.4 else None)
            if tree_size(root) > 40:
                continue
            nodes = list(iter_nodes(root))
            fresh = Fresh(5000)
            foreign = []
            modes = rng.sample(["twin", "reissued", "reissued-root", "other"], k=rng.choice([1, 2, 2, 3]))
            budget = 7 if tier == 'quick' else 10
            for m in modes:
                if m == "other":
                    f = recopy(gen_tree(rng, u, 3, 2, False, None, cap=7), fresh)
                elif m == "reissued-root":
                    f = recopy(root, fresh)
                else:
                    small = [n for n in nodes if tree_size(n) <= 4] or nodes
                    f = recopy(rng.choice(small), fresh)
                if tree_size(f) > budget:
                    continue
                budget -= tree_size(f)
                foreign.append(Con("Foreign", m, f))
            cqs = [Con("Cq", cs, ex) for cs, ex in class_queries(rng, u)]
            cases.append({"kind": "tree" + ("+twins" if len(nodes) > 0 and any(n.args[0] > 1000 for n in nodes) else ""),
                          "input": Con("C06", ct, root, foreign, cqs), "opts": {"universe": uj}})
    return cases


# ---------------------------------------------------------------------------------------------- implementation
def _q(fn):
    try:
        return fn()
    except KeyError:
        return Con("KeyError")
    except ValueError:
        return Con("ValueError")


def impl(t, case):
    from pyoak.node import ASTNode
    from pyoak.tree import Tree

    u = universe_from_json(case["opts"]["universe"])
    mod = u.load()
    gc.collect()
    ctt, root_t, foreign_ts, cq_ts = t.args
    b = Built(u, mk_origin)
    # twins whose ids are to be re-issued are built and detached before the tree exists
    late = []
    late_keep = []
    for f in foreign_ts:
        mode = f.args[0].decode()
        if mode.startswith("reissued"):
            o = b.build(f.args[1])
            # a Tree of the twin, built while it was registered, stays referenced: a later tree of another root
            # (which is re-issued the twin's id) must not be confused with it
            late_keep.append(o.to_tree())
            o.detach()
        else:
            late.append(f)
    root = b.build(root_t)
    for f in late:
        b.build(f.args[1])
    args_t = list(iter_nodes(root_t))
    for f in foreign_ts:
        args_t += list(iter_nodes(f.args[1]))
    objs = [b.objs[n.args[0]] for n in args_t]
    tree = Tree(root) if (len(objs) % 2 and not late_keep) else root.to_tree()

    def cls_of(name):
        return ASTNode if name == "ASTNode" else getattr(mod, name)

    cqs = [(tuple(cls_of(c.decode()) for c in q.args[0]), q.args[1].name == "T") for q in cq_ts]
    A = b.addr
    opt = lambda f, v: Con("None") if v is None else Some(f(v))

    def pinfo(x):
        p, f, i = tree.get_parent_info(x)
        if p is None:
            assert f is None and i is None
            return Con("None")
        return Some(Con("PI", A(p), f.name, opt(int, i)))

    def faot(x, cs, ex):
        # a one-class tuple and the bare class are both accepted by the API
        r = tree.get_first_ancestor_of_type(x, cs if len(cs) > 1 or A(x) % 2 else cs[0], exact_type=ex)
        return opt(A, r)

    # query ORDER: on every other case the binary (relative) queries are asked first, deepest nodes first, before any
    # absolute query has touched the Tree object - whatever the Tree remembers between calls must not depend on it
    # (seeded change C06-10: a depth memo also written by relative walks)
    if len(objs) % 2:
        for x in reversed(objs):
            for y in reversed(objs):                 # nearest ancestors first; a non-ancestor raises before any walk
                _q(lambda: tree.get_depth(x, y))
        for x in reversed(objs):
            for y in objs:
                _q(lambda: tree.get_depth(x, relative_to=y, check_ancestor=False))
                _q(lambda: tree.is_ancestor(x, y))
    un = []
    for x in objs:
        un.append(Con("Q", A(x), _q(lambda: tree.is_in_tree(x)), _q(lambda: tree.is_root(x)),
                      _q(lambda: opt(A, tree.get_parent(x))), _q(lambda: pinfo(x)),
                      _q(lambda: [A(a) for a in tree.get_ancestors(x)]),
                      _q(lambda: tree.get_depth(x)), _q(lambda: tree.get_xpath(x)),
                      [_q(lambda: faot(x, cs, ex)) for cs, ex in cqs]))
    bi = []
    for x in objs:
        bi.append(Con("B", [_q(lambda: tree.is_ancestor(x, y)) for y in objs],
                      [_q(lambda: tree.get_depth(x, y)) for y in objs],
                      [_q(lambda: tree.get_depth(x, relative_to=y, check_ancestor=False)) for y in objs]))
    assert tree.root is root
    return Con("Tree", un, bi)


# ---------------------------------------------------------------------------------------------- comparison
def compare(inp, impl_obs, model_obs):
    impl_obs, model_obs = canon(impl_obs), canon(model_obs)
    if impl_obs == model_obs:
        return []
    ok = lambda o: isinstance(o, Con) and o.name == "Tree" and len(o.args) == 2
    if not (ok(impl_obs) and ok(model_obs)):
        return ["result"]
    d = set()
    for k, names in ((0, CLAUSES_U), (1, CLAUSES_B)):
        xs, ys = impl_obs.args[k], model_obs.args[k]
        if len(xs) != len(ys):
            d.add("arguments")
            continue
        for x, y in zip(xs, ys):
            if x != y:
                if len(x.args) != len(y.args):
                    d.add("result")
                else:
                    d.update(n for n, p, q in zip(names, x.args, y.args) if p != q)
    return sorted(d) or ["result"]


def nontrivial(inp, model_obs):
    root = inp.args[1]
    return tree_size(root) >= 4 and tree_depth(root) >= 3 and len(inp.args[2]) >= 1


_SEG = re.compile(rb"/@([A-Za-z_]\w*)\[(\d+)\]([A-Za-z_]\w*)")


def _follow(root_t, xp):
    """follow a spelled path from the root of the input term; returns the address reached or None"""
    segs = _SEG.findall(xp)
    if not segs or b"".join(b"/@%s[%s]%s" % s for s in segs) != xp:
        return None
    f0, i0, c0 = segs[0]
    if f0 != b"root" or i0 != b"0" or c0 != root_t.args[1]:
        return None
    cur = root_t
    for f, i, c in segs[1:]:
        nxt = None
        for k in cur.args[4]:
            if k.args[0] == f:
                kids = k.args[2]
                if k.args[1].name == "ShOne" and i == b"0":
                    nxt = kids[0]
                elif k.args[1].name == "ShMany" and int(i) < len(kids) and str(int(i)).encode() == i:
                    nxt = kids[int(i)]
        if nxt is None or nxt.args[1] != c:
            return None
        cur = nxt
    return cur.args[0]


def spec_violation(inp, impl_obs, model_obs, diffs):
    if diffs != ["get_xpath"]:
        return True
    # only the spelling differs from the model's: the property's own clauses are "following it reaches the node"
    # and "no two nodes share one"
    root_t = inp.args[1]
    members = {n.args[0] for n in iter_nodes(root_t)}
    seen = set()
    for q in impl_obs.args[0]:
        a, xp = q.args[0], q.args[7]
        if a in members:
            if not isinstance(xp, bytes) or xp in seen or _follow(root_t, xp) != a:
                return True
            seen.add(xp)
        elif xp != Con("KeyError"):
            return True
    return False
