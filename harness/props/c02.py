"""C02 - ==. One case = (class table, a, b, c): b is a with the origin changed at one position (or a content edit, or a
twin); c is b with another position changed (for transitivity)."""
from __future__ import annotations

from ..lib.term import Con
from ..lib.universe import Built, TreeGen, gen_universe, tree_depth, tree_size, universe_from_json, universe_to_json
from .c01 import edit, get_at, paths, replace_at, retag, with_origin
from .c15 import gen_origin, mk_origin

ID = "C02"
ENTRY = "C02"
RUNNER = "run_C02"
RUN_MODULES = ["Run.RunC02"]
RULE = ("triples (a, b, c) of trees over generated universes: b = a with the origin changed at exactly one position chosen "
        "uniformly among ALL positions (root, child, grandchild, ..., inside tuples), origin kinds no-origin / code / generated "
        "/ xml / entire / multi; or an equal-origin twin; or one content edit (C01's edits); c = b with a further change; "
        "observed: a==b, b==a, a!=b, a==a, b==c, a==c, comparisons with non-nodes and hash stability; non-trivial = tree depth "
        ">= 3 (so that the changed position can be below the direct children); distinct = distinct input terms")
TRUSTED_BASE = [
    "model coq/Model/Equality.v hand-written from node.py:64-76 (_eq_fn) on top of the dfs machine of Model/Traverse.v; tie = this run",
    "dataclass == of origins as transcribed in origin_eqb (MemoryTextSource._raw excluded from comparison)",
]
ASSUMPTIONS = ["C02_char/sym/trans carry the converse of C01 (collision-free digest) as an explicit premise",
               "hash(node) = hash(node.id); constancy of id is C10's frame condition"]


EMPTY_R = Con("R", Con("P", 0, 1, 0), Con("P", 0, 1, 0))


def near_variants(o):
    """origins that differ from o as little as possible (same fqn where possible)"""
    out = []
    n = o.name
    if n == "OGen":
        out.append(Con("OCode", o.args[0], EMPTY_R))           # same source, same (empty) range, other class
    if n == "OCode":
        r = o.args[1]
        if r == EMPTY_R:
            out.append(Con("OGen", o.args[0]))
        s, e = r.args
        out.append(Con("OCode", o.args[0], Con("R", s, Con("P", e.args[0], e.args[1] + 1, e.args[2]))))   # same indices, other line
        out.append(Con("OCode", Con("SMem", b"other", None), r))
    if n == "OXml":
        out.append(Con("OXml", o.args[0], o.args[1] + b"x"))
        out.append(Con("OEntire", o.args[0]))
    if n == "OEntire":
        out.append(Con("OGen", o.args[0]))
    if n == "ONo":
        out.append(Con("OGen", Con("SNo")))
    if n == "OMulti":
        ms = list(o.args[0])
        for i, m in enumerate(ms):
            for v in near_variants(m):
                if v.name not in ("ONo", "OMulti"):
                    out.append(Con("OMulti", ms[:i] + [v] + ms[i + 1:]))
        if len(ms) >= 2:
            out.append(Con("OMulti", list(reversed(ms))))
            out.append(Con("OMulti", ms + [ms[0]]))
    return [v for v in out if v != o]


def change_origin_somewhere(rng, t):
    ps = list(paths(t))
    path = rng.choice(ps)
    old = get_at(t, path).args[2]
    near = near_variants(old)
    if near and rng.random() < 0.6:
        o = rng.choice(near)
    else:
        for _ in range(10):
            o = gen_origin(rng)
            if o != old:
                break
    return replace_at(t, path, lambda x: with_origin(x, o)), len(path)


def gen_cases(rng, tier):
    cases = []
    n_uni = 14 if tier == "quick" else 200
    per = 25 if tier == "quick" else 100
    for _ in range(n_uni):
        u = gen_universe(rng, force_falsy=rng.random() < 0.3)
        uj = universe_to_json(u)
        ct = u.term()
        cn = [c.name for c in u.classes]
        for _ in range(per):
            tg = TreeGen(rng, u, max_nodes=12 if tier == "quick" else 60, max_depth=rng.randint(2, 5), share=0.0,
                         origins=gen_origin if rng.random() < 0.8 else None)
            a = tg.node(rng.choice(cn))
            k = rng.random()
            if k < 0.6:
                b, depth = change_origin_somewhere(rng, a)
                kind = f"origin-at-depth-{min(depth, 4)}"
            elif k < 0.8:
                b, kind = a, "twin"
            else:
                e = edit(rng, u, a)
                if e is None:
                    continue
                kind, b = "content:" + e[0], e[1]
            b = retag(b, 10000)
            if rng.random() < 0.5:
                c, _ = change_origin_somewhere(rng, b)
            else:
                c = b
            c = retag(c, 10000)
            # in a third of the cases a is detached before b and c are built: b may then be issued a's id
            # (ids are unique among registered nodes only), and == must still look at every position
            cases.append({"kind": kind, "input": Con("C02", ct, a, b, c), "digest_size": 8,
                          "opts": {"universe": uj, "detach_first": rng.random() < 0.33}})
    return cases


def impl(t, case):
    import gc

    u = universe_from_json(case["opts"]["universe"])
    u.load()
    bd = Built(u, mk_origin)
    a = bd.build(t.args[1])
    if case["opts"].get("detach_first"):
        a.detach()
    b, c = bd.build(t.args[2]), bd.build(t.args[3])
    ha = hash(a)

    def safe(f):
        try:
            return bool(f())
        except ValueError:
            return Con("ValueError")

    r = Con("Eq", safe(lambda: a == b), safe(lambda: b == a), safe(lambda: a != b), safe(lambda: a == a),
            safe(lambda: b == c), safe(lambda: a == c))
    # clauses outside the model: non-nodes, hash stability
    extra = []
    for other in (1, "x", None, (a,), object()):
        try:
            if a == other or not (a != other):
                extra.append("eq-non-node")
        except Exception as e:  # noqa
            extra.append("eq-non-node-raises:" + type(e).__name__)
    if hash(a) != ha or hash(a) != hash(a.id):
        extra.append("hash-not-constant")
    extra += same_named_class_probe()
    extra += deep_tree_probe()
    del bd, a, b, c
    gc.collect()
    if extra:
        return Con("EqExtra", r, sorted(set(extra)))
    return r


_PROBE = []


def same_named_class_probe():
    """comparing with a node of another class is False, also when the other class has the same name, fields, values
    and origin (two classes made by one factory). Outside the model (class identity = class name there)."""
    if not _PROBE:
        from dataclasses import dataclass

        from pyoak.node import ASTNode

        def mk():
            @dataclass(frozen=True)
            class VerifTwinProbe(ASTNode):
                x: int = 0
            return VerifTwinProbe
        _PROBE.extend([mk(), mk()])
    A, B = _PROBE
    a, b = A(x=1), B(x=1)
    out = []
    if a == b or b == a or not (a != b):
        out.append("eq-same-named-other-class")
    # instances of the base class itself are nodes too: == looks at their origin like everywhere else (seeded change C02-11)
    from pyoak.node import ASTNode
    from pyoak.origin import CodeOrigin, MemoryTextSource, get_code_range
    src = MemoryTextSource(_raw="abcdef")
    o1, o2 = CodeOrigin(src, get_code_range(0, 1, 0, 2, 1, 2)), CodeOrigin(src, get_code_range(2, 1, 2, 4, 1, 4))
    p, q, r = ASTNode(origin=o1), ASTNode(origin=o2), ASTNode(origin=o1)
    if p == q or not (p != q) or not (p == r) or (p != r):
        out.append("eq-bare-astnode-origin")
    return out


_DEEP = []


def deep_tree_probe():
    """== / != on separately built chains far deeper than the interpreter's recursion limit (the property says "at any
    depth"; the model's trees stay small): equal chains, chains differing only at the deepest node, chains differing only
    in the origin of the deepest node.  Run once per worker process (seeded change C02-9: == by recursion)."""
    if _DEEP:
        return _DEEP[0]
    from dataclasses import dataclass

    from pyoak.node import ASTNode
    from pyoak.origin import CodeOrigin, MemoryTextSource, get_code_range

    @dataclass(frozen=True)
    class VerifDeepProbe(ASTNode):
        v: int = 0
        nxt: "VerifDeepProbe | None" = None

    VerifDeepProbe.__annotations__["nxt"] = VerifDeepProbe | None

    def chain(depth, last, origin=None):
        n = VerifDeepProbe(v=last) if origin is None else VerifDeepProbe(v=last, origin=origin)
        for k in range(depth):
            n = VerifDeepProbe(v=k, nxt=n)
        return n

    out = []
    try:
        src = MemoryTextSource(_raw="abcdef")
        o = CodeOrigin(src, get_code_range(0, 1, 0, 2, 1, 2))
        a, b, c, d = chain(3000, 7), chain(3000, 7), chain(3000, 8), chain(3000, 7, o)
        if not (a == b) or (a != b) or not (a == a):
            out.append("deep:equal-chains-not-equal")
        if a == c or not (a != c):
            out.append("deep:different-leaf-equal")
        if a == d or not (a != d):
            out.append("deep:different-leaf-origin-equal")
        if a.content_id != b.content_id or a.content_id == c.content_id or not a.is_equal(d):
            out.append("deep:content-id")
        hash(a)
    except RecursionError:
        out.append("deep:RecursionError")
    except Exception as e:  # noqa
        out.append("deep:raises:" + type(e).__name__)
    _DEEP.append(out)
    return out


CLAUSES = ["a==b", "b==a", "a!=b", "a==a", "b==c", "a==c"]


def compare(inp, impl_obs, model_obs):
    if isinstance(impl_obs, Con) and impl_obs.name == "EqExtra":
        return [x.decode() for x in impl_obs.args[1]]
    if isinstance(impl_obs, Con) and impl_obs.name == "Eq" and isinstance(model_obs, Con) and model_obs.name == "Eq":
        return [c for c, x, y in zip(CLAUSES, impl_obs.args, model_obs.args) if x != y]
    return ["result"]


def nontrivial(inp, model_obs):
    return tree_depth(inp.args[1]) >= 3


def spec_violation(inp, impl_obs, model_obs, diffs):
    return True
