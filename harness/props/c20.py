"""C20 - legacy traversal and legacy XPath.  Three kinds of cases:
  (C20T ct root start prune_set filter_set classes exact)  traversals of an attached legacy tree from `start`
  (C20X ct root [xpath AST ...])                           calculate_xpath + ASTXpath(x).match(n) for every node n
  (C20B text)                                              a text outside the grammar: definition error only
Legacy classes are generated here (harness/lib/universe.py only prints classes of the current API): mutable dataclasses
deriving from pyoak.legacy.node.AwareASTNode with required / optional / tuple / LIST child fields and a few properties;
trees are built bottom-up, so every parent constructor attaches its children."""
from __future__ import annotations

import gc
import itertools
import json
import sys
import types
import warnings

from ..lib.term import Con, Some, from_text, to_text
from ..lib.universe import (Built, ClassSpec, FieldSpec, TreeGen, Universe, _uid, iter_nodes, node_cls, to_py, tree_depth,
                            tree_size)
from .c15 import gen_origin, mk_origin

ID = "C20"
ENTRY = "C20"
RUNNER = "run_C20"
RUN_MODULES = ["Run.RunC20"]
RULE = ("generated legacy class families (leaf classes with subclasses up to 2 levels, inner classes with required / optional / "
        "tuple / list child fields interleaved with properties, union child types) and attached trees built bottom-up without "
        "repeated objects, tuples and lists up to 14 elements; traversal cases: start node = the root or an inner node, prune and "
        "filter = subsets of node addresses INCLUDING the start node: ALL pairs of subsets when the start subtree has <= 3 nodes, "
        "random subsets beyond; observed: the full (node, parent, parent_field, parent_index) streams (read from the yielded "
        "objects' attributes) of dfs top-down / bottom-up and bfs, without predicates, with predicates, with predicates and "
        "skip_self, gather with class tuples (exact and not, skip_self both ways); xpath cases: per tree 12 xpaths generated from "
        "the grammar as ASTs (1-4 class-bearing steps, `//`, @field, [index], [], own / base / AwareASTNode / omitted class, "
        "indices 0-14 with leading zeros and blanks between digits, relative and absolute spellings, blanks between tokens; also "
        "unknown classes and a last step without class), two thirds read off a node's chain and perturbed; observed: match "
        "verdict for EVERY node, the xpath attribute of every node after root.calculate_xpath(), ASTXpathDefinitionError (and "
        "nothing else) for rejected paths; malformed texts (token mutations leaving the grammar) must raise the definition error "
        "only; non-trivial = traversal: start subtree of depth >= 3 or a sequence field with >= 2 elements; xpath: tree >= 4 nodes "
        "and a path with >= 2 elements or a field/index constraint; distinct = distinct input terms")
TRUSTED_BASE = [
    "models coq/Model/LegacyTrav.v, coq/Model/LegacyXpath.v hand-written from src/pyoak/legacy/node.py:108-118,961-981,1199-1358,"
    "1462-1491 and src/pyoak/legacy/match/xpath.py; a legacy object is modelled as (stored node, parent attributes): valid for "
    "attached trees built by construction; tie = this correspondence run",
    "lark LALR parser + contextual lexer for the text -> steps direction; the printer of xpath ASTs in this file; the list of "
    "malformed texts is malformed by construction of this file (the model answers DefinitionError for them by fiat)",
]
ASSUMPTIONS = [
    "attached legacy trees built once bottom-up, no node object at two positions, no mutation history (C18/C19)",
    "prune/filter predicates are functions of the yielded node's identity in the correspondence run (arbitrary functions of the "
    "object and its parent attributes in the theorems)",
    "the class written ASTNode in the model is the legacy base class AwareASTNode; class names are unique (pyoak's TYPES registry)",
]

BASE = "AwareASTNode"


# ---------------------------------------------------------------------------------------------- legacy universes
class LUniverse(Universe):
    """Universe whose Python source declares legacy (mutable, parent-aware) dataclasses.  FieldSpec.seq in
    {"tuple", "list"} for role Tup; the class table given to the model does not distinguish them."""

    def source(self):
        L = ["from __future__ import annotations"] if self.future else []
        L += ["from dataclasses import dataclass, field", "from pyoak.legacy.node import AwareASTNode as ASTNode", ""]
        for c in self.classes:
            L.append("@dataclass")
            L.append(f"class {c.name}({c.base or 'ASTNode'}):")
            body = ["    " + self.field_line(f) for f in c.own] or ["    pass"]
            L += body
            L.append("")
        return "\n".join(L)

    def field_line(self, f):
        if f.role == "Prop":
            ann = {"int": "int", "str": "str", "bool": "bool", "optint": "int | None", "tupint": "tuple[int, ...]"}[f.ptype]
        else:
            u = " | ".join(f.child_types)
            if f.role == "One":
                ann = u
            elif f.role == "Opt":
                ann = u + " | None"
            elif getattr(f, "seq", "tuple") == "list":
                ann = f"list[{u}]"
            else:
                ann = f"tuple[{u}, ...]"
        opts = []
        if f.has_default:
            if f.role == "Prop":
                opts.append("default=" + repr(py_of_val(f.default)))
            elif f.role == "Opt":
                opts.append("default=None")
            elif getattr(f, "seq", "tuple") == "list":
                opts.append("default_factory=list")
            else:
                opts.append("default=()")
        if not f.compare:
            opts.append("compare=False")
        if f.kw_only:
            opts.append("kw_only=True")
        return f"{f.name}: {ann}" + (f" = field({', '.join(opts)})" if opts else "")

    def load(self):
        if self.module is None:
            m = types.ModuleType(f"verif_legacy_universe_{self.uid}_{self.enum_name}")
            sys.modules[m.__name__] = m
            with warnings.catch_warnings():
                warnings.simplefilter("ignore")
                exec(compile(self.source(), m.__name__, "exec"), m.__dict__)
            self.module = m
        return self.module


def py_of_val(v):
    return to_py(v, None, None)


def luniverse_to_json(u):
    return {"uid": u.uid, "tag": u.enum_name, "future": u.future,
            "classes": [{"name": c.name, "base": c.base,
                         "own": [{"name": f.name, "role": f.role, "compare": f.compare, "kw_only": f.kw_only, "ptype": f.ptype,
                                  "child_types": list(f.child_types), "seq": getattr(f, "seq", "tuple"),
                                  "has_default": f.has_default,
                                  "default": None if f.default is None else to_text(f.default)} for f in c.own]}
                        for c in u.classes]}


_LU_CACHE = {}


def luniverse_from_json(d):
    key = d["tag"]
    if key not in _LU_CACHE:
        classes = []
        for c in d["classes"]:
            own = []
            for f in c["own"]:
                fs = FieldSpec(f["name"], f["role"], f["compare"], True, f["kw_only"], f["ptype"], f["child_types"], 0,
                               None if f["default"] is None else from_text(f["default"]), f["has_default"])
                fs.seq = f["seq"]
                own.append(fs)
            classes.append(ClassSpec(c["name"], c["base"], own))
        _LU_CACHE[key] = LUniverse(classes, d["tag"], d["future"], d["uid"])
    return _LU_CACHE[key]


PVALS = {"int": [Con("VInt", 0), Con("VInt", 7), Con("VInt", -1)], "str": [Con("VStr", "a"), Con("VStr", ""), Con("VStr", "x y")],
         "bool": [Con("VBool", True), Con("VBool", False)], "optint": [Con("VNone"), Con("VInt", 3)],
         "tupint": [Con("VTuple", []), Con("VTuple", [Con("VInt", 1), Con("VInt", 2)])]}


def gen_luniverse(rng):
    uid = next(_uid)
    tag = f"_l{uid}x{rng.randint(0, 10**6)}"
    future = rng.random() < 0.6
    classes = []
    names = []
    letters = iter("ABCDEFGHIJKLMNOPQRSTUVWXYZ")
    fname_pool = ["a", "b", "child", "items", "x", "xs", "left", "right", "body", "nested", "kids", "value", "n", "t"]

    def prop(name, seen_default):
        pt = rng.choice(["int", "str", "bool", "optint", "tupint"])
        f = FieldSpec(name, "Prop", ptype=pt)
        f.compare = rng.random() < 0.85
        if seen_default or rng.random() < 0.5:
            f.has_default = True
            f.default = rng.choice(PVALS[pt])
        return f

    # leaf families: a leaf class, possibly with one or two levels of subclasses (base-class names in xpaths / gather)
    for _ in range(rng.randint(1, 2)):
        base = None
        for _lvl in range(rng.randint(1, 3)):
            name = next(letters) + tag
            used = {f.name for f in (Universe(classes, tag, future, uid).merged(base) if base else [])}
            seen_default = base is not None   # keep it simple: subclasses only add defaulted fields
            own = []
            for _k in range(rng.randint(0, 2)):
                free = [n for n in fname_pool if n not in used]
                fn = rng.choice(free)
                used.add(fn)
                f = prop(fn, seen_default)
                seen_default = seen_default or f.has_default
                own.append(f)
            classes.append(ClassSpec(name, base, own))
            names.append(name)
            base = name
    # inner classes: child fields of every shape, referring to earlier classes (and to themselves with postponed annotations)
    for _ in range(rng.randint(2, 3)):
        name = next(letters) + tag
        avail = names + ([name] if future else [])
        used = set()
        own = []
        seen_default = False
        for _k in range(rng.randint(1, 5)):
            free = [n for n in fname_pool if n not in used]
            fn = rng.choice(free)
            used.add(fn)
            if rng.random() < 0.25:
                f = prop(fn, False)
            else:
                role = rng.choice(["One", "Opt", "Tup", "Tup", "Tup"])
                pool = names if role == "One" else avail      # a required child of the class itself could never be built
                cts = rng.sample(pool, k=min(len(pool), rng.choice([1, 1, 2])))
                f = FieldSpec(fn, role, child_types=cts)
                f.seq = rng.choice(["tuple", "list"]) if role == "Tup" else "tuple"
                if role != "One" and rng.random() < 0.5:
                    f.has_default = True
            if not f.has_default and seen_default:
                f.kw_only = True
            elif rng.random() < 0.1:
                f.kw_only = True
            if f.has_default and not f.kw_only:
                seen_default = True
            own.append(f)
        if not any(f.role != "Prop" for f in own):
            f = FieldSpec("kids", "Tup", child_types=[rng.choice(names)])
            f.seq = "list"
            f.kw_only = seen_default
            own.append(f)
        classes.append(ClassSpec(name, None, own))
        names.append(name)
    return LUniverse(classes, tag, future, uid)


def gen_ltree(rng, u, max_nodes, max_depth, origins=None):
    inner = [c.name for c in u.classes if any(f.role != "Prop" for f in c.own)]
    best = None
    for _ in range(6):
        tg = TreeGen(rng, u, max_nodes=max_nodes, max_depth=max_depth, share=0, origins=origins)
        t = tg.node(rng.choice(inner))
        if best is None or tree_size(t) > tree_size(best):
            best = t
        if tree_size(best) >= min(5, max_nodes):
            break
    return best


class LBuilt(Built):
    def build(self, t):
        a = t.args[0]
        if a in self.objs:
            raise AssertionError("legacy trees hold every object once")
        cname = t.args[1].decode()
        cls = getattr(self.mod, cname)
        spec = {f.name: f for f in self.u.merged(cname)}
        kwargs = {}
        for p in t.args[3]:
            kwargs[p.args[0].decode()] = py_of_val(p.args[1])
        for k in t.args[4]:
            name = k.args[0].decode()
            sh = k.args[1].name
            if sh == "ShNone":
                kwargs[name] = None
            elif sh == "ShOne":
                kwargs[name] = self.build(k.args[2][0])
            else:
                kids = [self.build(c) for c in k.args[2]]
                kwargs[name] = kids if getattr(spec[name], "seq", "tuple") == "list" else tuple(kids)
        obj = cls(origin=self.mk_origin(t.args[2]), **kwargs)
        self.objs[a] = obj
        self.addr_of[id(obj)] = a
        return obj


# ---------------------------------------------------------------------------------------------- xpath ASTs
def St(field, idx, cls):
    """field: str|None; idx: None (absent) | "empty" | int; cls: str|None"""
    it = Con("IAbsent") if idx is None else (Con("IEmpty") if idx == "empty" else Con("IVal", idx))
    return Con("St", None if field is None else Some(field), it, None if cls is None else Some(cls))


EMPTY = St(None, None, None)


def _ws(rng, must=False):
    if rng.random() < 0.75 and not must:
        return ""
    return rng.choice([" ", " ", "  ", "\t", "\n", " \t "])


def step_text(rng, s, slash=True, plain=False):
    f, i, c = s.args
    w = (lambda must=False: " " if must else "") if plain else (lambda must=False: _ws(rng, must))
    out = "/" if slash else ""
    if f.name == "Some":
        out += w() + "@" + w() + f.args[0].decode()
    if i.name == "IEmpty":
        out += w() + "[" + w() + "]"
    elif i.name == "IVal":
        d = str(i.args[0])
        if not plain and rng.random() < 0.15:
            d = "0" * rng.randint(1, 2) + d
        if not plain and rng.random() < 0.15:
            d = " ".join(d)
        out += w() + "[" + w() + d + w() + "]"
    if c.name == "Some":
        need = f.name == "Some" and i.name == "IAbsent"   # two names in a row need a blank between them
        cn = c.args[0].decode()
        out += w(need) + (BASE if cn == "ASTNode" else cn)
    return out + w()


def xpath_text(rng, xp, plain=False):
    rel = xp.args[0].name == "T"
    steps = xp.args[1]
    txt = "".join(step_text(rng, s, slash=not (rel and k == 0), plain=plain) for k, s in enumerate(steps))
    if rel:
        # ASTXpath tests text.startswith("/"): a relative spelling whose first printed character is "/" gets a blank in front
        txt = txt.lstrip() if not txt.lstrip().startswith("/") else " " + txt.lstrip()
    else:
        txt = txt.lstrip()
    assert txt.startswith("/") != rel
    return txt


def chains(root_t):
    out = []

    def go(t, ch):
        out.append((t, ch))
        for k in t.args[4]:
            many = k.args[1].name == "ShMany"
            for j, c in enumerate(k.args[2]):
                go(c, ch + [(k.args[0].decode(), j if many else None, c)])

    go(root_t, [(None, None, root_t)])
    return out


def gen_xpath(rng, u, all_chains, broken=0.06):
    cn = [c.name for c in u.classes]
    fields = sorted({f.name for c in u.classes for f in c.own}) + ["child", "items", "nope"]

    def cls_choice(actual):
        k = rng.random()
        if actual is not None and k < 0.45:
            return actual
        if actual is not None and k < 0.65:
            b = u.bases(actual)
            return rng.choice(b) if b else actual
        if k < 0.75:
            return "ASTNode"
        if k < 0.85:
            return None
        return rng.choice(cn)

    def idx_choice(actual):
        k = rng.random()
        if k < 0.4:
            return None
        if k < 0.47:
            return "empty"
        if actual is not None and k < 0.8:
            return actual
        if actual is not None and k < 0.9:
            # the first / last digit alone, or ten more: what a one-digit reading would confuse
            return rng.choice([int(str(actual)[0]), actual % 10, actual + 10, max(0, actual - 10)])
        return rng.choice([0, 0, 1, 2, 9, 10, 11, 12, 13, 14])

    steps = []
    if rng.random() < 0.67 and all_chains:
        n, ch = rng.choice(all_chains)
        k = min(len(ch), rng.choice([1, 1, 2, 2, 3, 4]))
        pick = sorted(rng.sample(range(len(ch)), k))
        if rng.random() < 0.7 and pick[-1] != len(ch) - 1:
            pick[-1] = len(ch) - 1          # mostly end on the node itself
        prev = -1
        for p in pick:
            f, i, t = ch[p]
            if p != prev + 1 or (prev == -1 and rng.random() < 0.2):
                steps.append(EMPTY)
            fld = f if (f is not None and rng.random() < 0.55) else None
            if rng.random() < 0.08:
                fld = rng.choice(fields)
            if p != pick[-1] and rng.random() < 0.12:
                # a step that is `[]` alone: exactly one level, any field / index / class - not the `//` wildcard
                # (seeded change C20-8)
                steps.append(St(None, "empty", None))
            else:
                steps.append(St(fld, idx_choice(i), cls_choice(node_cls(t))))
            prev = p
    else:
        for _ in range(rng.choice([1, 1, 2, 2, 3, 4])):
            if rng.random() < 0.4:
                steps.append(EMPTY)
                if rng.random() < 0.1:
                    steps.append(EMPTY)
            steps.append(St(rng.choice(fields) if rng.random() < 0.4 else None, idx_choice(None), cls_choice(None)))
            if rng.random() < 0.1:
                steps.insert(len(steps) - 1, St(None, "empty", None))
    k = rng.random()
    f, i, c = steps[-1].args
    if k < broken / 2:
        if c.name == "Some":          # no class on the last step: the grammar's rule `self` rejects it
            steps[-1] = Con("St", f, i, None)
        if rng.random() < 0.5:
            steps.append(EMPTY)
    else:
        if c.name != "Some":          # the last step carries a class (an all-absent step would be an empty step)
            steps[-1] = Con("St", f, i, Some(rng.choice(cn + ["ASTNode"])))
        if k < broken:                # a class name that is not a registered legacy class
            j = rng.randrange(len(steps))
            if steps[j] != EMPTY:
                steps[j] = Con("St", steps[j].args[0], steps[j].args[1], Some(rng.choice(["NoSuchClass_zz", "CodeOrigin", "Origin"])))
    rel = rng.random() < 0.4
    if rel and steps[0] == EMPTY and rng.random() < 0.7 and len(steps) > 1:
        steps = steps[1:]                   # "A/B" is the usual relative spelling of "//A/B"
    return Con("XP", rel, steps)


def bad_texts(rng, u):
    """texts outside the grammar (by construction): every one must raise ASTXpathDefinitionError and nothing else"""
    cn = [c.name for c in u.classes]
    A, B = rng.choice(cn), rng.choice(cn)
    k = rng.choice([1, 7, 12])
    fixed = ["", " ", "/", "//", "///", f"/{A}/", f"/{A}//", f"{A}//", f"/{A}/@x", f"/{A}/@x[{k}]", f"/{A}/[{k}]", f"/{A}/[]",
             f"/@x[{k}", f"/@x {k}] {A}", f"/[{k}][{k}]{A}", f"/[{k}]@x {A}", f"/{A} @x", f"/{A} {B}", f"/@ {A}/", f"/@[{k}]{A}",
             f"/@x@y {A}", f"/[-{k}]{A}", f"/[+{k}]{A}", f"/[{k}.0]{A}", f"/[a]{A}", f"/{A}$", f"/{A}#", f"/{A}/*", f"/{A}|{B}",
             f"/{A}({B})", f"/{A}[{k}]", f"\\{A}", f"/{A}/..", f"/{A}/.", f"//{A}/'x'", f"/{A}/@x={k}", f"/{k}{A}/", f"/@{k}x {A}",
             "/ASTNode", f"/{A}/ASTNode", "/Origin", "/NoSuchClass_zz", f"/{A}/@x NoSuchClass_zz", "é", f"/{A}é", f"/@é {A}"]
    return fixed


# ---------------------------------------------------------------------------------------------- cases
def gen_cases(rng, tier):
    cases = []
    n_uni = 18 if tier == "quick" else 200
    for _ in range(n_uni):
        u = gen_luniverse(rng)
        uj = luniverse_to_json(u)
        ct = u.term()
        assert Universe.term(luniverse_from_json(json.loads(json.dumps(uj)))) == ct   # what impl() will compare with
        cn = [c.name for c in u.classes]
        # ---- traversals
        for _k in range(5 if tier == "quick" else 14):
            small = rng.random() < 0.3
            root = gen_ltree(rng, u, max_nodes=3 if small else (25 if tier == "quick" else 100), max_depth=2 if small else rng.randint(2, 6),
                             origins=gen_origin if rng.random() < 0.2 else None)
            nodes = list(iter_nodes(root))
            starts = [root] + ([rng.choice(nodes)] if len(nodes) > 1 else [])
            for st in starts:
                addrs = [n.args[0] for n in iter_nodes(st)]
                classes = rng.sample(cn + ["ASTNode"], k=rng.randint(1, min(3, len(cn))))
                exact = rng.random() < 0.5
                if len(addrs) <= 3:
                    subsets = [list(s) for r in range(len(addrs) + 1) for s in itertools.combinations(addrs, r)]
                    for pr in subsets:
                        for fl in subsets:
                            cases.append({"kind": "trav:exhaustive-predicates", "opts": {"universe": uj},
                                          "input": Con("C20T", ct, root, st.args[0], pr, fl, classes, exact)})
                else:
                    for j in range(3):
                        pr = [a for a in addrs if rng.random() < 0.2]
                        fl = [a for a in addrs if rng.random() < 0.3]
                        if j == 1:
                            pr = [addrs[0]] + pr          # the start node itself pruned
                        if j == 2:
                            fl = [addrs[0]] + fl          # the start node itself filtered out
                        cases.append({"kind": "trav:random-predicates", "opts": {"universe": uj},
                                      "input": Con("C20T", ct, root, st.args[0], pr, fl, classes, exact)})
        # ---- xpaths
        for _k in range(6 if tier == "quick" else 14):
            root = gen_ltree(rng, u, max_nodes=rng.choice([8, 14, 22, 30]), max_depth=rng.choice([2, 3, 4, 5]))
            chs = chains(root)
            xps = [gen_xpath(rng, u, chs) for _ in range(12)]
            cases.append({"kind": "xpath", "input": Con("C20X", ct, root, xps),
                          "opts": {"universe": uj, "ws_seed": rng.randrange(1 << 30)}})
        # ---- malformed texts
        for txt in rng.sample(bad_texts(rng, u), k=6 if tier == "quick" else 20):
            cases.append({"kind": "malformed-text", "input": Con("C20B", txt), "opts": {"universe": uj}})
    return cases


# ---------------------------------------------------------------------------------------------- implementation
def _compile(text):
    from pyoak.legacy.match.error import ASTXpathDefinitionError
    from pyoak.legacy.match.xpath import ASTXpath

    try:
        return ASTXpath(text)
    except ASTXpathDefinitionError:
        return None                      # anything else escapes and is reported as (ImplCrash ...)


_LATE20 = {"done": False, "bad": None}


def _late_class_probe():
    """once per worker: a legacy class name that did not exist when an xpath naming it was rejected is accepted, and matches
    instances of the class, once the class exists (seeded change C20-10: class-name resolution memoised)"""
    if _LATE20["done"]:
        return _LATE20["bad"]
    _LATE20["done"] = True
    import os
    import sys
    import types

    name = f"VerifLateLegacy{os.getpid()}"
    bad = None
    if _compile("//" + name) is not None:
        bad = "unknown-class-accepted"
    m = types.ModuleType("verif_c20_late")
    sys.modules[m.__name__] = m
    with warnings.catch_warnings():
        warnings.simplefilter("ignore")
        exec(compile("from dataclasses import dataclass\nfrom pyoak.legacy.node import AwareASTNode\n"
                     f"@dataclass\nclass {name}(AwareASTNode):\n    v: int = 0\n", m.__name__, "exec", dont_inherit=True), m.__dict__)
        from pyoak.origin import NO_ORIGIN
        inst = getattr(m, name)(origin=NO_ORIGIN)
    X = _compile("//" + name)
    if X is None:
        bad = bad or "late-defined-class-still-rejected"
    else:
        inst.calculate_xpath()
        if not X.match(inst):
            bad = bad or "late-defined-class-does-not-match"
    inst.detach()
    _LATE20["bad"] = bad
    return bad


def impl(t, case):
    import random

    lb = _late_class_probe()
    if lb:
        return Con("ProbeViolation", lb)

    u = luniverse_from_json(case["opts"]["universe"])
    with warnings.catch_warnings():
        warnings.simplefilter("ignore")
        mod = u.load()
    gc.collect()
    if t.name == "C20B":
        return Con("DefinitionError") if _compile(t.args[0].decode()) is None else Con("Accepted")
    if t.args[0] != u.term():
        return Con("InputMismatch")      # only a shrinker produces this: the class table no longer is the loaded universe's
    b = LBuilt(u, mk_origin)
    root = b.build(t.args[1])
    A = b.addr

    def obs(n):
        p = n.parent
        if p is None:
            if n.parent_field is not None or n.parent_index is not None:
                return Con("BadInfo", A(n))
            return [A(n), None, None, None]
        v = getattr(p, n.parent_field.name)
        got = v if n.parent_index is None else v[n.parent_index]
        if got is not n:
            return Con("BadInfo", A(n))
        return [A(n), Some(A(p)), Some(n.parent_field.name), None if n.parent_index is None else Some(n.parent_index)]

    if t.name == "C20T":
        start = b.objs[t.args[2]]
        prs, fls = set(t.args[3]), set(t.args[4])
        classes = tuple(ASTNode_of(mod, c.decode()) for c in t.args[5])
        exact = t.args[6].name == "T"
        prune = lambda n: A(n) in prs
        filt = lambda n: A(n) not in fls
        S = lambda it: [obs(n) for n in it]
        res = Con("Trav",
                   S(start.dfs()), S(start.dfs(bottom_up=True)), S(start.bfs()),
                   S(start.dfs(prune=prune, filter=filt)), S(start.dfs(prune=prune, filter=filt, bottom_up=True)),
                   S(start.bfs(prune=prune, filter=filt)),
                   S(start.dfs(prune=prune, filter=filt, skip_self=True)),
                   S(start.dfs(prune=prune, filter=filt, bottom_up=True, skip_self=True)),
                   S(start.bfs(prune=prune, filter=filt, skip_self=True)),
                   S(start.gather(classes if len(classes) > 1 else classes[0], exact_type=exact, extra_filter=filt, prune=prune)),
                   S(start.gather(classes, exact_type=not exact, skip_self=True)))
        bad = _mutation_probe(start)
        return Con("TraversalAfterMutation", bad) if bad else res
    if t.name == "C20X":
        nodes = [b.objs[n.args[0]] for n in iter_nodes(t.args[1])]
        if root.calculate_xpath() is not True:
            return Con("CalculateXpathRefused")
        xs = [[A(n), n.xpath if isinstance(n.xpath, str) else Con("NoXpath")] for n in nodes]
        wrng = random.Random(case["opts"].get("ws_seed", 0))
        plain = bool(case["opts"].get("plain"))
        out = []
        for xp in t.args[2]:
            X = _compile(xpath_text(wrng, xp, plain=plain))
            if X is None:
                out.append(Con("DefinitionError"))
            else:
                out.append(Con("M", [[A(n), bool(X.match(n))] for n in nodes]))
        return Con("XR", xs, out)
    raise ValueError("unknown case")


def _field_walk(n):
    """pre-order walk over the dataclass fields themselves (independent of the library's accessors)"""
    import dataclasses

    from pyoak.legacy.node import AwareASTNode

    out = [n]
    for f in dataclasses.fields(n):
        v = getattr(n, f.name, None)
        if isinstance(v, AwareASTNode):
            out += _field_walk(v)
        elif isinstance(v, (list, tuple)):
            for x in v:
                if isinstance(x, AwareASTNode):
                    out += _field_walk(x)
    return out


def _mutation_probe(start):
    """Implementation-only probe, run AFTER the compared traversals (which may have filled per-node caches): a child held in a
    plain / optional field is replaced in place by a detached clone of itself; every traversal of the tree must then visit
    exactly the nodes the fields hold now (seeded change C20-7: a child list memoised per node and not invalidated)."""
    try:
        cands = [x for x in start.dfs() if x is not start and x.parent is not None and x.parent_index is None]
        for x in cands[:2]:
            x.replace_with(x.duplicate(as_detached_clone=True))
    except Exception:  # noqa: BLE001 - the probe does not apply (a legacy replace_with that refuses is C19's business)
        return None
    # ... and an element that is not the last one is removed from a sequence field; the paths written by calculate_xpath
    # are then pairwise different again (seeded change C20-11: the sibling after the removed element kept its index)
    try:
        seqs = [x for x in start.dfs() if x is not start and x.parent is not None and x.parent_index is not None
                and x.parent_index + 1 < len(getattr(x.parent, x.parent_field.name))]
        if seqs and start.parent is None:
            seqs[0].replace_with(None)
            if start.calculate_xpath() is True:
                xs = [n.xpath for n in _field_walk(start)]
                if len(set(xs)) != len(xs):
                    return "calculate_xpath after a removal: two nodes share a path"
    except Exception:  # noqa: BLE001
        return None
    want = sorted(id(n) for n in _field_walk(start))
    for name, it in (("dfs", start.dfs()), ("dfs(bottom_up)", start.dfs(bottom_up=True)), ("bfs", start.bfs())):
        if sorted(id(n) for n in it) != want:
            return name
    from pyoak.legacy.node import AwareASTNode
    if sorted(id(n) for n in start.gather(AwareASTNode)) != want:
        return "gather"
    return None


def ASTNode_of(mod, name):
    if name == "ASTNode":
        from pyoak.legacy.node import AwareASTNode
        return AwareASTNode
    return getattr(mod, name)


# ---------------------------------------------------------------------------------------------- comparison
T_CLAUSES = ["dfs", "dfs(bottom_up)", "bfs", "dfs(prune,filter)", "dfs(prune,filter,bottom_up)", "bfs(prune,filter)",
             "dfs(prune,filter,skip_self)", "dfs(prune,filter,bottom_up,skip_self)", "bfs(prune,filter,skip_self)",
             "gather", "gather(exactness flipped,skip_self)"]


def _is(x, name, n):
    return isinstance(x, Con) and x.name == name and len(x.args) == n


def compare(inp, impl_obs, model_obs):
    if impl_obs == model_obs or impl_obs == Con("InputMismatch"):
        return []
    if _is(impl_obs, "Trav", 11) and _is(model_obs, "Trav", 11):
        return [c for c, x, y in zip(T_CLAUSES, impl_obs.args, model_obs.args) if x != y]
    if _is(impl_obs, "XR", 2) and _is(model_obs, "XR", 2):
        d = []
        if sorted(impl_obs.args[0]) != sorted(model_obs.args[0]):
            d.append("calculate_xpath")
        mi, mm = impl_obs.args[1], model_obs.args[1]
        if len(mi) != len(mm):
            return d + ["result"]
        for x, y in zip(mi, mm):
            if x == y:
                continue
            if _is(x, "M", 1) and _is(y, "M", 1):
                if sorted(x.args[0]) != sorted(y.args[0]) and "match" not in d:
                    d.append("match")
            elif "definition-error" not in d:
                d.append("definition-error")
        return d
    if inp.name == "C20B":
        return ["definition-error"]
    return ["result"]


def nontrivial(inp, model_obs):
    if inp.name == "C20T":
        start = next(n for n in iter_nodes(inp.args[1]) if n.args[0] == inp.args[2])
        return tree_depth(start) >= 3 or any(len(k.args[2]) >= 2 for n in iter_nodes(start) for k in n.args[4])
    if inp.name == "C20X":
        root, xps = inp.args[1], inp.args[2]
        rich = any(len([s for s in xp.args[1] if s != EMPTY]) >= 2 or
                   any(s.args[0].name == "Some" or s.args[1].name == "IVal" for s in xp.args[1]) for xp in xps)
        return tree_size(root) >= 4 and rich
    return False


def spec_violation(inp, impl_obs, model_obs, diffs):
    return True   # streams, verdicts, strings and the error kind are all fixed by the property
