(* C01, completeness direction and declaration-order independence (to be merged into Props/C01.v).
   ONLY statements; proofs are `exact <lemma>` (Proofs/EncodeComplete.v).

   Reading guide
   - `ceq_r ct a b` is `ceq ct a b` of Spec/CEq.v with two property values related by *rendering equality*
     `render_eq v v' := tytag v = tytag v' /\ stable_str v = stable_str v'` instead of `veq`
     (`ceq_gen R` is the Fixpoint `ceq` with the value relation as a parameter; `ceq = ceq_gen veq` by conversion).
   - `names_ok ct`: no user field is named id / content_id / origin, child field names contain no '['.
   - `node_values_ok ct n`: at every node of the tree the class name contains no ':' and the class name of an
     enum-valued *comparable* property contains no '('.   (All four hold of Python identifiers.)
   - `scalar et v`: v is None / bool / int / str / float / path / enum member whose payload is the one the enum
     table `et : class -> member -> payload` assigns (the rendering of an enum member shows class and member only).
   - `deep et v`: v is scalar, or a tuple / frozenset whose elements satisfy `nested_ok et` at every depth:
     any None / bool / int / str (all bytes: quotes, escapes, separators) / path; floats whose repr is float-like
     (`float_ok`: characters 0-9 - + . e i n f a, starts like a number / inf / nan, not an int literal); enum
     members of the table whose class name has no '.' and member name no ':'; tuples and frozensets of those. *)
From Oak Require Import Spec.CEq Proofs.AccessProofs Proofs.EncodeSound Proofs.EncodeComplete.

(* the order in which a class declares its fields never influences the content id *)
Theorem C01_indep_field_order : forall H ct1 ct2 vr, v_stable vr = true ->
  (forall c, Permutation (fields_of ct1 c) (fields_of ct2 c)) ->
  (forall c f, In f (fields_of ct1 c) -> builtin f = false) ->
  forall n, content_id H ct1 vr n = content_id H ct2 vr n.
Proof. intros H ct1 ct2 vr S P U. exact (indep_field_order ct1 ct2 P U H vr S). Qed.

(* the framing theorem: a collision-free hex digest separates trees that differ in class, in the rendering of a
   comparable property, in the shape of a child field or in a child *)
Theorem C01_complete_framing : forall (H : pystr -> pystr) ct,
  (forall x y, H x = H y -> x = y) ->            (* collision-free digest *)
  (forall x, forallb is_hex (H x) = true) ->      (* hexdigest: only 0-9a-f *)
  names_ok ct ->
  forall a b, wf_node ct a = true -> wf_node ct b = true -> node_values_ok ct a -> node_values_ok ct b ->
  cls a = cls b -> content_id H ct current a = content_id H ct current b -> ceq_r ct a b.
Proof. exact complete_framing. Qed.

(* the same without the class premise: the class name is itself determined by the digest *)
Theorem C01_complete_framing_strong : forall (H : pystr -> pystr) ct,
  (forall x y, H x = H y -> x = y) -> (forall x, forallb is_hex (H x) = true) -> names_ok ct ->
  forall a b, wf_node ct a = true -> wf_node ct b = true -> node_values_ok ct a -> node_values_ok ct b ->
  content_id H ct current a = content_id H ct current b -> ceq_r ct a b.
Proof. exact complete_framing_strong. Qed.

Theorem C01_cid_determines_class : forall (H : pystr -> pystr) ct,
  (forall x y, H x = H y -> x = y) -> (forall x, forallb is_hex (H x) = true) -> names_ok ct ->
  forall a b, wf_node ct a = true -> wf_node ct b = true -> node_values_ok ct a -> node_values_ok ct b ->
  content_id H ct current a = content_id H ct current b -> cls a = cls b.
Proof. exact cid_determines_class. Qed.

Theorem C01_is_equal_complete_framing : forall (H : pystr -> pystr) ct,
  (forall x y, H x = H y -> x = y) -> (forall x, forallb is_hex (H x) = true) -> names_ok ct ->
  forall a b, wf_node ct a = true -> wf_node ct b = true -> node_values_ok ct a -> node_values_ok ct b ->
  is_equal H ct current a b = true -> ceq_r ct a b.
Proof. exact is_equal_complete_framing. Qed.

(* value level: on scalars, equal type tag and equal rendering mean equal value *)
Theorem C01_render_inj_scalar : forall et v v', scalar et v -> scalar et v' ->
  tytag v = tytag v' -> stable_str v = stable_str v' -> veq v v'.
Proof. exact render_inj_scalar. Qed.

(* completeness for trees whose comparable property values are scalars *)
Theorem C01_complete_scalar : forall (H : pystr -> pystr) ct et,
  (forall x y, H x = H y -> x = y) -> (forall x, forallb is_hex (H x) = true) -> names_ok ct ->
  forall a b, wf_node ct a = true -> wf_node ct b = true -> node_values_ok ct a -> node_values_ok ct b ->
  node_scalar ct et a -> node_scalar ct et b ->
  content_id H ct current a = content_id H ct current b -> ceq ct a b.
Proof. exact complete_scalar. Qed.

(* value level, all values of the model: equal type tag and equal rendering mean equal value (frozensets as
   sets). The proof inverts repr: escapes and quote choice of strings (str_repr_prefix), the element separators
   of tuples / frozensets at any depth (nested_delim: the repr of a nested value is self-delimiting), and the
   sorted rendering of frozensets (a permutation of the element reprs). *)
Theorem C01_render_inj_nested : forall et v v', deep et v -> deep et v' ->
  tytag v = tytag v' -> stable_str v = stable_str v' -> veq v v'.
Proof. exact render_inj_deep. Qed.

Theorem C01_str_repr_prefix_free : forall s s' r r', str_repr s ++ r = str_repr s' ++ r' -> s = s' /\ r = r'.
Proof. exact str_repr_prefix. Qed.

(* completeness for trees whose comparable property values are scalars or nested tuples / frozensets.
   (Named without _partial: the side conditions are well-formedness of names and of float / enum values, they
   exclude no Python value; see design notes for what is outside the *model's* value grammar.) *)
Theorem C01_complete_nested : forall (H : pystr -> pystr) ct et,
  (forall x y, H x = H y -> x = y) -> (forall x, forallb is_hex (H x) = true) -> names_ok ct ->
  forall a b, wf_node ct a = true -> wf_node ct b = true -> node_values_ok ct a -> node_values_ok ct b ->
  node_deep ct et a -> node_deep ct et b ->
  content_id H ct current a = content_id H ct current b -> ceq ct a b.
Proof. exact complete_deep. Qed.

(* the property sentence: equal content_id / is_equal exactly when content-equal *)
Theorem C01_cid_iff_ceq : forall (H : pystr -> pystr) ct et,
  (forall x y, H x = H y -> x = y) -> (forall x, forallb is_hex (H x) = true) -> names_ok ct ->
  forall a b, wf_node ct a = true -> wf_node ct b = true -> node_values_ok ct a -> node_values_ok ct b ->
  node_deep ct et a -> node_deep ct et b ->
  (content_id H ct current a = content_id H ct current b <-> ceq ct a b).
Proof. exact cid_iff_ceq. Qed.

Theorem C01_is_equal_iff_ceq : forall (H : pystr -> pystr) ct et,
  (forall x y, H x = H y -> x = y) -> (forall x, forallb is_hex (H x) = true) -> names_ok ct ->
  forall a b, wf_node ct a = true -> wf_node ct b = true -> node_values_ok ct a -> node_values_ok ct b ->
  node_deep ct et a -> node_deep ct et b ->
  (is_equal H ct current a b = true <-> ceq ct a b).
Proof. exact is_equal_iff_ceq. Qed.

(* the premises of the theorems above are satisfiable: tohex is a collision-free hex-valued "digest"; ex_ct has
   two classes (comparable and non-comparable properties, an optional, a mandatory and a tuple child field);
   ex_a, ex_b are two different 4-node trees (identities and non-comparable values differ, string values contain
   the separators) with the same content id *)
Example C01_complete_premises :
  (forall x y, tohex x = tohex y -> x = y) /\ (forall x, forallb is_hex (tohex x) = true) /\
  names_ok ex_ct /\ wf_node ex_ct ex_a = true /\ wf_node ex_ct ex_b = true /\
  node_values_ok ex_ct ex_a /\ node_values_ok ex_ct ex_b /\
  node_scalar ex_ct ex_et ex_a /\ node_scalar ex_ct ex_et ex_b /\
  cls ex_a = cls ex_b /\ content_id tohex ex_ct current ex_a = content_id tohex ex_ct current ex_b /\
  ex_a <> ex_b /\ size ex_a = 4.
Proof. exact complete_premises. Qed.

(* ... and with nested values: a 7-element tuple (negative int, a string with  , ' ) , a nested tuple, a float,
   an enum member, a path, a nested frozenset of a string with both quotes) and a frozenset given in two
   different element orders *)
Example C01_complete_premises_nested :
  names_ok ex_ct2 /\ wf_node ex_ct2 ex_a2 = true /\ wf_node ex_ct2 ex_b2 = true /\
  node_values_ok ex_ct2 ex_a2 /\ node_values_ok ex_ct2 ex_b2 /\
  node_deep ex_ct2 ex_et ex_a2 /\ node_deep ex_ct2 ex_et ex_b2 /\
  content_id tohex ex_ct2 current ex_a2 = content_id tohex ex_ct2 current ex_b2 /\
  nprops ex_a2 <> nprops ex_b2.
Proof. exact complete_premises_nested. Qed.

(* non-vacuity witnesses *)
(* the instance (Proofs/C01Witness.v): w1_ct = Leaf (a comparable and a non-comparable property), Pair (a property, an
   optional, a mandatory and a tuple child), Sub (a subclass of Pair: one more property `tags`, one more child);
   w1_ct2 = the same with every declaration list permuted; six-node / four-level trees w1_sub ..; digest tohex *)
From Oak Require Import Proofs.C01Witness.
(* C01_indep_field_order *)
Theorem C01_ex_field_order :
  v_stable current = true
  /\ (forall c, Permutation (fields_of w1_ct c) (fields_of w1_ct2 c))
  /\ (forall c f, In f (fields_of w1_ct c) -> builtin f = false)
  /\ map fd_name (fields_of w1_ct (lit "Sub")) = map lit ["kind"; "left"; "one"; "items"; "tags"; "extra"]%string
  /\ map fd_name (fields_of w1_ct2 (lit "Sub")) = map lit ["items"; "kind"; "one"; "left"; "extra"; "tags"]%string
  /\ content_id tohex w1_ct current w1_a = content_id tohex w1_ct2 current w1_a.
Proof. exact w1_field_order. Qed.
(* C01_complete_framing, C01_complete_framing_strong, C01_cid_determines_class, C01_is_equal_complete_framing,
   C01_complete_nested, C01_cid_iff_ceq, C01_is_equal_iff_ceq: two different objects (a frozenset stored in two orders,
   different non-comparable notes) with one content id; and a third tree with another one (both sides of the iff) *)
Theorem C01_ex_complete :
  (forall x y, tohex x = tohex y -> x = y) /\ (forall x, forallb is_hex (tohex x) = true) /\ names_ok w1_ct
  /\ wf_node w1_ct w1_a = true /\ wf_node w1_ct w1_b = true /\ node_values_ok w1_ct w1_a /\ node_values_ok w1_ct w1_b
  /\ node_deep w1_ct ex_et w1_a /\ node_deep w1_ct ex_et w1_b
  /\ cls w1_a = cls w1_b /\ content_id tohex w1_ct current w1_a = content_id tohex w1_ct current w1_b
  /\ is_equal tohex w1_ct current w1_a w1_b = true
  /\ w1_a <> w1_b /\ nprops w1_a <> nprops w1_b
  /\ wf_node w1_ct w1_e = true /\ node_values_ok w1_ct w1_e /\ node_deep w1_ct ex_et w1_e
  /\ content_id tohex w1_ct current w1_a <> content_id tohex w1_ct current w1_e.
Proof. exact w1_complete. Qed.
(* C01_complete_scalar *)
Theorem C01_ex_complete_scalar :
  names_ok w1_ct /\ wf_node w1_ct w1_sa = true /\ wf_node w1_ct w1_sb = true
  /\ node_values_ok w1_ct w1_sa /\ node_values_ok w1_ct w1_sb
  /\ node_scalar w1_ct ex_et w1_sa /\ node_scalar w1_ct ex_et w1_sb
  /\ content_id tohex w1_ct current w1_sa = content_id tohex w1_ct current w1_sb /\ w1_sa <> w1_sb
  /\ wf_node w1_ct w1_se = true /\ node_values_ok w1_ct w1_se /\ node_scalar w1_ct ex_et w1_se
  /\ content_id tohex w1_ct current w1_sa <> content_id tohex w1_ct current w1_se.
Proof. exact w1_complete_scalar. Qed.
(* C01_render_inj_scalar, C01_render_inj_nested: for scalars the premises force the very same value (shown: an enum
   member; int 1 and True differ in tag and rendering); for frozensets they hold of two different values *)
Theorem C01_ex_render :
  scalar ex_et ex_red /\ tytag ex_red = tytag ex_red /\ stable_str ex_red = stable_str ex_red
  /\ scalar ex_et (VInt 1) /\ scalar ex_et (VBool true) /\ stable_str (VInt 1) <> stable_str (VBool true)
  /\ tytag (VInt 1) <> tytag (VBool true)
  /\ deep ex_et w1_t1 /\ deep ex_et w1_t2 /\ tytag w1_t1 = tytag w1_t2 /\ stable_str w1_t1 = stable_str w1_t2
  /\ w1_t1 <> w1_t2
  /\ deep ex_et w1_t4 /\ tytag w1_t1 = tytag w1_t4 /\ stable_str w1_t1 <> stable_str w1_t4.
Proof. exact w1_render. Qed.
(* C01_str_repr_prefix_free: its premise holds (by its conclusion, only) of equal strings followed by equal rests *)
Theorem C01_ex_prefix : str_repr w1_s ++ lit ", 'z')" = str_repr w1_s ++ lit ", 'z')" /\ length (str_repr w1_s) = 11.
Proof. exact w1_prefix. Qed.
