(* C17 - XPath and pattern text is either compiled or rejected with the definition error.
   ONLY statements; proofs are `exact <lemma>`.
   Model/PatParse.v, Model/XpathParse.v: lexers/parsers for the two grammars and the entry points;
   Spec/PatWf.v: well-formedness of a parsed pattern.  "No other exception escapes" is checked by the
   correspondence run (the model's result types have exactly the two outcomes: C17_total_pattern). *)
From Oak Require Import Model.Pattern Model.PatParse Model.XpathParse Spec.PatWf
     Proofs.PatternProofs Proofs.PatParseProofs Proofs.XpathParseProofs.
From Coq Require Import List.
Import ListNotations.

Theorem C17_total_pattern : forall ct re_ok s,
  validate_pattern ct re_ok s = None \/ exists e, validate_pattern ct re_ok s = Some e.
Proof. exact pattern_total. Qed.

(* the three pattern entry points agree, in every state of the matcher cache, on acceptance and on the error *)
Theorem C17_entry_points_agree : forall ct re_ok ks name s,
  let c := after pystr matcher perr pystr_eqb (compile_text ct re_ok) ks in
  (forall e, validate_pattern ct re_ok s = Some e <-> snd (from_pattern ct re_ok c s) = inr e) /\
  (validate_pattern ct re_ok s = None <-> exists m, snd (from_pattern ct re_ok c s) = inl m) /\
  (validate_pattern ct re_ok s = None <-> exists l, snd (multi_new ct re_ok c [(name, s)]) = inl l) /\
  (forall e, validate_pattern ct re_ok s = Some e <-> snd (multi_new ct re_ok c [(name, s)]) = inr (MIncorrect [(name, e)])).
Proof. exact entry_points_agree. Qed.

(* compiling the same text again, cached or not, yields the same matcher (hence the same matching behaviour) *)
Theorem C17_recompile_same : forall ct re_ok ks s,
  snd (from_pattern ct re_ok (after pystr matcher perr pystr_eqb (compile_text ct re_ok) ks) s) = compile_text ct re_ok s.
Proof. exact recompile_same. Qed.

(* a syntactically correct pattern is accepted exactly when, read left to right, its classes are node classes,
   its regexes compile, its capture names are new and its variables were captured before (Spec/PatWf.v) *)
Theorem C17_accept_iff_wellformed : forall ct re_ok p,
  (exists m, compile ct re_ok true p = inl m) <-> wellformed ct re_ok p = true.
Proof. exact accept_iff_wellformed. Qed.
Example C17_accept_inhabited : wellformed wit_ct (fun _ => true) pat_demo = true.
Proof. vm_compute. reflexivity. Qed.

(* xpath grammar: every step list (last step with a class, classes known), printed with ANY white space between the
   tokens (a CNAME followed by a CNAME or digit needs some), is read back as that step list.  This is acceptance of
   the whole documented grammar and white-space insensitivity in one statement. *)
Theorem C17_print_parse_xpath : forall chk steps wts trail,
  steps <> [] -> (exists c, xs_cls (last steps no_step) = Some c) ->
  Forall (step_ok chk) steps ->
  map snd wts = steps_toks steps ->
  seps_ok false wts -> all_ws trail ->
  (exists r, wts = ([], XSlash) :: r) ->
  xparse chk (print_toks wts trail) = inl steps.
Proof. exact xpath_print_parse. Qed.
Example C17_print_parse_xpath_inhabited :
  map snd ex_wts = steps_toks ex_steps /\ seps_ok false ex_wts /\
  print_toks ex_wts (lit " ") = lit "// @items[ 1  2]/@x A " /\
  xparse (fun _ => None) (lit "// @items[ 1  2]/@x A ") = inl ex_steps.
Proof. vm_compute. repeat split; try discriminate; auto. Qed.

(* pattern grammar: the general round-trip theorem is NOT proved (the parser is tied to lark by the correspondence
   run only); what is machine-checked are sample texts using every construct, with and without white space,
   and sample rejections.  Missing: forall ast ws, parse_pattern (print ws ast) = Some ast. *)
Theorem C17_print_parse_pattern_partial :
  parse_pattern sample_text = Some sample_ast /\ parse_pattern sample_padded = Some sample_ast.
Proof. exact sample_parses. Qed.
Theorem C17_reject_samples_partial :
  parse_pattern (lit "(A @x -> ab_)") = None /\ parse_pattern (lit "(A @x - > v)") = None /\
  parse_pattern (lit "(*|A)") = None /\ parse_pattern (lit "(A @x=""a\"")") = None /\ parse_pattern (lit "(A @x=[[*]])") = None.
Proof. exact sample_rejects. Qed.

(* D8 before its repair: "[*] -> c" was rejected with "Unexpected error" *)
Theorem C17_refuted_star_capture :
  compile wit_ct (fun _ => true) false pat_D8b = inr EUnexpected /\
  exists m, compile wit_ct (fun _ => true) true pat_D8b = inl m.
Proof. exact refuted_D8_star_capture. Qed.
