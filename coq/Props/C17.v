(* C17 - XPath and pattern text is either compiled or rejected with the definition error.
   ONLY statements; proofs are `exact <lemma>`.
   Model/PatParse.v, Model/XpathParse.v: lexers/parsers for the two grammars and the entry points;
   Spec/PatWf.v: well-formedness of a parsed pattern.  "No other exception escapes" is checked by the
   correspondence run (the model's result types have exactly the two outcomes: C17_total_pattern). *)
From Oak Require Import Model.Pattern Model.PatParse Model.XpathParse Spec.PatWf
     Proofs.PatternProofs Proofs.PatParseProofs Proofs.XpathParseProofs Proofs.PatPrintProofs Proofs.PatParseImage.
From Coq Require Import List.
Import ListNotations.

Theorem C17_total_pattern : forall ct re_ok s,
  validate_pattern ct re_ok s = None \/ exists e, validate_pattern ct re_ok s = Some e.
Proof. exact pattern_total. Qed.

(* the three pattern entry points agree, in every state of the matcher cache, on acceptance and on the error *)
Theorem C17_entry_points_agree : forall ct re_ok ks name s,
  let c := after pystr matcher perr pystr_eqb (compile_text ct re_ok) ks in
  (forall e, validate_pattern ct re_ok s = Some e <-> snd (from_pattern ct re_ok c s) = inr e) /\
  (validate_pattern ct re_ok s = None <-> exists m, snd (from_pattern ct re_ok c s) = inl m) /\
  (validate_pattern ct re_ok s = None <-> exists l, snd (multi_new ct re_ok c [(name, s)]) = inl l) /\
  (forall e, validate_pattern ct re_ok s = Some e <-> snd (multi_new ct re_ok c [(name, s)]) = inr (MIncorrect [(name, e)])).
Proof. exact entry_points_agree. Qed.

(* compiling the same text again, cached or not, yields the same matcher (hence the same matching behaviour) *)
Theorem C17_recompile_same : forall ct re_ok ks s,
  snd (from_pattern ct re_ok (after pystr matcher perr pystr_eqb (compile_text ct re_ok) ks) s) = compile_text ct re_ok s.
Proof. exact recompile_same. Qed.

(* a syntactically correct pattern is accepted exactly when, read left to right, its classes are node classes,
   its regexes compile, its capture names are new and its variables were captured before (Spec/PatWf.v) *)
Theorem C17_accept_iff_wellformed : forall ct re_ok p,
  (exists m, compile ct re_ok true p = inl m) <-> wellformed ct re_ok p = true.
Proof. exact accept_iff_wellformed. Qed.
Example C17_accept_inhabited : wellformed wit_ct (fun _ => true) pat_demo = true.
Proof. vm_compute. reflexivity. Qed.

(* xpath grammar: every step list (last step with a class, classes known), printed with ANY white space between the
   tokens (a CNAME followed by a CNAME or digit needs some), is read back as that step list.  This is acceptance of
   the whole documented grammar and white-space insensitivity in one statement. *)
Theorem C17_print_parse_xpath : forall chk steps wts trail,
  steps <> [] -> (exists c, xs_cls (last steps no_step) = Some c) ->
  Forall (step_ok chk) steps ->
  map snd wts = steps_toks steps ->
  seps_ok false wts -> all_ws trail ->
  (exists r, wts = ([], XSlash) :: r) ->
  xparse chk (print_toks wts trail) = inl steps.
Proof. exact xpath_print_parse. Qed.
Example C17_print_parse_xpath_inhabited :
  map snd ex_wts = steps_toks ex_steps /\ seps_ok false ex_wts /\
  print_toks ex_wts (lit " ") = lit "// @items[ 1  2]/@x A " /\
  xparse (fun _ => None) (lit "// @items[ 1  2]/@x A ") = inl ex_steps.
Proof. vm_compute. repeat split; try discriminate; auto. Qed.

(* pattern grammar: every AST of the grammar (Model/Pattern.v: class alternatives or '*', field specs "@name",
   "= value" with value = nested pattern | $var | None | "regex", "= [ value [-> c] ... [* [-> t]] ]", captures),
   printed token by token (PatPrintProofs.pat_toks / ptok_text) with ANY white space before every token and after
   the last one, is read back as that AST.  In this grammar no white space is ever required: two adjacent tokens
   never lex differently when glued.  The side conditions [pat_ok] are the token classes of the grammar:
   class and field names are CNAMEs (a letter or _ then letters, digits, _), a class list is not empty, capture and variable names
   are CAPTURE_KEYs (lower-case letters and _, ending in a letter), the text of a regex is a legal ESCAPED_STRING body (no newline, every
   quote preceded by an odd number of backslashes, an even number of backslashes at the end: str_scan). *)
Theorem C17_print_parse_pattern : forall p ws trail,
  pat_ok p -> length ws = length (pat_toks p) -> Forall pws ws -> pws trail ->
  parse_pattern (print_pattern ws trail p) = Some p.
Proof. exact pattern_print_parse. Qed.
(* the same with the padding as a relation: s is the token list with white space inserted before each token *)
Theorem C17_padded_parse_pattern : forall p s trail,
  pat_ok p -> padded (pat_toks p) s -> pws trail -> parse_pattern (s ++ trail) = Some p.
Proof. exact padded_parse. Qed.
(* additional white space between tokens never changes the meaning *)
Theorem C17_pattern_ws_irrelevant : forall p s1 t1 s2 t2,
  pat_ok p -> padded (pat_toks p) s1 -> padded (pat_toks p) s2 -> pws t1 -> pws t2 ->
  parse_pattern (s1 ++ t1) = parse_pattern (s2 ++ t2).
Proof. exact pattern_ws_irrelevant. Qed.
(* hence a grammar-derived text is accepted exactly when its AST is well-formed (C17_accept_iff_wellformed), and the
   matcher does not depend on the white space *)
Theorem C17_printed_compile : forall ct re_ok p ws trail,
  pat_ok p -> length ws = length (pat_toks p) -> Forall pws ws -> pws trail ->
  compile_text ct re_ok (print_pattern ws trail p) = compile ct re_ok true p.
Proof. exact printed_compile_text. Qed.
Example C17_print_parse_pattern_inhabited :
  pat_ok demo_ast /\ length demo_ws = length (pat_toks demo_ast) /\ Forall pws demo_ws /\ pws (lit " ") /\
  print_pattern (map (fun _ => []) demo_ws) [] demo_ast
  = lit "(A|B@x=[(B)->a$a""r\""s""None*->t]->c@y@z=$c@e=[])".
Proof. exact demo_ok. Qed.

(* the side conditions are no restriction: every AST the parser can return satisfies them, i.e. pat_ok is exactly
   "can be written in the grammar"; hence parse . print . parse = parse for every accepted text and every padding *)
Theorem C17_parsed_is_printable : forall s p, parse_pattern s = Some p -> pat_ok p.
Proof. exact parse_pattern_ok. Qed.
Theorem C17_reprint_parses : forall s p ws trail,
  parse_pattern s = Some p -> length ws = length (pat_toks p) -> Forall pws ws -> pws trail ->
  parse_pattern (print_pattern ws trail p) = Some p.
Proof. exact reprint_parses. Qed.
Example C17_parsed_is_printable_inhabited : parse_pattern sample_text = Some sample_ast.
Proof. exact (proj1 sample_parses). Qed.

(* kept from the earlier state (sample texts only); superseded by C17_print_parse_pattern above *)
Theorem C17_print_parse_pattern_partial :
  parse_pattern sample_text = Some sample_ast /\ parse_pattern sample_padded = Some sample_ast.
Proof. exact sample_parses. Qed.
Theorem C17_reject_samples_partial :
  parse_pattern (lit "(A @x -> ab_)") = None /\ parse_pattern (lit "(A @x - > v)") = None /\
  parse_pattern (lit "(*|A)") = None /\ parse_pattern (lit "(A @x=""a\"")") = None /\ parse_pattern (lit "(A @x=[[*]])") = None.
Proof. exact sample_rejects. Qed.

(* D8 before its repair: "[*] -> c" was rejected with "Unexpected error" *)
Theorem C17_refuted_star_capture :
  compile wit_ct (fun _ => true) false pat_D8b = inr EUnexpected /\
  exists m, compile wit_ct (fun _ => true) true pat_D8b = inl m.
Proof. exact refuted_D8_star_capture. Qed.
