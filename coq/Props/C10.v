(* C10 - No operation ever modifies an existing node.
   ONLY statements; proofs are `exact <lemma of Proofs/RegistryProofs.v>`.
   The model's `step` (Model/Registry.v; the same function C03 and C14 tie to the code) only ever appends cells:
   every field value, id and content_id of a node that existed before a step - for every operation of the language
   (construct, duplicate, both replaces succeeding or raising, detach, detach_self, drop, the read-only calls), for
   every digest H and for both variants of detach - is what it was.  What may change for an existing node is its
   registry membership only (reg), as C03 / C14 specify.  That the implementation behaves like `step` here is what
   the correspondence run decides: after every operation every dataclass field, id, content_id and hash of every
   pre-existing node is re-read and compared with its value before the operation, and setattr / delattr on every
   field must raise. *)
From Oak Require Import Model.Registry Proofs.RegistryProofs.

Theorem C10_heap_frame : forall H ct fx s o a, a < length (heap s) ->
  nth_error (heap (fst (step H ct fx s o))) a = nth_error (heap s) a.
Proof. exact heap_frame. Qed.
Theorem C10_history_frame : forall H ct fx l s a, a < length (heap s) ->
  nth_error (heap (run H ct fx s l)) a = nth_error (heap s) a.
Proof. exact run_heap_frame. Qed.
(* a raising replace changes nothing at all that can be looked up *)
Theorem C10_replace_fail_frame : forall H ct s dst src ch s' e, RInv s ->
  step H ct true s (Replace dst src ch) = (s', Raised e) ->
  heap s' = heap s /\ vars s' = vars s /\ forall j, get_any s' j = get_any s j.
Proof. exact replace_fail_frame. Qed.
Example C10_ex_frame :
  let s' := fst (step ex_H ex_ct true ex_state (Replace 3 (2, 2) [(lit "v", CProp (VInt 7))])) in
  length (heap ex_state) = 3 /\ length (heap s') = 4 /\ firstn 3 (heap s') = heap ex_state
  /\ get_any ex_state (lit ")_1") = Some 1 /\ get_any s' (lit ")_1") = None.
Proof. vm_compute. repeat split. Qed.
