(* C10 - No operation ever modifies an existing node.
   ONLY statements; proofs are `exact <lemma of Proofs/RegistryProofs.v>`.
   The model's `step` (Model/Registry.v; the same function C03 and C14 tie to the code) only ever appends cells:
   every field value, id and content_id of a node that existed before a step - for every operation of the language
   (construct, duplicate, both replaces succeeding or raising, detach, detach_self, drop, the read-only calls, as_dict and
   as_obj: the forced-id write of _deserialize only ever touches the node built by the same call), for
   every digest H and for both variants of detach - is what it was.  What may change for an existing node is its
   registry membership only (reg), as C03 / C14 specify.  That the implementation behaves like `step` here is what
   the correspondence run decides: after every operation every dataclass field, id, content_id and hash of every
   pre-existing node is re-read and compared with its value before the operation, and setattr / delattr on every
   field must raise. *)
From Oak Require Import Model.Registry Model.RegistrySer Proofs.RegistryProofs Proofs.RegistryReach Proofs.RegistrySerProofs.

Theorem C10_heap_frame : forall H ct late fx s o a, a < length (heap s) ->
  nth_error (heap (fst (step H ct late fx s o))) a = nth_error (heap s) a.
Proof. exact heap_frame. Qed.
Theorem C10_history_frame : forall H ct late fx l s a, a < length (heap s) ->
  nth_error (heap (run H ct late fx s l)) a = nth_error (heap s) a.
Proof. exact run_heap_frame. Qed.
(* an operation that raises - early, or late: after a subclass's own __post_init__ rejected a node (duplicate: after
   any number of copies) that had already been given an id and registered - changes no existing node (the heap only
   grew), no variable and no lookup; in particular every existing node keeps its id (and with it its hash) *)
Theorem C10_replace_fail_frame : forall H ct late s dst src ch s' e, RInv s ->
  step H ct late true s (Replace dst src ch) = (s', Raised e) ->
  (exists ext, heap s' = heap s ++ ext) /\ vars s' = vars s /\ (forall j, get_any s' j = get_any s j) /\
  (forall x, length (heap s) <= x -> reachable s' x = false).
Proof. intros H ct late s dst src ch. exact (fail_frame H ct late s (Replace dst src ch)). Qed.
Theorem C10_fail_frame : forall H ct late s o s' e, RInv s -> step H ct late true s o = (s', Raised e) ->
  (exists ext, heap s' = heap s ++ ext) /\ vars s' = vars s /\ (forall j, get_any s' j = get_any s j) /\
  (forall x, length (heap s) <= x -> reachable s' x = false).
Proof. exact fail_frame. Qed.
Theorem C10_fail_keeps_id : forall H ct late s o s' e, RInv s -> step H ct late true s o = (s', Raised e) ->
  forall a c, cell_at s a = Some c -> cell_at s' a = Some c /\ get_any s' (k_id c) = get_any s (k_id c).
Proof. exact fail_keeps_id. Qed.
Example C10_ex_frame :
  let s' := fst (step ex_H ex_ct no_late true ex_state (Replace 3 (2, 2) [(lit "v", CProp (VInt 7))])) in
  length (heap ex_state) = 3 /\ length (heap s') = 4 /\ firstn 3 (heap s') = heap ex_state
  /\ get_any ex_state (lit ")_1") = Some 1 /\ get_any s' (lit ")_1") = None.
Proof. vm_compute. repeat split. Qed.
(* a late-failing replace: premise of C10_fail_frame inhabited (class A rejects note == "bad" after registration) *)
Example C10_ex_fail_late :
  let late := late_of ex_ct [VReject (lit "A") (lit "note") (VStr (lit "bad"))] in
  let r := step ex_H ex_ct late true ex_state (Replace 3 (2, 2) [(lit "note", CProp (VStr (lit "bad")))]) in
  RInv ex_state /\ snd r = Raised EValue /\ length (heap (fst r)) = 4 /\ firstn 3 (heap (fst r)) = heap ex_state
  /\ get_any (fst r) (lit ")_1") = Some 1.
Proof. split; [exact ex_state_inv|vm_compute; repeat split]. Qed.

(* ---- deserialization.  C10_heap_frame / C10_history_frame / C10_fail_frame above cover `AsDict` and `AsObj` (they are
        operations of `step`).  What as_obj is NOT allowed to do either - change the registry membership of an existing
        node ("the only effect an operation may have on an existing node is its registry membership as specified for detach
        and replace") - is proved for the code in /repo: an existing node is found under an id after the call exactly when
        it was found under it before, whether the call returns or is rejected half-way, for every H ---- *)
Theorem C10_deser_membership : forall H ct late fuel s v s', Inv0 s ->
  (deser H ct late true fuel s v = DLate s' \/ exists a, deser H ct late true fuel s v = DOk s' a) ->
  forall j b, b < length (heap s) -> (get_any s' j = Some b <-> get_any s j = Some b).
Proof. exact deser_membership. Qed.
Theorem C10_deser_frame : forall H ct late fuel s v s', Inv0 s ->
  (deser H ct late true fuel s v = DLate s' \/ exists a, deser H ct late true fuel s v = DOk s' a) ->
  (forall j b, get_any s j = Some b -> get_any s' j = Some b) /\
  (forall a, a < length (heap s) -> cell_at s' a = cell_at s a) /\ det s' = det s /\ Inv0 s'.
Proof. exact deser_never_evicts. Qed.
(* partly alive (x alive, y and the parent dropped): reading the parent's dict back builds two nodes; the three old cells
   are what they were *)
Example C10_ex_asobj_frame :
  let s0 := run ser_H ser_ct no_late true (init_st 4) (firstn 6 ser_ops) in
  let s := fst (step ser_H ser_ct no_late true s0 (AsObj 0 3)) in
  RInv s0 /\ length (heap s0) = 3 /\ length (heap s) = 5 /\ firstn 3 (heap s) = heap s0 /\ vars s = [Some 0; None; None; Some 4].
Proof. split; [apply run_inv; apply inv_init|vm_compute; repeat split]. Qed.

(* non-vacuity witnesses *)
(* the instance (Proofs/C14Witness.v, Proofs/C10Witness.v): w10_ct = A (comparable v, non-comparable note), A2 a subclass of
   A, B (tuple child xs, optional child one); identity digest; w10_s = the state after
   v0 = A(1, "n"); v1 = A2(1, "n"); v2 = B(xs=(v0, v1), one=None); v3 = B(xs=(), one=v2) from init_st 5: four cells *)
From Oak Require Import Proofs.C14Witness Proofs.C10Witness.
(* C10_heap_frame, C10_history_frame: an existing address, a step and a four-operation history that grow the heap *)
Theorem C10_ex_heap_frame :
  3 < length (heap w10_s)
  /\ length (heap (fst (step w10_H w10_ct no_late true w10_s (Dup 4 (3, 0))))) = 8
  /\ length (heap (run w10_H w10_ct no_late true w10_s w10_more)) = 11
  /\ firstn 4 (heap (run w10_H w10_ct no_late true w10_s w10_more)) = heap w10_s
  /\ reg (run w10_H w10_ct no_late true w10_s w10_more) <> reg w10_s.
Proof. exact w10_frame. Qed.
(* C10_replace_fail_frame, C10_fail_frame, C10_fail_keeps_id: RInv, an existing cell (the A2 node), and a replace rejected
   late (validation inherited from A), a duplicate rejected late after two copies, a replace rejected early (TypeError) *)
Theorem C10_ex_fail :
  RInv w10_s
  /\ exists c, cell_at w10_s 1 = Some c /\ k_cls c = lit "A2" /\ get_any w10_s (k_id c) = Some 1
  /\ (exists s', step w10_H w10_ct w10_late_note true w10_s w10_op_late = (s', Raised EValue)
                 /\ length (heap s') = 5 /\ length (reg s') = 4 /\ get_any s' (k_id c) = Some 1)
  /\ (exists s', step w10_H w10_ct w10_late_suffix true w10_s (Dup 4 (3, 0)) = (s', Raised EValue)
                 /\ length (heap s') = 6 /\ length (reg s') = 4 /\ get_any s' (k_id c) = Some 1)
  /\ (exists s', step w10_H w10_ct no_late true w10_s w10_op_early = (s', Raised EType)
                 /\ length (heap s') = 4 /\ length (reg s') = 4 /\ get_any s' (k_id c) = Some 1).
Proof. exact w10_fail. Qed.
(* C10_deser_membership, C10_deser_frame: w10_sd = w10_s after d = v3.as_dict(); del v3, v2, v1 (only node 0 stays
   registered), w10_v = d; both disjuncts of the premise: as_obj returns (three nodes built around the live node 0), and is
   rejected half-way by a late validation; b = 0 is an existing address whose entry stays *)
Theorem C10_ex_deser :
  Inv0 w10_sd /\ length (heap w10_sd) = 4 /\ map snd (reg w10_sd) = [0] /\ sdepth w10_v = 3
  /\ (exists s', deser w10_H w10_ct no_late true (S (sdepth w10_v)) w10_sd w10_v = DOk s' 6
                 /\ length (heap s') = 7 /\ tree_of s' 6 = [6; 5; 0; 4] /\ map snd (reg s') = [6; 5; 4; 0])
  /\ (exists s', deser w10_H w10_ct w10_late_v true (S (sdepth w10_v)) w10_sd w10_v = DLate s'
                 /\ length (heap s') = 5 /\ map snd (reg s') = [4; 0])
  /\ 0 < length (heap w10_sd)
  /\ exists c, cell_at w10_sd 0 = Some c /\ get_any w10_sd (k_id c) = Some 0.
Proof. exact w10_deser. Qed.
