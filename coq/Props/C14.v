(* C14 - duplicate and replace produce faithful, independent copies.
   ONLY statements; proofs are `exact <lemma of Proofs/RegistryProofs.v>`.  For every digest H.
   `dup`, `dc_replace` (dataclasses.replace) and `replace` (ASTNode.replace) are the functions of
   Model/Registry.v that `step` runs for the operations Dup, DcReplace, Replace; `late` is any validation a subclass
   performs after super().__post_init__() (DOk = the call returned; DLate = a copy was rejected on the way). *)
From Oak Require Import Model.Registry Proofs.RegistryProofs.
From Oak Require Import Model.Equality Spec.CEq Proofs.EncodeSound Proofs.RegistryReify.

(* ---- duplicate: every node of the copy is a new object registered under its own id ... ---- *)
Theorem C14_dup_fresh : forall H ct late fuel s a s' a', Inv0 s -> dup H ct late fuel s a = DOk s' a' ->
  forall x, In x (tree_of s' a') ->
    length (heap s) <= x /\ exists c, cell_at s' x = Some c /\ get_any s' (k_id c) = Some x.
Proof. exact dup_fresh. Qed.
(* ... whose id is the id of no node registered when duplicate was called (in particular of no node of the original) *)
Theorem C14_dup_ids_disjoint : forall H ct late fuel s a s' a', Inv0 s -> dup H ct late fuel s a = DOk s' a' ->
  forall x c, In x (tree_of s' a') -> cell_at s' x = Some c -> get_any s (k_id c) = None.
Proof. exact dup_ids_disjoint. Qed.
(* duplicate terminates: the fuel `step` gives it is never exhausted *)
Theorem C14_dup_total : forall H ct late s a, Inv0 s -> a < length (heap s) -> dup H ct late (length (heap s)) s a <> DFuel.
Proof. exact dup_never_out_of_fuel. Qed.
(* the registry and the heap only grow during duplicate: the original's nodes and registrations are untouched *)
Theorem C14_dup_grows : forall H ct late fuel s a s' a', Inv0 s -> dup H ct late fuel s a = DOk s' a' ->
  Inv0 s' /\ growR s s' /\ length (heap s) <= a' < length (heap s').
Proof. exact dup_spec. Qed.
Example C14_ex_dup : exists s' a', dup ex_H ex_ct no_late (length (heap ex_state)) ex_state 2 = DOk s' a'
  /\ tree_of s' a' = [5; 3; 4] /\ tree_of ex_state 2 = [2; 0; 1].
Proof. eexists _, _. split; [vm_compute; reflexivity|split; vm_compute; reflexivity]. Qed.
(* ---- C14_dup_eq: duplicate() returns a tree == to the original with equal content_id, property values and origin at
        every position.  `reify_st s a` (Model/Registry.v) is the tree of Model/Node.v under address a (design 2.2);
        `strip` erases the object identities (= `retag (fun _ => 0) id` of Proofs/EncodeSound.v).
        (1) the copy IS the original's tree up to object identity: class, origin, every property value (comparable or
            not, init or not) and the shape of every child field agree at every position; hence
        (2) it is content-equal (`ceq`, Spec/CEq.v), (3) has the same tree-level content_id (Model/Encode.v),
        (4) the same origins in pre-order (`all_origins`, Model/Equality.v), (5) is well-formed iff the original is, and
        (6) on a well-formed original ASTNode.__eq__ (`eqn`, Model/Equality.v) answers True in both directions ---- *)
Theorem C14_dup_same_tree : forall H ct late fuel s a s' a', Inv0 s -> dup H ct late fuel s a = DOk s' a' ->
  strip (reify_st s' a') = strip (reify_st s a).
Proof. exact dup_same_tree. Qed.
Theorem C14_dup_eq : forall H ct late fuel s a s' a', Inv0 s -> dup H ct late fuel s a = DOk s' a' ->
  let o := reify_st s a in let n := reify_st s' a' in
  strip n = strip o /\ ceq ct o n /\ content_id H ct current n = content_id H ct current o /\
  all_origins n = all_origins o /\ wf_node ct n = wf_node ct o /\
  (wf_node ct o = true -> eqn H ct current n o = EqTrue /\ eqn H ct current o n = EqTrue).
Proof. exact dup_eq. Qed.
(* the original's own tree is untouched by the call *)
Theorem C14_dup_keeps_original : forall H ct late fuel s a s' a', Inv0 s -> a < length (heap s) ->
  dup H ct late fuel s a = DOk s' a' -> reify_st s' a = reify_st s a.
Proof. exact dup_keeps_original. Qed.
(* the content_id FIELD of the machine's cells (what the run compares with pyoak's node.content_id) is the tree-level
   content_id of the reified tree, in every state of every history; so the copy's field equals the original's *)
Theorem C14_coh_reachable : forall H ct late fx n l, coh H ct (heap (run H ct late fx (init_st n) l)).
Proof. intros H ct late fx n l. exact (run_coh H ct late fx l _ (coh_init H ct n)). Qed.
Theorem C14_cid_is_content_id : forall H ct s, hwf (heap s) -> coh H ct (heap s) ->
  forall a c, cell_at s a = Some c -> k_cid c = content_id H ct current (reify_st s a).
Proof. exact cid_is_content_id. Qed.
Theorem C14_dup_cid : forall H ct late fuel s a s' a' c c', Inv0 s -> coh H ct (heap s) ->
  dup H ct late fuel s a = DOk s' a' -> cell_at s a = Some c -> cell_at s' a' = Some c' ->
  k_cid c' = k_cid c /\ k_cls c' = k_cls c /\ k_org c' = k_org c /\ k_props c' = k_props c.
Proof. exact dup_cid. Qed.
Example C14_ex_dup_eq : exists s' a', dup ex_H ex_ct no_late (length (heap ex_state)) ex_state 2 = DOk s' a'
  /\ Inv0 ex_state /\ coh ex_H ex_ct (heap ex_state) /\ wf_node ex_ct (reify_st ex_state 2) = true
  /\ size (reify_st ex_state 2) = 3 /\ addr (reify_st s' a') = 5
  /\ eqn ex_H ex_ct current (reify_st s' a') (reify_st ex_state 2) = EqTrue.
Proof.
  eexists _, _. split; [vm_compute; reflexivity|]. split; [exact (proj1 ex_state_inv)|].
  split; [exact (run_coh ex_H ex_ct no_late true ex_ops _ (coh_init ex_H ex_ct 4))|]. vm_compute. repeat split.
Qed.
(* NOT proved (gap): that the machine's own `node_eq` (the == the run prints for every Dup, Model/Registry.v) is `eqn` on
   the reified trees - it needs the shape discipline (ShNone <-> no child, ShOne <-> one) as a further invariant. *)

(* ---- replace (both kinds): same class; changed fields hold the given values, every other field holds what
        the original holds - children by address, i.e. the very same objects ---- *)
Theorem C14_replace_fields : forall H ct late s a ch s' a' c,
  cell_at s a = Some c -> dc_replace H ct late s a ch = (s', OkNode a') ->
  exists c', cell_at s' a' = Some c' /\ a' = length (heap s) /\ k_cls c' = k_cls c /\
    k_org c' = (match assoc (lit "origin") ch with Some (VOrigin o) => o | _ => k_org c end) /\
    (forall n, assoc n (k_props c') =
               option_map (fun old => match assoc n ch with Some (VProp v) => v | _ => old end) (assoc n (k_props c))) /\
    (forall n, assoc n (k_kids c') =
               option_map (fun old => match assoc n ch with Some (VKids v) => v | _ => old end) (assoc n (k_kids c))).
Proof. exact dc_replace_fields. Qed.
(* ASTNode.replace is: unregister the original if it is registered, then exactly the construction
   dataclasses.replace performs - so the new node gets the id a fresh construction with the original absent gets *)
Theorem C14_replace_id_as_fresh : forall H ct late s a ch s' a',
  replace H ct late true s a ch = (s', OkNode a') ->
  dc_replace H ct late (fst (detach_self true s a)) a ch = (s', OkNode a').
Proof. exact replace_is_fresh_construction. Qed.
Theorem C14_replace_unregisters : forall H ct late s a ch s' a' c,
  Inv0 s -> changes_below (length (heap s)) ch -> cell_at s a = Some c ->
  replace H ct late true s a ch = (s', OkNode a') ->
  In a (det s') /\ get_any s' (k_id c) <> Some a.
Proof. exact replace_unregisters. Qed.
(* the original's id is kept when the original is registered (so no twin holds the id) and the new content hashes
   to the id the original carries (only non-comparable fields changed) *)
Theorem C14_replace_keeps_id : forall H ct late s a ch s' a' c,
  cell_at s a = Some c -> get_any s (k_id c) = Some a ->
  replace H ct late true s a ch = (s', OkNode a') ->
  k_id c = H (id_data_of ct current (k_cls c) (new_origin c ch) (new_props c ch) (kd_of (heap s) (new_kids c ch))) ->
  exists c', cell_at s' a' = Some c' /\ k_id c' = k_id c.
Proof. exact replace_keeps_id. Qed.
(* dataclasses.replace leaves a registered original registered and yields a different id *)
Theorem C14_dc_replace_keeps_orig_registered : forall H ct late s a ch s' a' c,
  cell_at s a = Some c -> get_any s (k_id c) = Some a ->
  dc_replace H ct late s a ch = (s', OkNode a') ->
  get_any s' (k_id c) = Some a /\
  exists c', cell_at s' a' = Some c' /\ k_id c' <> k_id c /\ get_any s' (k_id c') = Some a'.
Proof. exact dc_replace_keeps_orig. Qed.
Example C14_ex_replace :
  (* node 2 (class B, id "n", registered): replacing its non-comparable ... it has none; replacing nothing keeps the id *)
  exists s' a' c', replace ex_H ex_ct no_late true ex_state 2 [] = (s', OkNode a') /\ cell_at s' a' = Some c'
    /\ k_id c' = lit "n" /\ get_any ex_state (lit "n") = Some 2 /\ get_any s' (lit "n") = Some a' /\ a' = 3
    /\ changes_below (length (heap ex_state)) [] /\ Inv0 ex_state.
Proof.
  eexists _, _, _. split; [vm_compute; reflexivity|]. split; [vm_compute; reflexivity|].
  split; [vm_compute; reflexivity|]. split; [vm_compute; reflexivity|]. split; [vm_compute; reflexivity|].
  split; [vm_compute; reflexivity|]. split; [intros n sh l []|exact (proj1 ex_state_inv)].
Qed.
Example C14_ex_dc_replace :
  exists s' a', dc_replace ex_H ex_ct no_late ex_state 1 [(lit "note", VProp (VStr (lit "m")))] = (s', OkNode a')
    /\ get_any ex_state (lit ")_1") = Some 1 /\ get_any s' (lit ")_1") = Some 1.
Proof. eexists _, _. split; [vm_compute; reflexivity|split; vm_compute; reflexivity]. Qed.

(* non-vacuity witnesses *)
(* the instance (Proofs/C14Witness.v): w10_ct = A (comparable v, non-comparable note), A2 a subclass of A, B (tuple child xs,
   optional child one); w10_H = the identity digest; w10_s = the state after the four operations
   v0 = A(1, "n"); v1 = A2(1, "n"); v2 = B(xs=(v0, v1), one=None); v3 = B(xs=(), one=v2)  run from init_st 5 *)
From Oak Require Import Proofs.C14Witness.
Theorem C14_ex_state : length (heap w10_s) = 4 /\ vars w10_s = [Some 0; Some 1; Some 2; Some 3; None]
  /\ tree_of w10_s 3 = [3; 2; 0; 1] /\ map snd (reg w10_s) = [3; 2; 1; 0] /\ length w10_ops = 4
  /\ fields_of w10_ct (lit "A2") = [w10_fd "v" RProp true; w10_fd "note" RProp false].
Proof. exact w10_shape. Qed.
(* C14_dup_fresh, C14_dup_ids_disjoint, C14_dup_total, C14_dup_grows, C14_dup_same_tree, C14_dup_eq, C14_dup_keeps_original *)
Theorem C14_ex_dup_premises :
  Inv0 w10_s /\ dup w10_H w10_ct no_late (length (heap w10_s)) w10_s 3 = DOk w14_s' 7
  /\ 3 < length (heap w10_s) /\ tree_of w10_s 3 = [3; 2; 0; 1] /\ tree_of w14_s' 7 = [7; 6; 4; 5]
  /\ In 4 (tree_of w14_s' 7)
  /\ (exists c c', cell_at w10_s 0 = Some c /\ cell_at w14_s' 4 = Some c' /\ k_id c' = k_id c ++ lit "_1"
                   /\ get_any w14_s' (k_id c') = Some 4 /\ get_any w10_s (k_id c') = None /\ get_any w14_s' (k_id c) = Some 0)
  /\ wf_node w10_ct (reify_st w10_s 3) = true /\ size (reify_st w10_s 3) = 4
  /\ addr (reify_st w14_s' 7) = 7 /\ length (heap w14_s') = 8.
Proof. exact w14_dup. Qed.
(* C14_cid_is_content_id, C14_dup_cid *)
Theorem C14_ex_cid :
  Inv0 w10_s /\ hwf (heap w10_s) /\ coh w10_H w10_ct (heap w10_s)
  /\ dup w10_H w10_ct no_late (length (heap w10_s)) w10_s 3 = DOk w14_s' 7
  /\ exists c c', cell_at w10_s 3 = Some c /\ cell_at w14_s' 7 = Some c' /\ c <> c' /\ k_cid c <> []
                  /\ k_cid c = content_id w10_H w10_ct current (reify_st w10_s 3).
Proof. exact w14_cid. Qed.
(* C14_replace_fields: a changed child field and origin on the root; changed properties on a leaf *)
Theorem C14_ex_replace_fields :
  (exists c s' c', cell_at w10_s 3 = Some c /\ dc_replace w10_H w10_ct no_late w10_s 3 w14_ch3 = (s', OkNode 4)
     /\ cell_at s' 4 = Some c' /\ k_org c' = w14_og /\ k_org c = ONo
     /\ assoc (lit "xs") (k_kids c') = Some (ShMany, [0; 1]) /\ assoc (lit "xs") (k_kids c) = Some (ShMany, [])
     /\ assoc (lit "one") (k_kids c') = Some (ShOne, [2]))
  /\ (exists c s' c', cell_at w10_s 0 = Some c /\ dc_replace w10_H w10_ct no_late w10_s 0 w14_ch0v = (s', OkNode 4)
     /\ cell_at s' 4 = Some c' /\ k_props c' = [(lit "v", VInt 5); (lit "note", VStr (lit "m"))]
     /\ k_props c = [(lit "v", VInt 1); (lit "note", VStr (lit "n"))]).
Proof. exact w14_fields. Qed.
(* C14_replace_id_as_fresh, C14_replace_unregisters: a non-empty change list naming child addresses *)
Theorem C14_ex_replace_unregisters :
  Inv0 w10_s /\ changes_below (length (heap w10_s)) w14_ch3
  /\ exists c s', cell_at w10_s 3 = Some c /\ replace w10_H w10_ct no_late true w10_s 3 w14_ch3 = (s', OkNode 4)
       /\ get_any w10_s (k_id c) = Some 3 /\ get_any s' (k_id c) = None /\ det s' = [3].
Proof. exact w14_unregisters. Qed.
(* C14_replace_keeps_id: all four premises with a NON-empty change list (the non-comparable property changes) *)
Theorem C14_ex_replace_keeps_id :
  exists c s' c', cell_at w10_s 0 = Some c /\ get_any w10_s (k_id c) = Some 0
    /\ replace w10_H w10_ct no_late true w10_s 0 w14_ch0 = (s', OkNode 4)
    /\ k_id c = w10_H (id_data_of w10_ct current (k_cls c) (new_origin c w14_ch0) (new_props c w14_ch0)
                                   (kd_of (heap w10_s) (new_kids c w14_ch0)))
    /\ new_props c w14_ch0 <> k_props c
    /\ cell_at s' 4 = Some c' /\ k_id c' = k_id c /\ get_any s' (k_id c) = Some 4.
Proof. exact w14_keeps_id. Qed.
(* ... and that premise is a real restriction: it fails when the comparable property changes as well *)
Theorem C14_ex_replace_other_id :
  exists c, cell_at w10_s 0 = Some c
    /\ k_id c <> w10_H (id_data_of w10_ct current (k_cls c) (new_origin c w14_ch0v) (new_props c w14_ch0v)
                                    (kd_of (heap w10_s) (new_kids c w14_ch0v))).
Proof. exact w14_keeps_id_other. Qed.
(* C14_dc_replace_keeps_orig_registered *)
Theorem C14_ex_dc_replace_keeps :
  exists c s' c', cell_at w10_s 0 = Some c /\ get_any w10_s (k_id c) = Some 0
    /\ dc_replace w10_H w10_ct no_late w10_s 0 w14_ch0 = (s', OkNode 4)
    /\ cell_at s' 4 = Some c' /\ k_id c' = k_id c ++ lit "_1" /\ get_any s' (k_id c) = Some 0.
Proof. exact w14_dc_keeps. Qed.
