(* C14 - duplicate and replace produce faithful, independent copies.
   ONLY statements; proofs are `exact <lemma of Proofs/RegistryProofs.v>`.  For every digest H.
   `dup`, `dc_replace` (dataclasses.replace) and `replace` (ASTNode.replace) are the functions of
   Model/Registry.v that `step` runs for the operations Dup, DcReplace, Replace; `late` is any validation a subclass
   performs after super().__post_init__() (DOk = the call returned; DLate = a copy was rejected on the way). *)
From Oak Require Import Model.Registry Proofs.RegistryProofs.

(* ---- duplicate: every node of the copy is a new object registered under its own id ... ---- *)
Theorem C14_dup_fresh : forall H ct late fuel s a s' a', Inv0 s -> dup H ct late fuel s a = DOk s' a' ->
  forall x, In x (tree_of s' a') ->
    length (heap s) <= x /\ exists c, cell_at s' x = Some c /\ get_any s' (k_id c) = Some x.
Proof. exact dup_fresh. Qed.
(* ... whose id is the id of no node registered when duplicate was called (in particular of no node of the original) *)
Theorem C14_dup_ids_disjoint : forall H ct late fuel s a s' a', Inv0 s -> dup H ct late fuel s a = DOk s' a' ->
  forall x c, In x (tree_of s' a') -> cell_at s' x = Some c -> get_any s (k_id c) = None.
Proof. exact dup_ids_disjoint. Qed.
(* duplicate terminates: the fuel `step` gives it is never exhausted *)
Theorem C14_dup_total : forall H ct late s a, Inv0 s -> a < length (heap s) -> dup H ct late (length (heap s)) s a <> DFuel.
Proof. exact dup_never_out_of_fuel. Qed.
(* the registry and the heap only grow during duplicate: the original's nodes and registrations are untouched *)
Theorem C14_dup_grows : forall H ct late fuel s a s' a', Inv0 s -> dup H ct late fuel s a = DOk s' a' ->
  Inv0 s' /\ growR s s' /\ length (heap s) <= a' < length (heap s').
Proof. exact dup_spec. Qed.
Example C14_ex_dup : exists s' a', dup ex_H ex_ct no_late (length (heap ex_state)) ex_state 2 = DOk s' a'
  /\ tree_of s' a' = [5; 3; 4] /\ tree_of ex_state 2 = [2; 0; 1].
Proof. eexists _, _. split; [vm_compute; reflexivity|split; vm_compute; reflexivity]. Qed.
(* C14_dup_eq (the copy is == to the original with equal content_id, properties and origins at every position) is
   NOT proved in Coq: it is compared on every Dup of every history by the correspondence run (observables
   new-node and copy). *)

(* ---- replace (both kinds): same class; changed fields hold the given values, every other field holds what
        the original holds - children by address, i.e. the very same objects ---- *)
Theorem C14_replace_fields : forall H ct late s a ch s' a' c,
  cell_at s a = Some c -> dc_replace H ct late s a ch = (s', OkNode a') ->
  exists c', cell_at s' a' = Some c' /\ a' = length (heap s) /\ k_cls c' = k_cls c /\
    k_org c' = (match assoc (lit "origin") ch with Some (VOrigin o) => o | _ => k_org c end) /\
    (forall n, assoc n (k_props c') =
               option_map (fun old => match assoc n ch with Some (VProp v) => v | _ => old end) (assoc n (k_props c))) /\
    (forall n, assoc n (k_kids c') =
               option_map (fun old => match assoc n ch with Some (VKids v) => v | _ => old end) (assoc n (k_kids c))).
Proof. exact dc_replace_fields. Qed.
(* ASTNode.replace is: unregister the original if it is registered, then exactly the construction
   dataclasses.replace performs - so the new node gets the id a fresh construction with the original absent gets *)
Theorem C14_replace_id_as_fresh : forall H ct late s a ch s' a',
  replace H ct late true s a ch = (s', OkNode a') ->
  dc_replace H ct late (fst (detach_self true s a)) a ch = (s', OkNode a').
Proof. exact replace_is_fresh_construction. Qed.
Theorem C14_replace_unregisters : forall H ct late s a ch s' a' c,
  Inv0 s -> changes_below (length (heap s)) ch -> cell_at s a = Some c ->
  replace H ct late true s a ch = (s', OkNode a') ->
  In a (det s') /\ get_any s' (k_id c) <> Some a.
Proof. exact replace_unregisters. Qed.
(* the original's id is kept when the original is registered (so no twin holds the id) and the new content hashes
   to the id the original carries (only non-comparable fields changed) *)
Theorem C14_replace_keeps_id : forall H ct late s a ch s' a' c,
  cell_at s a = Some c -> get_any s (k_id c) = Some a ->
  replace H ct late true s a ch = (s', OkNode a') ->
  k_id c = H (id_data_of ct current (k_cls c) (new_origin c ch) (new_props c ch) (kd_of (heap s) (new_kids c ch))) ->
  exists c', cell_at s' a' = Some c' /\ k_id c' = k_id c.
Proof. exact replace_keeps_id. Qed.
(* dataclasses.replace leaves a registered original registered and yields a different id *)
Theorem C14_dc_replace_keeps_orig_registered : forall H ct late s a ch s' a' c,
  cell_at s a = Some c -> get_any s (k_id c) = Some a ->
  dc_replace H ct late s a ch = (s', OkNode a') ->
  get_any s' (k_id c) = Some a /\
  exists c', cell_at s' a' = Some c' /\ k_id c' <> k_id c /\ get_any s' (k_id c') = Some a'.
Proof. exact dc_replace_keeps_orig. Qed.
Example C14_ex_replace :
  (* node 2 (class B, id "n", registered): replacing its non-comparable ... it has none; replacing nothing keeps the id *)
  exists s' a' c', replace ex_H ex_ct no_late true ex_state 2 [] = (s', OkNode a') /\ cell_at s' a' = Some c'
    /\ k_id c' = lit "n" /\ get_any ex_state (lit "n") = Some 2 /\ get_any s' (lit "n") = Some a' /\ a' = 3
    /\ changes_below (length (heap ex_state)) [] /\ Inv0 ex_state.
Proof.
  eexists _, _, _. split; [vm_compute; reflexivity|]. split; [vm_compute; reflexivity|].
  split; [vm_compute; reflexivity|]. split; [vm_compute; reflexivity|]. split; [vm_compute; reflexivity|].
  split; [vm_compute; reflexivity|]. split; [intros n sh l []|exact (proj1 ex_state_inv)].
Qed.
Example C14_ex_dc_replace :
  exists s' a', dc_replace ex_H ex_ct no_late ex_state 1 [(lit "note", VProp (VStr (lit "m")))] = (s', OkNode a')
    /\ get_any ex_state (lit ")_1") = Some 1 /\ get_any s' (lit ")_1") = Some 1.
Proof. eexists _, _. split; [vm_compute; reflexivity|split; vm_compute; reflexivity]. Qed.
