(* C14 - duplicate and replace produce faithful, independent copies.
   ONLY statements; proofs are `exact <lemma of Proofs/RegistryProofs.v>`.  For every digest H.
   `dup`, `dc_replace` (dataclasses.replace) and `replace` (ASTNode.replace) are the functions of
   Model/Registry.v that `step` runs for the operations Dup, DcReplace, Replace; `late` is any validation a subclass
   performs after super().__post_init__() (DOk = the call returned; DLate = a copy was rejected on the way). *)
From Oak Require Import Model.Registry Proofs.RegistryProofs.
From Oak Require Import Model.Equality Spec.CEq Proofs.EncodeSound Proofs.RegistryReify.

(* ---- duplicate: every node of the copy is a new object registered under its own id ... ---- *)
Theorem C14_dup_fresh : forall H ct late fuel s a s' a', Inv0 s -> dup H ct late fuel s a = DOk s' a' ->
  forall x, In x (tree_of s' a') ->
    length (heap s) <= x /\ exists c, cell_at s' x = Some c /\ get_any s' (k_id c) = Some x.
Proof. exact dup_fresh. Qed.
(* ... whose id is the id of no node registered when duplicate was called (in particular of no node of the original) *)
Theorem C14_dup_ids_disjoint : forall H ct late fuel s a s' a', Inv0 s -> dup H ct late fuel s a = DOk s' a' ->
  forall x c, In x (tree_of s' a') -> cell_at s' x = Some c -> get_any s (k_id c) = None.
Proof. exact dup_ids_disjoint. Qed.
(* duplicate terminates: the fuel `step` gives it is never exhausted *)
Theorem C14_dup_total : forall H ct late s a, Inv0 s -> a < length (heap s) -> dup H ct late (length (heap s)) s a <> DFuel.
Proof. exact dup_never_out_of_fuel. Qed.
(* the registry and the heap only grow during duplicate: the original's nodes and registrations are untouched *)
Theorem C14_dup_grows : forall H ct late fuel s a s' a', Inv0 s -> dup H ct late fuel s a = DOk s' a' ->
  Inv0 s' /\ growR s s' /\ length (heap s) <= a' < length (heap s').
Proof. exact dup_spec. Qed.
Example C14_ex_dup : exists s' a', dup ex_H ex_ct no_late (length (heap ex_state)) ex_state 2 = DOk s' a'
  /\ tree_of s' a' = [5; 3; 4] /\ tree_of ex_state 2 = [2; 0; 1].
Proof. eexists _, _. split; [vm_compute; reflexivity|split; vm_compute; reflexivity]. Qed.
(* ---- C14_dup_eq: duplicate() returns a tree == to the original with equal content_id, property values and origin at
        every position.  `reify_st s a` (Model/Registry.v) is the tree of Model/Node.v under address a (design 2.2);
        `strip` erases the object identities (= `retag (fun _ => 0) id` of Proofs/EncodeSound.v).
        (1) the copy IS the original's tree up to object identity: class, origin, every property value (comparable or
            not, init or not) and the shape of every child field agree at every position; hence
        (2) it is content-equal (`ceq`, Spec/CEq.v), (3) has the same tree-level content_id (Model/Encode.v),
        (4) the same origins in pre-order (`all_origins`, Model/Equality.v), (5) is well-formed iff the original is, and
        (6) on a well-formed original ASTNode.__eq__ (`eqn`, Model/Equality.v) answers True in both directions ---- *)
Theorem C14_dup_same_tree : forall H ct late fuel s a s' a', Inv0 s -> dup H ct late fuel s a = DOk s' a' ->
  strip (reify_st s' a') = strip (reify_st s a).
Proof. exact dup_same_tree. Qed.
Theorem C14_dup_eq : forall H ct late fuel s a s' a', Inv0 s -> dup H ct late fuel s a = DOk s' a' ->
  let o := reify_st s a in let n := reify_st s' a' in
  strip n = strip o /\ ceq ct o n /\ content_id H ct current n = content_id H ct current o /\
  all_origins n = all_origins o /\ wf_node ct n = wf_node ct o /\
  (wf_node ct o = true -> eqn H ct current n o = EqTrue /\ eqn H ct current o n = EqTrue).
Proof. exact dup_eq. Qed.
(* the original's own tree is untouched by the call *)
Theorem C14_dup_keeps_original : forall H ct late fuel s a s' a', Inv0 s -> a < length (heap s) ->
  dup H ct late fuel s a = DOk s' a' -> reify_st s' a = reify_st s a.
Proof. exact dup_keeps_original. Qed.
(* the content_id FIELD of the machine's cells (what the run compares with pyoak's node.content_id) is the tree-level
   content_id of the reified tree, in every state of every history; so the copy's field equals the original's *)
Theorem C14_coh_reachable : forall H ct late fx n l, coh H ct (heap (run H ct late fx (init_st n) l)).
Proof. intros H ct late fx n l. exact (run_coh H ct late fx l _ (coh_init H ct n)). Qed.
Theorem C14_cid_is_content_id : forall H ct s, hwf (heap s) -> coh H ct (heap s) ->
  forall a c, cell_at s a = Some c -> k_cid c = content_id H ct current (reify_st s a).
Proof. exact cid_is_content_id. Qed.
Theorem C14_dup_cid : forall H ct late fuel s a s' a' c c', Inv0 s -> coh H ct (heap s) ->
  dup H ct late fuel s a = DOk s' a' -> cell_at s a = Some c -> cell_at s' a' = Some c' ->
  k_cid c' = k_cid c /\ k_cls c' = k_cls c /\ k_org c' = k_org c /\ k_props c' = k_props c.
Proof. exact dup_cid. Qed.
Example C14_ex_dup_eq : exists s' a', dup ex_H ex_ct no_late (length (heap ex_state)) ex_state 2 = DOk s' a'
  /\ Inv0 ex_state /\ coh ex_H ex_ct (heap ex_state) /\ wf_node ex_ct (reify_st ex_state 2) = true
  /\ size (reify_st ex_state 2) = 3 /\ addr (reify_st s' a') = 5
  /\ eqn ex_H ex_ct current (reify_st s' a') (reify_st ex_state 2) = EqTrue.
Proof.
  eexists _, _. split; [vm_compute; reflexivity|]. split; [exact (proj1 ex_state_inv)|].
  split; [exact (run_coh ex_H ex_ct no_late true ex_ops _ (coh_init ex_H ex_ct 4))|]. vm_compute. repeat split.
Qed.
(* NOT proved (gap): that the machine's own `node_eq` (the == the run prints for every Dup, Model/Registry.v) is `eqn` on
   the reified trees - it needs the shape discipline (ShNone <-> no child, ShOne <-> one) as a further invariant. *)

(* ---- replace (both kinds): same class; changed fields hold the given values, every other field holds what
        the original holds - children by address, i.e. the very same objects ---- *)
Theorem C14_replace_fields : forall H ct late s a ch s' a' c,
  cell_at s a = Some c -> dc_replace H ct late s a ch = (s', OkNode a') ->
  exists c', cell_at s' a' = Some c' /\ a' = length (heap s) /\ k_cls c' = k_cls c /\
    k_org c' = (match assoc (lit "origin") ch with Some (VOrigin o) => o | _ => k_org c end) /\
    (forall n, assoc n (k_props c') =
               option_map (fun old => match assoc n ch with Some (VProp v) => v | _ => old end) (assoc n (k_props c))) /\
    (forall n, assoc n (k_kids c') =
               option_map (fun old => match assoc n ch with Some (VKids v) => v | _ => old end) (assoc n (k_kids c))).
Proof. exact dc_replace_fields. Qed.
(* ASTNode.replace is: unregister the original if it is registered, then exactly the construction
   dataclasses.replace performs - so the new node gets the id a fresh construction with the original absent gets *)
Theorem C14_replace_id_as_fresh : forall H ct late s a ch s' a',
  replace H ct late true s a ch = (s', OkNode a') ->
  dc_replace H ct late (fst (detach_self true s a)) a ch = (s', OkNode a').
Proof. exact replace_is_fresh_construction. Qed.
Theorem C14_replace_unregisters : forall H ct late s a ch s' a' c,
  Inv0 s -> changes_below (length (heap s)) ch -> cell_at s a = Some c ->
  replace H ct late true s a ch = (s', OkNode a') ->
  In a (det s') /\ get_any s' (k_id c) <> Some a.
Proof. exact replace_unregisters. Qed.
(* the original's id is kept when the original is registered (so no twin holds the id) and the new content hashes
   to the id the original carries (only non-comparable fields changed) *)
Theorem C14_replace_keeps_id : forall H ct late s a ch s' a' c,
  cell_at s a = Some c -> get_any s (k_id c) = Some a ->
  replace H ct late true s a ch = (s', OkNode a') ->
  k_id c = H (id_data_of ct current (k_cls c) (new_origin c ch) (new_props c ch) (kd_of (heap s) (new_kids c ch))) ->
  exists c', cell_at s' a' = Some c' /\ k_id c' = k_id c.
Proof. exact replace_keeps_id. Qed.
(* dataclasses.replace leaves a registered original registered and yields a different id *)
Theorem C14_dc_replace_keeps_orig_registered : forall H ct late s a ch s' a' c,
  cell_at s a = Some c -> get_any s (k_id c) = Some a ->
  dc_replace H ct late s a ch = (s', OkNode a') ->
  get_any s' (k_id c) = Some a /\
  exists c', cell_at s' a' = Some c' /\ k_id c' <> k_id c /\ get_any s' (k_id c') = Some a'.
Proof. exact dc_replace_keeps_orig. Qed.
Example C14_ex_replace :
  (* node 2 (class B, id "n", registered): replacing its non-comparable ... it has none; replacing nothing keeps the id *)
  exists s' a' c', replace ex_H ex_ct no_late true ex_state 2 [] = (s', OkNode a') /\ cell_at s' a' = Some c'
    /\ k_id c' = lit "n" /\ get_any ex_state (lit "n") = Some 2 /\ get_any s' (lit "n") = Some a' /\ a' = 3
    /\ changes_below (length (heap ex_state)) [] /\ Inv0 ex_state.
Proof.
  eexists _, _, _. split; [vm_compute; reflexivity|]. split; [vm_compute; reflexivity|].
  split; [vm_compute; reflexivity|]. split; [vm_compute; reflexivity|]. split; [vm_compute; reflexivity|].
  split; [vm_compute; reflexivity|]. split; [intros n sh l []|exact (proj1 ex_state_inv)].
Qed.
Example C14_ex_dc_replace :
  exists s' a', dc_replace ex_H ex_ct no_late ex_state 1 [(lit "note", VProp (VStr (lit "m")))] = (s', OkNode a')
    /\ get_any ex_state (lit ")_1") = Some 1 /\ get_any s' (lit ")_1") = Some 1.
Proof. eexists _, _. split; [vm_compute; reflexivity|split; vm_compute; reflexivity]. Qed.
