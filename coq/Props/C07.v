(* C07 - XPath search and XPath match agree with each other and the documented semantics.
   ONLY statements; proofs are `exact <lemma of Proofs/XpathProofs.v>`.
   Vocabulary (Spec/PathSem.v): [path root l x] = following the stored positions l from root reaches x;
   [chain root l] = the positions root .. x with the field / index each is stored under (none for the root);
   [R ct els chain] = the documented meaning (two rules: an element sits on a position; an element preceded by //
   passes over a position); [els] root first = ASTXpath._elements. *)
From Oak Require Import Spec.PathSem Proofs.TraverseProofs Proofs.TreeQProofs Proofs.XpathProofs Proofs.FindallProofs.

(* every well-formed xpath (last step has a class) compiles, to at least one element *)
Theorem C07_to_elements_ok : forall x, well_formed x = true -> exists els, to_elements x = Some els /\ els <> [].
Proof. exact to_elements_ok. Qed.

(* match(root, x), for every node x of the tree: never an error, True exactly when the documented semantics holds *)
Theorem C07_match_sem : forall ct root els l x,
  wf_node ct root = true -> nodup_tree root -> els <> [] -> path root l x ->
  exists b, xmatch ct root els x = Some (Ok b) /\ (b = true <-> R ct els (chain root l)).
Proof. exact xmatch_sem. Qed.
(* match on a node outside the tree raises ValueError *)
Theorem C07_match_foreign : forall ct root els x,
  wf_node ct root = true -> nodup_tree root -> foreign root x -> xmatch ct root els x = Some ValueError.
Proof. exact xmatch_foreign. Qed.

(* findall(root) terminates and yields, each once (no node object twice), exactly the nodes of the tree whose chain
   satisfies the documented semantics: sem ct els root x = exists l, path root l x /\ R ct els (chain root l) *)
Theorem C07_findall_sem : forall ct root els, wf_node ct root = true -> nodup_tree root -> els <> [] ->
  exists res, findall ct root els = Some res /\ (forall x, In x res <-> sem ct els root x) /\ NoDup (map addr res).
Proof. exact findall_sem. Qed.
(* corollary: the two algorithms agree - findall yields exactly the nodes n of the tree with match(root, n) True *)
Theorem C07_findall_match : forall ct root els, wf_node ct root = true -> nodup_tree root -> els <> [] ->
  exists res, findall ct root els = Some res /\ NoDup (map addr res) /\
    forall l x, path root l x -> (In x res <-> xmatch ct root els x = Some (Ok true)).
Proof. exact findall_match. Qed.

(* find() is the first node findall yields, None when it yields nothing *)
Theorem C07_find_first : forall ct root els, find ct root els = option_map (@hd_error node) (findall ct root els).
Proof. exact find_first. Qed.

(* the two algorithms agree, chain by chain: the bottom-up recursion of match (M, elements and chain leaf first) and
   the top-down recursion findall's work list collapses to on one chain (G) decide the same relation R *)
Theorem C07_chain_match_is_R : forall ct es ps, es <> [] -> (M ct (rev es) (rev ps) = true <-> R ct es ps).
Proof. exact M_rev_R. Qed.
Theorem C07_chain_search_is_R : forall ct es ps, G ct es ps = true <-> R ct es ps.
Proof. exact G_R. Qed.
Theorem C07_chain_agree : forall ct es ps, es <> [] -> M ct (rev es) (rev ps) = G ct es ps.
Proof. exact match_eq_G. Qed.

(* premises inhabited: the example tree of Model/TreeQ.v with the elements of "//P/@items[2]L" *)
Example C07_premises_inhabited :
  wf_node ex_ct ex_root = true /\ nodup_tree ex_root /\
  R ex_ct [ {| e_cls := lit "P"; e_field := None; e_index := None; e_any := true |};
            {| e_cls := lit "L"; e_field := Some (lit "items"); e_index := Some 2; e_any := false |} ]
       (chain ex_root [ {| ti_node := ex_leaf 6 "L"; ti_parent := ex_root; ti_field := lit "items"; ti_index := Some 2 |} ]).
Proof. exact c07_inhabited. Qed.
