(* C07 - XPath search and XPath match agree with each other and the documented semantics.
   ONLY statements; proofs are `exact <lemma of Proofs/XpathProofs.v>`.
   Vocabulary (Spec/PathSem.v): [path root l x] = following the stored positions l from root reaches x;
   [chain root l] = the positions root .. x with the field / index each is stored under (none for the root);
   [R ct els chain] = the documented meaning (two rules: an element sits on a position; an element preceded by //
   passes over a position); [els] root first = ASTXpath._elements. *)
From Oak Require Import Spec.PathSem Proofs.TraverseProofs Proofs.TreeQProofs Proofs.XpathProofs Proofs.FindallProofs.

(* every well-formed xpath (last step has a class) compiles, to at least one element *)
Theorem C07_to_elements_ok : forall x, well_formed x = true -> exists els, to_elements x = Some els /\ els <> [].
Proof. exact to_elements_ok. Qed.

(* match(root, x), for every node x of the tree: never an error, True exactly when the documented semantics holds *)
Theorem C07_match_sem : forall ct root els l x,
  wf_node ct root = true -> nodup_tree root -> els <> [] -> path root l x ->
  exists b, xmatch ct root els x = Some (Ok b) /\ (b = true <-> R ct els (chain root l)).
Proof. exact xmatch_sem. Qed.
(* match on a node outside the tree raises ValueError *)
Theorem C07_match_foreign : forall ct root els x,
  wf_node ct root = true -> nodup_tree root -> foreign root x -> xmatch ct root els x = Some ValueError.
Proof. exact xmatch_foreign. Qed.

(* findall(root) terminates and yields, each once (no node object twice), exactly the nodes of the tree whose chain
   satisfies the documented semantics: sem ct els root x = exists l, path root l x /\ R ct els (chain root l) *)
Theorem C07_findall_sem : forall ct root els, wf_node ct root = true -> nodup_tree root -> els <> [] ->
  exists res, findall ct root els = Some res /\ (forall x, In x res <-> sem ct els root x) /\ NoDup (map addr res).
Proof. exact findall_sem. Qed.
(* corollary: the two algorithms agree - findall yields exactly the nodes n of the tree with match(root, n) True *)
Theorem C07_findall_match : forall ct root els, wf_node ct root = true -> nodup_tree root -> els <> [] ->
  exists res, findall ct root els = Some res /\ NoDup (map addr res) /\
    forall l x, path root l x -> (In x res <-> xmatch ct root els x = Some (Ok true)).
Proof. exact findall_match. Qed.

(* find() is the first node findall yields, None when it yields nothing *)
Theorem C07_find_first : forall ct root els, find ct root els = option_map (@hd_error node) (findall ct root els).
Proof. exact find_first. Qed.

(* the two algorithms agree, chain by chain: the bottom-up recursion of match (M, elements and chain leaf first) and
   the top-down recursion findall's work list collapses to on one chain (G) decide the same relation R *)
Theorem C07_chain_match_is_R : forall ct es ps, es <> [] -> (M ct (rev es) (rev ps) = true <-> R ct es ps).
Proof. exact M_rev_R. Qed.
Theorem C07_chain_search_is_R : forall ct es ps, G ct es ps = true <-> R ct es ps.
Proof. exact G_R. Qed.
Theorem C07_chain_agree : forall ct es ps, es <> [] -> M ct (rev es) (rev ps) = G ct es ps.
Proof. exact match_eq_G. Qed.

(* premises inhabited: the example tree of Model/TreeQ.v with the elements of "//P/@items[2]L" *)
Example C07_premises_inhabited :
  wf_node ex_ct ex_root = true /\ nodup_tree ex_root /\
  R ex_ct [ {| e_cls := lit "P"; e_field := None; e_index := None; e_any := true |};
            {| e_cls := lit "L"; e_field := Some (lit "items"); e_index := Some 2; e_any := false |} ]
       (chain ex_root [ {| ti_node := ex_leaf 6 "L"; ti_parent := ex_root; ti_field := lit "items"; ti_index := Some 2 |} ]).
Proof. exact c07_inhabited. Qed.

(* ---------------------------------------------------------------------------------------------------------------
   The documented meaning at the level of the xpath's STEPS (Spec/StepSem.v, written from the property text, without
   the transformer's reversed element list and `anywhere` flags): [view x] reads the parse as absolute? + steps
   (preceded-by-"//", class?, field?, index?); [step_sem ct sp chain] = there is an assignment js of the steps to
   strictly increasing chain positions, each step satisfied by its position (ssat: instance of the class if given,
   stored in the field / at the index if given - the root has neither), a step directly below the previous one
   unless preceded by "//", the first step on the root when the path is absolute and starts with a single "/", the
   last step on the node itself. *)
From Oak Require Import Spec.StepSem Proofs.StepSemProofs.

(* XPathTransformer (to_elements: reversal, anywhere flags, "//" in front of relative paths) is correct: the two-rule
   relation R over its element list is exactly the step-level meaning, for every xpath that compiles, on every chain *)
Theorem C07_steps_sem : forall ct x els, to_elements x = Some els ->
  forall ch, ch <> [] -> (R ct els ch <-> step_sem ct (view x) ch).
Proof. exact steps_sem. Qed.
(* what the transformer produces: one element per step, e_any = preceded by "//" (first one: or a relative path) *)
Theorem C07_to_elements_steps : forall x els, to_elements x = Some els -> els = compile (view x).
Proof. exact to_elements_view. Qed.

(* C07_match_sem / C07_findall_sem / C07_findall_match restated against step_sem, for every well-formed xpath *)
Theorem C07_match_steps : forall ct root x els l n,
  wf_node ct root = true -> nodup_tree root -> well_formed x = true -> to_elements x = Some els -> path root l n ->
  exists b, xmatch ct root els n = Some (Ok b) /\ (b = true <-> step_sem ct (view x) (chain root l)).
Proof. exact xmatch_steps. Qed.
Theorem C07_findall_steps : forall ct root x els,
  wf_node ct root = true -> nodup_tree root -> well_formed x = true -> to_elements x = Some els ->
  exists res, findall ct root els = Some res /\ (forall n, In n res <-> step_sem_node ct (view x) root n)
              /\ NoDup (map addr res).
Proof. exact findall_steps. Qed.
Theorem C07_findall_match_steps : forall ct root x els,
  wf_node ct root = true -> nodup_tree root -> well_formed x = true -> to_elements x = Some els ->
  exists res, findall ct root els = Some res /\ NoDup (map addr res) /\
    forall l n, path root l n ->
      (In n res <-> xmatch ct root els n = Some (Ok true)) /\
      (xmatch ct root els n = Some (Ok true) <-> step_sem ct (view x) (chain root l)).
Proof. exact findall_match_steps. Qed.

(* premises inhabited: "//P/@items[2]L" compiles, and its step-level meaning holds of node 6 of the example tree;
   "/@child P" is well-formed and does not match the root (the root satisfies no field constraint) *)
Example C07_steps_premises_inhabited :
  well_formed ex_xp1 = true /\
  to_elements ex_xp1 = Some [ {| e_cls := lit "P"; e_field := None; e_index := None; e_any := true |};
                              {| e_cls := lit "L"; e_field := Some (lit "items"); e_index := Some 2; e_any := false |} ] /\
  path ex_root [ex_ti6] (ex_leaf 6 "L") /\
  step_sem ex_ct (view ex_xp1) (chain ex_root [ex_ti6]) /\
  well_formed ex_xp2 = true /\ ~ step_sem ex_ct (view ex_xp2) (chain ex_root []).
Proof. exact c07_steps_inhabited. Qed.

(* non-vacuity witnesses *)
(* the instance: tree and class table of Model/TreeQ.v (L, M a subclass of L, P; three levels; Proofs/C06Witness.v names
   its positions), w7_xp = the relative "@child P//L" (elements w7_els), w7_xpL = "//L" (w7_elsL), w7_l3 = the two-step
   path to L3 *)
From Oak Require Import Proofs.C06Witness Proofs.C07Witness.
(* C07_to_elements_ok, C07_to_elements_steps *)
Theorem C07_ex_compile : well_formed w7_xp = true /\ well_formed w7_xpL = true
  /\ to_elements w7_xp = Some w7_els /\ to_elements w7_xpL = Some w7_elsL /\ w7_els <> [] /\ length w7_els = 2
  /\ to_elements {| xp_relative := false; xp_steps := [empty_step] |} = None.
Proof. exact w7_compile. Qed.
(* C07_match_sem: both verdicts *)
Theorem C07_ex_match : wf_node ex_ct ex_root = true /\ nodup_tree ex_root /\ w7_els <> []
  /\ path ex_root w7_l3 (ex_leaf 3 "L") /\ path ex_root [w6_ti6] (ex_leaf 6 "L")
  /\ xmatch ex_ct ex_root w7_els (ex_leaf 3 "L") = Some (Ok true) /\ R ex_ct w7_els (chain ex_root w7_l3)
  /\ xmatch ex_ct ex_root w7_els (ex_leaf 6 "L") = Some (Ok false).
Proof. exact w7_match. Qed.
(* C07_match_foreign *)
Theorem C07_ex_foreign : wf_node ex_ct ex_root = true /\ nodup_tree ex_root /\ foreign ex_root (ex_leaf 9 "L")
  /\ xmatch ex_ct ex_root w7_els (ex_leaf 9 "L") = Some ValueError.
Proof. exact w7_foreign. Qed.
(* C07_findall_sem, C07_findall_match (and C07_find_first): non-empty results, "//L" also finds the M node *)
Theorem C07_ex_findall : wf_node ex_ct ex_root = true /\ nodup_tree ex_root /\ w7_els <> [] /\ w7_elsL <> []
  /\ option_map (map addr) (findall ex_ct ex_root w7_els) = Some [3]
  /\ option_map (map addr) (findall ex_ct ex_root w7_elsL) = Some [3; 4; 5; 6]
  /\ Xpath.find ex_ct ex_root w7_elsL = Some (Some (ex_leaf 3 "L"))
  /\ sem ex_ct w7_els ex_root (ex_leaf 3 "L").
Proof. exact w7_findall. Qed.
(* C07_chain_match_is_R, C07_chain_agree, C07_chain_search_is_R: a chain of three positions; both values occur *)
Theorem C07_ex_chain : w7_els <> [] /\ length (chain ex_root w7_l3) = 3
  /\ M ex_ct (rev w7_els) (rev (chain ex_root w7_l3)) = true /\ G ex_ct w7_els (chain ex_root w7_l3) = true
  /\ M ex_ct (rev w7_els) (rev (chain ex_root [w6_ti6])) = false /\ G ex_ct w7_els (chain ex_root [w6_ti6]) = false.
Proof. exact w7_chain. Qed.
(* C07_steps_sem *)
Theorem C07_ex_steps : to_elements w7_xp = Some w7_els /\ chain ex_root w7_l3 <> []
  /\ length (sp_steps (view w7_xp)) = 2 /\ sp_absolute (view w7_xp) = false
  /\ step_sem ex_ct (view w7_xp) (chain ex_root w7_l3) /\ ~ step_sem ex_ct (view w7_xp) (chain ex_root [w6_ti6]).
Proof. exact w7_steps. Qed.
(* C07_match_steps, C07_findall_steps, C07_findall_match_steps *)
Theorem C07_ex_steps_tree : wf_node ex_ct ex_root = true /\ nodup_tree ex_root /\ well_formed w7_xp = true
  /\ to_elements w7_xp = Some w7_els /\ path ex_root w7_l3 (ex_leaf 3 "L")
  /\ xmatch ex_ct ex_root w7_els (ex_leaf 3 "L") = Some (Ok true)
  /\ step_sem_node ex_ct (view w7_xp) ex_root (ex_leaf 3 "L")
  /\ option_map (map addr) (findall ex_ct ex_root w7_els) = Some [3].
Proof. exact w7_steps_tree. Qed.
