(* C18 - Legacy parent-aware trees stay structurally consistent through any history.
   ONLY statements; proofs are `exact <lemma of Proofs/LegacyProofs.v>`.

   STATUS: NOT a proof of the property.  pyoak's deprecated legacy code violates C18 (witnesses below, machine
   checked on the model that the correspondence run ties to the code).  The invariant Inv = RegOk /\ LInv
   (Spec/LegacySpec.v) is proved to hold initially and to be preserved by detach_self ONLY; preservation by
   construct / attach / detach / duplicate (where the code is believed right) is NOT proved, hence every theorem about
   the invariant is `_partial`.  Also proved: the reading of the queries against the stored structure, the
   refutations, the inadmissibility of child.replace_with(its parent).  See design.d/C18.md. *)
From Oak Require Import Spec.LegacySpec Proofs.LegacyProofs Proofs.LegacyInv.
From Coq Require Import List String Ascii ZArith Bool Arith.
Import ListNotations.

(* the invariant holds in the empty world and survives detach_self, whatever the receiver (attached root: its
   children become parent-less attached roots and it leaves the registry; anything else: nothing happens).
   Missing for C18_inv_reachable: the same for construct, attach, detach, duplicate, and - where the code is wrong -
   nothing. *)
Theorem C18_inv_init_partial : forall H ct, Inv H ct empty_st.
Proof. exact inv_empty. Qed.
Theorem C18_inv_step_detach_self_partial : forall H ct s a s' ob,
  Inv H ct s -> step H ct s (ODetachSelf a) = (s', ob) -> Inv H ct s'.
Proof. exact inv_step_detach_self. Qed.
(* attach() of an attached node, detach() of a detached node or of a node that has a parent return at once and
   leave the state as it is (so they preserve every invariant) *)
Theorem C18_inv_step_noops_partial : forall H ct s a,
  (detached s a = false -> step H ct s (OAttach a) = (s, RNone)) /\
  (detached s a = true -> step H ct s (ODetach a) = (s, RBool true)) /\
  (detached s a = false -> is_attached_root s a = false -> step H ct s (ODetach a) = (s, RBool false)).
Proof. exact inv_step_noops. Qed.
(* premises inhabited, and the step is not a no-op: after detach_self of the inner node its child is an attached root *)
Example C18_inv_step_detach_self_example :
  exists s, run_ok empty_st [leaf "a"; inner (Some 0) None []] = Some s /\
            parent s 0 = Some 1 /\
            parent (fst (step Hid ct0 s (ODetachSelf 1))) 0 = None /\
            detached (fst (step Hid ct0 s (ODetachSelf 1))) 1 = true /\
            detached (fst (step Hid ct0 s (ODetachSelf 1))) 0 = false.
Proof. eexists. repeat split; vm_compute; reflexivity. Qed.

(* ancestors() is exactly the chain of .parent links, get_depth() its length *)
Theorem C18_queries_ancestors_partial : forall fuel s a l, ancestors fuel s a = Some l -> chain_up s a l.
Proof. exact ancestors_chain. Qed.
Theorem C18_queries_depth_partial : forall s a n,
  get_depth s a = Some n -> exists l, ancestors (fuel_of s) s a = Some l /\ List.length l = n.
Proof. exact get_depth_length. Qed.
(* under the invariant a parent link of an attached node is a stored child position of that parent
   (missing for the full clause: preservation of LInv by the operations, hence that reachable states satisfy it) *)
Theorem C18_queries_parent_holds_child_partial : forall H ct s a p,
  LInv H ct s -> live s a -> attached s a -> parent s a = Some p ->
  exists f, In (a, f, c_pi (cellD s a)) (skids_wf s p).
Proof. exact parent_holds_child. Qed.
(* premises inhabited: a state inside the invariant in which an attached node has a parent *)
Example C18_LInv_example :
  exists s, run_ok empty_st [leaf "a"; inner (Some 0) None []] = Some s /\ LInv Hid ct0 s /\
            live s 0 /\ attached s 0 /\ parent s 0 = Some 1.
Proof. exact linv_example. Qed.
Example C18_noops_example :
  exists s, run_ok empty_st [leaf "a"; inner (Some 0) None []; leaf "b"; ODetach 2] = Some s /\
            detached s 0 = false /\ is_attached_root s 0 = false /\ detached s 2 = true.
Proof. eexists. repeat split; vm_compute; reflexivity. Qed.
(* premises inhabited: a leaf under an inner node *)
Example C18_queries_example :
  exists s, run_ok empty_st [leaf "a"; inner (Some 0) None []] = Some s /\
            parent s 0 = Some 1 /\ ancestors (fuel_of s) s 0 = Some [1] /\ get_depth s 0 = Some 1.
Proof. eexists. repeat split; vm_compute; reflexivity. Qed.

(* x.replace(f=x): a successful, admissible history from the empty state ends outside the invariant
   (the returned attached node has the detached x as a child) *)
Theorem C18_refuted_replace_self_as_child : exists s, run_ok empty_st h_L6 = Some s /\ ~ LInv Hid ct0 s.
Proof. exact refuted_replace_self_as_child. Qed.
(* a change below a detach_self'ed node does not reach it, and attach() does not recompute: the re-attached node
   carries a stale content_id ("changes propagate to all ancestors" fails) *)
Theorem C18_refuted_attach_stale_content_id : exists s, run_ok empty_st h_L12 = Some s /\ ~ LInv Hid ct0 s.
Proof. exact refuted_attach_stale_content_id. Qed.
(* is_ancestor compares nodes with ==: the duplicate of a parent claims the original's child *)
Theorem C18_refuted_is_ancestor_twin :
  exists s, run_ok empty_st h_L7 = Some s /\
            ancestors (fuel_of s) s 0 = Some [1] /\ is_ancestor ct0 s 3 0 = Some true.
Proof. exact refuted_is_ancestor_twin. Qed.
(* child.replace_with(its parent) never returns: the operation is inadmissible (premise of C18) *)
Theorem C18_inadmissible_replace_with_own_parent :
  exists s, run_ok empty_st h_L8 = Some s /\ snd (step Hid ct0 s (OReplaceWith 0 (Some 1))) = RDiv /\
            admissible Hid ct0 s (OReplaceWith 0 (Some 1)) = false.
Proof. exact replace_with_own_parent_diverges. Qed.
