(* C18 - Legacy parent-aware trees stay structurally consistent through any history.
   ONLY statements; proofs are `exact <lemma of Proofs/Legacy*.v>`.

   STATUS: NOT a proof of the property.  pyoak's deprecated legacy code violates C18 (witnesses below, machine
   checked on the model that the correspondence run ties to the code).
   Round 1: Inv = RegOk /\ LInv (Spec/LegacySpec.v) holds initially and is preserved by detach_self.
   Round 2 (second half of this file): the strengthened invariant Inv2 = Inv + Rank + PidOk (Spec/LegacySpec2.v)
   holds in the empty world, implies Inv, and is preserved by every SUCCESSFUL constructor (all three flags), attach,
   detach, detach_self, duplicate (both modes), calculate_xpath, and by the constructor rejections that leave only
   the dead cell - the constructor and attach under guards that exclude exactly the inputs of the open findings
   C18:New:child-detached (a detached node below the new node shares the id of one of its ancestors there),
   C18:Attach:content-id (a stale cached content_id on a detached node that is being re-attached) and the
   inadmissible inputs (one node object at two positions).  History level: Inv2 holds in every state of every
   history made of such guarded steps (C18_inv_history_partial); replace() and replace_with(None / detached node) are
   covered for a receiver without a parent, and replace_with(None) for any node that has a parent (removal from a
   single-child or tuple/list field, with the propagation of content_id to all ancestors).
   Round 3 (end of this file, section 8): Rank is now the well-foundedness of the stored child relation (the address
   order of round 2 is false once _replace_child has put a younger node under an older parent; the old clause
   implies the new one, and the pigeonhole bound |heap| on chains makes tree_cid's fuel sufficient), and replace() /
   replace_with(detached node) are covered for a receiver that HAS a parent, including the digest propagation to all
   ancestors; both are part of the guarded histories.
   replace_with(attached root) is covered too (the argument is popped before the id flip: PidOk has a hole at its
   children until the re-attach).
   A successful ASTTransformer.execute and a successful ASTTransformVisitor.transform are reduced to the history of
   their primitive calls (sections 9, 10): they preserve Inv2 when that history is guarded.
   NOT covered: that the guards hold for every admissible transformation, and the rejections raised while attaching
   (C19).
   Every theorem about the invariant is therefore `_partial`.  See design.d/C18.md. *)
From Oak Require Import Spec.LegacySpec Proofs.LegacyProofs Proofs.LegacyInv.
From Coq Require Import List String Ascii ZArith Bool Arith.
Import ListNotations.

(* the invariant holds in the empty world and survives detach_self, whatever the receiver (attached root: its
   children become parent-less attached roots and it leaves the registry; anything else: nothing happens).
   Missing for C18_inv_reachable: the same for construct, attach, detach, duplicate, and - where the code is wrong -
   nothing. *)
Theorem C18_inv_init_partial : forall H ct, Inv H ct empty_st.
Proof. exact inv_empty. Qed.
Theorem C18_inv_step_detach_self_partial : forall H ct s a s' ob,
  Inv H ct s -> step H ct s (ODetachSelf a) = (s', ob) -> Inv H ct s'.
Proof. exact inv_step_detach_self. Qed.
(* attach() of an attached node, detach() of a detached node or of a node that has a parent return at once and
   leave the state as it is (so they preserve every invariant) *)
Theorem C18_inv_step_noops_partial : forall H ct s a,
  (detached s a = false -> step H ct s (OAttach a) = (s, RNone)) /\
  (detached s a = true -> step H ct s (ODetach a) = (s, RBool true)) /\
  (detached s a = false -> is_attached_root s a = false -> step H ct s (ODetach a) = (s, RBool false)).
Proof. exact inv_step_noops. Qed.
(* premises inhabited, and the step is not a no-op: after detach_self of the inner node its child is an attached root *)
Example C18_inv_step_detach_self_example :
  exists s, run_ok empty_st [leaf "a"; inner (Some 0) None []] = Some s /\
            parent s 0 = Some 1 /\
            parent (fst (step Hid ct0 s (ODetachSelf 1))) 0 = None /\
            detached (fst (step Hid ct0 s (ODetachSelf 1))) 1 = true /\
            detached (fst (step Hid ct0 s (ODetachSelf 1))) 0 = false.
Proof. eexists. repeat split; vm_compute; reflexivity. Qed.

(* ancestors() is exactly the chain of .parent links, get_depth() its length *)
Theorem C18_queries_ancestors_partial : forall fuel s a l, ancestors fuel s a = Some l -> chain_up s a l.
Proof. exact ancestors_chain. Qed.
Theorem C18_queries_depth_partial : forall s a n,
  get_depth s a = Some n -> exists l, ancestors (fuel_of s) s a = Some l /\ List.length l = n.
Proof. exact get_depth_length. Qed.
(* under the invariant a parent link of an attached node is a stored child position of that parent
   (missing for the full clause: preservation of LInv by the operations, hence that reachable states satisfy it) *)
Theorem C18_queries_parent_holds_child_partial : forall H ct s a p,
  LInv H ct s -> live s a -> attached s a -> parent s a = Some p ->
  exists f, In (a, f, c_pi (cellD s a)) (skids_wf s p).
Proof. exact parent_holds_child. Qed.
(* premises inhabited: a state inside the invariant in which an attached node has a parent *)
Example C18_LInv_example :
  exists s, run_ok empty_st [leaf "a"; inner (Some 0) None []] = Some s /\ LInv Hid ct0 s /\
            live s 0 /\ attached s 0 /\ parent s 0 = Some 1.
Proof. exact linv_example. Qed.
Example C18_noops_example :
  exists s, run_ok empty_st [leaf "a"; inner (Some 0) None []; leaf "b"; ODetach 2] = Some s /\
            detached s 0 = false /\ is_attached_root s 0 = false /\ detached s 2 = true.
Proof. eexists. repeat split; vm_compute; reflexivity. Qed.
(* premises inhabited: a leaf under an inner node *)
Example C18_queries_example :
  exists s, run_ok empty_st [leaf "a"; inner (Some 0) None []] = Some s /\
            parent s 0 = Some 1 /\ ancestors (fuel_of s) s 0 = Some [1] /\ get_depth s 0 = Some 1.
Proof. eexists. repeat split; vm_compute; reflexivity. Qed.

(* x.replace(f=x): a successful, admissible history from the empty state ends outside the invariant
   (the returned attached node has the detached x as a child) *)
Theorem C18_refuted_replace_self_as_child : exists s, run_ok empty_st h_L6 = Some s /\ ~ LInv Hid ct0 s.
Proof. exact refuted_replace_self_as_child. Qed.
(* a change below a detach_self'ed node does not reach it, and attach() does not recompute: the re-attached node
   carries a stale content_id ("changes propagate to all ancestors" fails) *)
Theorem C18_refuted_attach_stale_content_id : exists s, run_ok empty_st h_L12 = Some s /\ ~ LInv Hid ct0 s.
Proof. exact refuted_attach_stale_content_id. Qed.
(* is_ancestor compares nodes with ==: the duplicate of a parent claims the original's child *)
Theorem C18_refuted_is_ancestor_twin :
  exists s, run_ok empty_st h_L7 = Some s /\
            ancestors (fuel_of s) s 0 = Some [1] /\ is_ancestor ct0 s 3 0 = Some true.
Proof. exact refuted_is_ancestor_twin. Qed.
(* child.replace_with(its parent) never returns: the operation is inadmissible (premise of C18) *)
Theorem C18_inadmissible_replace_with_own_parent :
  exists s, run_ok empty_st h_L8 = Some s /\ snd (step Hid ct0 s (OReplaceWith 0 (Some 1))) = RDiv /\
            admissible Hid ct0 s (OReplaceWith 0 (Some 1)) = false.
Proof. exact replace_with_own_parent_diverges. Qed.

(* ====================================================================================================== *)
(* Round 2: the strengthened invariant Inv2 (Spec/LegacySpec2.v) and the guarded step / history theorems   *)
(* ====================================================================================================== *)
From Oak Require Import Spec.LegacySpec2 Proofs.LegacyHistory Proofs.LegacyReplace Proofs.LegacyRemove2 Proofs.LegacyRemoveSeq3 Proofs.LegacyStep Proofs.LegacyQueries2
  Proofs.LegacyDetachTotal Proofs.LegacyExamples.

(* 1. Inv2 = RegOk /\ Rank (the stored child relation is well founded: every stored child exists and no node holds
      itself below one of its children - since round 3; round 2 had "child addresses are smaller than their
      parent's" = AddrRank, which implies Rank and is false after replace() of a node that has a parent, section 8;
      Rank makes the fuel of tree_cid irrelevant) /\ PidOk (no dead stored parent id) /\ LInv: holds initially,
      implies Inv *)
Theorem C18_inv2_init_partial : forall H ct, Inv2 H ct empty_st.
Proof. exact inv2_empty. Qed.
Theorem C18_inv2_implies_inv_partial : forall H ct s, Inv2 H ct s -> Inv H ct s.
Proof. exact inv2_inv. Qed.

(* 2. a successful constructor over existing children preserves Inv2, for all combinations of ensure_unique_id /
      create_as_duplicate / create_detached.  Guards: the children exist (kids_live); and, when the node is attached
      (create_detached = False), new_guard: the tree of the new node is a tree (premise of C18), no node below it
      that was detached before the call shares its id with one of its ancestors in that tree (otherwise
      _attach_inner registers the ancestor over it: open finding C18:New:child-detached), and the cached content_id
      of every such detached node was up to date (attach does not recompute: C18:Attach:content-id).
      Children that are attached roots need nothing; a child that has another parent makes the call fail. *)
Theorem C18_inv_step_construct_partial : forall H ct s cls org fs idarg eu ad cd s' r,
  Inv2 H ct s -> kids_live s fs -> step H ct s (ONew cls org fs idarg eu ad cd) = (s', RNode r) ->
  (cd = false -> new_guard H ct s s' r) -> Inv2 H ct s'.
Proof. exact inv2_step_new. Qed.
(* ... and so does a constructor rejected for duplicate children or an id collision (only the dead cell is left) *)
Theorem C18_inv_step_construct_rejected_partial : forall H ct s cls org fs idarg eu ad cd s' e,
  Inv2 H ct s -> kids_live s fs -> step H ct s (ONew cls org fs idarg eu ad cd) = (s', RErr e) ->
  e = EDup \/ e = EIdc -> Inv2 H ct s'.
Proof. exact inv2_step_new_rejected. Qed.
Example C18_inv_step_construct_example :
  Inv2 Hid ct0 x_s2 /\ detached x_s2 0 = true /\
  kids_live x_s2 [(lit "req", FOne (Some 0)); (lit "opt", FOne None); (lit "tup", FSeq [])] /\
  step Hid ct0 x_s2 x_o3 = (x_s3, RNode 1) /\ new_guard Hid ct0 x_s2 x_s3 1 /\
  detached x_s3 0 = false /\ parent x_s3 0 = Some 1.
Proof. exact x_example_construct. Qed.
Example C18_inv_step_construct_rejected_example :
  Inv2 Hid ct0 x_s7 /\ step Hid ct0 x_s7 x_o8 = (x_s8, RErr EDup) /\ List.length (heap x_s8) = 5.
Proof. exact x_example_new_rejected. Qed.

(* 3. detach() (full) that returns preserves Inv2, whatever the receiver (attached root: the whole subtree leaves the
      registry and loses its parent slots; anything else: nothing happens).  No guard.  The same for detach_self. *)
Theorem C18_inv_step_detach_partial : forall H ct s a s' b,
  Inv2 H ct s -> step H ct s (ODetach a) = (s', RBool b) -> Inv2 H ct s'.
Proof. exact inv2_step_detach_form. Qed.
Theorem C18_inv2_step_detach_self_partial : forall H ct s a s' b,
  Inv2 H ct s -> step H ct s (ODetachSelf a) = (s', RBool b) -> Inv2 H ct s'.
Proof. exact inv2_step_detach_self_form. Qed.
(*    ... and from an Inv2 state detach()/detach_self() of an existing node ALWAYS returns a boolean (the fuel
      |heap|+1 suffices = the real call terminates, and the KeyError of _nodes.pop cannot happen): the outcome premise
      above is always met *)
Theorem C18_inv_step_detach_total_partial : forall H ct s a s' ob,
  Inv2 H ct s -> live s a ->
  (step H ct s (ODetach a) = (s', ob) \/ step H ct s (ODetachSelf a) = (s', ob)) ->
  Inv2 H ct s' /\ exists b, ob = RBool b.
Proof. exact inv2_step_detach_total. Qed.
Example C18_inv_step_detach_total_example :
  Inv2 Hid ct0 x_s3 /\ live x_s3 1 /\ step Hid ct0 x_s3 x_o4 = (x_s4, RBool true).
Proof. exact x_example_detach_total. Qed.
Example C18_inv_step_detach_example :
  Inv2 Hid ct0 x_s3 /\ step Hid ct0 x_s3 x_o4 = (x_s4, RBool true) /\
  detached x_s3 0 = false /\ detached x_s4 0 = true /\ detached x_s4 1 = true /\ parent x_s4 0 = None.
Proof. exact x_example_detach. Qed.
(*    a successful attach() preserves Inv2 under att_guard: the receiver exists, its stored subtree is a tree, no
      detached node in it shares its id with one of its ancestors in it, and the cached content_id of every detached
      node in it equals the digest of the rebuilt tree (tree_cid): the stale-digest finding C18:Attach:content-id is
      exactly the failure of this last clause. *)
Theorem C18_inv_step_attach_partial : forall H ct s a s',
  Inv2 H ct s -> att_guard H ct s a -> step H ct s (OAttach a) = (s', RNone) -> Inv2 H ct s'.
Proof. exact inv2_step_attach_form. Qed.
Example C18_inv_step_attach_example :
  Inv2 Hid ct0 x_s4 /\ att_guard Hid ct0 x_s4 1 /\ step Hid ct0 x_s4 x_o5 = (x_s5, RNone) /\
  detached x_s4 0 = true /\ detached x_s5 0 = false /\ parent x_s5 0 = Some 1.
Proof. exact x_example_attach. Qed.

(* 4. a successful duplicate() preserves Inv2 in both modes, without any guard (the copies are fresh nodes built
      bottom-up; with as_detached_clone=False every copied child is an attached root when its parent's copy is
      constructed, so the guards of the constructor hold by themselves) *)
Theorem C18_inv_step_duplicate_partial : forall H ct s a d s' r,
  Inv2 H ct s -> step H ct s (ODuplicate a d) = (s', RNode r) -> Inv2 H ct s'.
Proof. exact inv2_step_duplicate_form. Qed.
Example C18_inv_step_duplicate_example :
  Inv2 Hid ct0 x_s5 /\ step Hid ct0 x_s5 x_o6 = (x_s6, RNode 3) /\
  List.length (heap x_s6) = 4 /\ parent x_s6 2 = Some 3 /\ parent x_s6 0 = Some 1.
Proof. exact x_example_duplicate. Qed.
(*    calculate_xpath() only writes _xpath: Inv2 survives whatever it returns or raises *)
Theorem C18_inv_step_calc_xpath_partial : forall H ct s a s' ob,
  Inv2 H ct s -> step H ct s (OCalcXpath a) = (s', ob) -> Inv2 H ct s'.
Proof. exact inv2_step_calc_xpath. Qed.

(* 5. replace() and replace_with(None) on a receiver WITHOUT a parent (attached root or detached node): then replace()
      is detach_self + constructor under the receiver's id and replace_with(None) is detach().  Guards of replace: the
      changed child values exist, and - when the receiver was attached - new_guard read after the receiver has left
      the registry: the excluded input is exactly finding C18:Replace:child-detached (x.replace(f=x): the new node
      holds the now detached receiver, which carries the new node's id).
      With a parent, _replace_child stores the younger node in the parent's field: section 8 (round 3).
      replace_with(attached root): section 8 as well.  ASTTransformer.execute: section 9.  The visitor: section 10. *)
Theorem C18_inv_step_replace_root_partial : forall H ct s a ch s' r,
  Inv2 H ct s -> parent s a = None ->
  step H ct s (OReplace a ch) = (s', RNode r) ->
  kids_live s (apply_changes (c_fs (cellD s a)) ch) ->
  (detached s a = false -> new_guard H ct (fst (step H ct s (ODetachSelf a))) s' r) ->
  Inv2 H ct s'.
Proof. exact inv2_step_replace_root_form. Qed.
Theorem C18_inv_step_replace_with_none_root_partial : forall H ct s a s',
  Inv2 H ct s -> parent s a = None -> step H ct s (OReplaceWith a None) = (s', RNone) -> Inv2 H ct s'.
Proof. exact inv2_step_replace_with_none_root. Qed.
(*    replace_with(node) on a parent-less receiver, the node being detached once the receiver has been detached:
      detach() + the id flip (node.original_id = node.id; node.id = receiver.id) on the detached node + attach.
      The guard of attach is read on the state in which the node already carries the receiver's id: it excludes
      findings C18:ReplaceWith:child-detached (the receiver sits inside the node) and C18:ReplaceWith:content-id.
      An ATTACHED node argument (popped from the registry before the flip, leaving its children with a dead parent
      id until the re-attach): C18_inv_step_replace_with_root_attached_partial, section 8. *)
Theorem C18_inv_step_replace_with_root_partial : forall H ct s a n s',
  Inv2 H ct s -> parent s a = None ->
  step H ct s (OReplaceWith a (Some n)) = (s', RNone) ->
  detached (fst (step H ct s (ODetach a))) n = true ->
  att_guard H ct (fst (flip_ids (fst (step H ct s (ODetach a))) a n)) n ->
  Inv2 H ct s'.
Proof. exact inv2_step_replace_with_root. Qed.
Example C18_inv_step_replace_with_root_example :
  Inv2 Hid ct0 x_s10 /\ parent x_s10 5 = None /\ detached x_s10 5 = false /\
  detached (fst (step Hid ct0 x_s10 (ODetach 5))) 3 = true /\
  att_guard Hid ct0 (fst (flip_ids (fst (step Hid ct0 x_s10 (ODetach 5))) 5 3)) 3 /\
  step Hid ct0 x_s10 x_o11 = (x_s11, RNone) /\
  detached x_s11 5 = true /\ detached x_s11 3 = false /\ parent x_s11 2 = Some 3 /\ id_of x_s11 3 = id_of x_s10 5.
Proof. exact x_example_replace_with. Qed.
(*    replace_with(None) of an attached node that HAS a parent and sits in a single-child field of it (parent_index
      None; the call succeeds only if the field is optional): the subtree is detached, the parent's field becomes None
      and _reset_content_id recomputes the digests of the parent and of ALL its ancestors - the invariant (with the
      content_id clause for every ancestor: "changes propagate to all ancestors") holds afterwards.
      Guard: the field names of the parent are distinct (true of every class instance; the model's constructor accepts
      any field list).  The second theorem is the same for a node in a tuple / list field: the element is removed and
      the parent_index of every later sibling is decremented. *)
Theorem C18_inv_step_replace_with_none_child_partial : forall H ct s a p f s',
  Inv2 H ct s -> live s a -> attached s a ->
  parent s a = Some p -> c_pf (cellD s a) = Some f -> c_pi (cellD s a) = None ->
  NoDup (map fst (c_fs (cellD s p))) ->
  step H ct s (OReplaceWith a None) = (s', RNone) -> Inv2 H ct s'.
Proof. exact inv2_step_replace_with_none_child. Qed.
Theorem C18_inv_step_replace_with_none_seq_partial : forall H ct s a p f ix s',
  Inv2 H ct s -> live s a -> attached s a ->
  parent s a = Some p -> c_pf (cellD s a) = Some f -> c_pi (cellD s a) = Some ix ->
  NoDup (map fst (c_fs (cellD s p))) ->
  step H ct s (OReplaceWith a None) = (s', RNone) -> Inv2 H ct s'.
Proof. exact inv2_step_replace_with_none_seq. Qed.
Example C18_inv_step_replace_with_none_seq_example :
  Inv2 Hid ct0 v_s3 /\ live v_s3 0 /\ attached v_s3 0 /\ parent v_s3 0 = Some 2 /\
  c_pf (cellD v_s3 0) = Some (lit "tup") /\ c_pi (cellD v_s3 0) = Some 0 /\ c_pi (cellD v_s3 1) = Some 1 /\
  NoDup (map fst (c_fs (cellD v_s3 2))) /\
  step Hid ct0 v_s3 v_o4 = (v_s4, RNone) /\
  detached v_s4 0 = true /\ skids v_s4 2 = [1] /\ c_pi (cellD v_s4 1) = Some 0 /\
  c_cid (cellD v_s4 2) <> c_cid (cellD v_s3 2) /\
  guarded Hid ct0 empty_st [v_o1; v_o2; v_o3; v_o4].
Proof. exact v_example_remove_seq. Qed.
Example C18_inv_step_replace_with_none_child_example :
  Inv2 Hid ct0 w_s2 /\ live w_s2 0 /\ attached w_s2 0 /\ parent w_s2 0 = Some 1 /\
  c_pf (cellD w_s2 0) = Some (lit "opt") /\ c_pi (cellD w_s2 0) = None /\
  NoDup (map fst (c_fs (cellD w_s2 1))) /\
  step Hid ct0 w_s2 w_o3 = (w_s3, RNone) /\
  detached w_s3 0 = true /\ skids w_s3 1 = [] /\ c_cid (cellD w_s3 1) <> c_cid (cellD w_s2 1) /\
  guarded Hid ct0 empty_st [w_o1; w_o2; w_o3].
Proof. exact w_example_remove. Qed.
Example C18_inv_step_replace_root_example :
  Inv2 Hid ct0 x_s8 /\ parent x_s8 1 = None /\ detached x_s8 1 = false /\
  step Hid ct0 x_s8 x_o9 = (x_s9, RNode 5) /\
  kids_live x_s8 (apply_changes (c_fs (cellD x_s8 1)) [(lit "opt", CV (FOne None))]) /\
  new_guard Hid ct0 (fst (step Hid ct0 x_s8 (ODetachSelf 1))) x_s9 5 /\
  detached x_s9 1 = true /\ parent x_s9 0 = Some 5 /\
  guarded Hid ct0 x_s8 [x_o9; x_o10] /\ detached x_s10 3 = true /\ detached x_s10 2 = true.
Proof. exact x_example_replace. Qed.

(* 6. histories: every state of a history whose steps are all covered (step_guard: the operations above with their
      guards and outcomes; a call that does not return leaves the state as it is) satisfies Inv2, hence Inv.
      Covered besides the above: replace() / replace_with(None) / replace_with(detached node) of a parent-less
      receiver AND (round 3, section 8) of a receiver that has a parent, replace_with(None) of a node that has a
      parent (any child field), and the rejections ASTNodeReplaceError / ASTNodeReplaceWithError-of-replace_with(None)
      (state unchanged).
      replace_with(attached root) is covered as well (round 3).
      Missing for C18 itself: the steps rejected while attaching - a history containing one of them is not
      `guarded`; ASTTransformer.execute and ASTTransformVisitor.transform are handled through the history of their
      primitive calls (sections 9, 10), not as steps of `guarded`. *)
Theorem C18_inv_step_partial : forall H ct s o s' ob,
  Inv2 H ct s -> step H ct s o = (s', ob) -> step_guard H ct s o s' ob -> Inv2 H ct s'.
Proof. exact inv2_step. Qed.
Theorem C18_inv_history_partial : forall H ct ops,
  guarded H ct empty_st ops -> forall x, In x (trace H ct empty_st ops) -> Inv2 H ct x.
Proof. exact inv2_history_empty. Qed.
Theorem C18_inv_history_from_partial : forall H ct ops s,
  Inv2 H ct s -> guarded H ct s ops -> forall x, In x (trace H ct s ops) -> Inv2 H ct x.
Proof. exact inv2_history. Qed.
(* premises inhabited: leaf; detach it; parent over the detached leaf; full detach; attach; duplicate;
   calculate_xpath; a constructor rejected for duplicate children *)
Example C18_inv_history_example :
  guarded Hid ct0 empty_st x_ops /\ List.length (trace Hid ct0 empty_st x_ops) = 9 /\
  List.length (heap x_s8) = 5 /\ detached x_s8 1 = false /\ parent x_s8 0 = Some 1 /\ parent x_s8 2 = Some 3.
Proof. exact x_example_history. Qed.

(* 7. the upward queries under Inv2: ancestors() of an attached node returns (the fuel |heap|+1 is enough: the real
      call terminates), it is the chain of .parent links, every node of it is attached and holds the receiver in its
      stored subtree, and get_depth() is its length.  (is_ancestor stays refuted: it compares with ==.) *)
Theorem C18_queries_total_partial : forall H ct s a,
  Inv2 H ct s -> live s a -> attached s a ->
  exists l, ancestors (fuel_of s) s a = Some l /\ chain_up s a l /\ get_depth s a = Some (List.length l) /\
            forall x, In x l -> attached s x /\ live s x /\ reach s x a.
Proof. exact queries_total. Qed.
Example C18_queries_total_example :
  Inv2 Hid ct0 x_s3 /\ live x_s3 0 /\ attached x_s3 0 /\ ancestors (fuel_of x_s3) x_s3 0 = Some [1] /\
  get_depth x_s3 0 = Some 1.
Proof. exact x_example_queries. Qed.

(* ====================================================================================================== *)
(* Round 3: replace() / replace_with(node) of a receiver that HAS a parent                                 *)
(* ====================================================================================================== *)
From Oak Require Import Spec.LegacySpec3 Spec.LegacySpec4 Proofs.LegacyHeap Proofs.LegacyReplaceChild3 Proofs.LegacyReplaceChild4
  Proofs.LegacyTransformer Proofs.LegacyVisitor Proofs.LegacyExamples3.

(* 8. _replace_child(parent, old, field, index, new) stores the new - YOUNGER - node in the field of the older parent:
      the address order of round 2 (AddrRank) does not survive it.  Rank is therefore the well-foundedness itself
      (children exist, no node below one of its own children).  On the finite heap it bounds every chain of stored
      children by |heap| (pigeonhole), so the digest of the rebuilt tree does not depend on the fuel once the fuel
      exceeds |heap| - tree_cid's own fuel is |heap|+1 - and the old clause implies the new one. *)
Theorem C18_rank_from_addr_rank_partial : forall s, AddrRank s -> Rank s.
Proof. exact addr_rank_rank. Qed.
Theorem C18_inv2_old_implies_inv2_partial : forall H ct s, Inv2_old H ct s -> Inv2 H ct s.
Proof. exact inv2_old_inv2. Qed.
Theorem C18_rank_depth_partial : forall s a, Rank s -> depth_le s (List.length (heap s)) a.
Proof. exact rank_depth. Qed.
Theorem C18_tree_cid_fuel_partial : forall H ct s a f f',
  Rank s -> List.length (heap s) < f -> List.length (heap s) < f' -> tree_cid H ct f s a = tree_cid H ct f' s a.
Proof. exact tree_cid_fuel. Qed.
Example C18_rank_example :
  Inv2_old Hid ct0 z_s4 /\ AddrRank z_s4 /\ Rank z_s5 /\ ~ AddrRank z_s5 /\ depth_le z_s5 2 3 /\ ~ depth_le z_s5 1 3.
Proof. exact z_example_rank. Qed.

(*    a.replace( **changes ) of a node that has a parent p (hence is attached: PidOk): a is cut out of p
      (_clear_parent), detach_self'ed, the new node r is constructed under a's id over a's (changed) children, p's
      field is redirected from a to r, r gets its parent slots, and - when the content_id changed -
      _reset_content_id recomputes the digests of p and of ALL its ancestors.  Between a.detach and
      p._replace_child the parent p still stores the detached a: those states satisfy Inv2 with a hole at that one
      edge (Proofs/LegacyHole.v), and every digest stays right because no child field has changed yet.
      Guards: the field names of p are distinct (a class instance); the changed child values exist; new_guard of
      the constructor (as for a parent-less receiver: open finding C18:Replace:child-detached is its failure), read
      after a has been cut out and detach_self'ed; the new node holds neither p (the new edge p -> r would close a
      cycle: when the digests happen to agree the call returns, otherwise _reset_content_id never does) nor a below
      it (implied by new_guard except when a's id is the UNSET marker of the constructor). *)
Theorem C18_inv_step_replace_child_partial : forall H ct s a p ch s' r,
  Inv2 H ct s -> parent s a = Some p ->
  step H ct s (OReplace a ch) = (s', RNode r) ->
  NoDup (map fst (c_fs (cellD s p))) ->
  kids_live s (apply_changes (c_fs (cellD s a)) ch) ->
  new_guard H ct (fst (step H ct (clear_parent s a) (ODetachSelf a))) s' r ->
  ~ reach s' r p -> ~ reach s' r a ->
  Inv2 H ct s'.
Proof. exact inv2_step_replace_child. Qed.
Example C18_inv_step_replace_child_example :
  Inv2 Hid ct0 z_s4 /\ parent z_s4 0 = Some 1 /\ parent z_s4 1 = Some 3 /\
  step Hid ct0 z_s4 z_o5 = (z_s5, RNode 4) /\
  NoDup (map fst (c_fs (cellD z_s4 1))) /\
  kids_live z_s4 (apply_changes (c_fs (cellD z_s4 0)) [(lit "v", CV (FP (LS (lit "c"))))])%string /\
  new_guard Hid ct0 (fst (step Hid ct0 (clear_parent z_s4 0) (ODetachSelf 0))) z_s5 4 /\
  ~ reach z_s5 4 1 /\ ~ reach z_s5 4 0 /\
  skids z_s5 1 = [4] /\ parent z_s5 4 = Some 1 /\ detached z_s5 0 = true /\ ~ AddrRank z_s5 /\
  c_cid (cellD z_s5 1) <> c_cid (cellD z_s4 1) /\ c_cid (cellD z_s5 3) <> c_cid (cellD z_s4 3) /\
  Inv2 Hid ct0 z_s5.
Proof. exact z_example_replace_child. Qed.

(*    a.replace_with(n) of a node that has a parent p, n being detached once a's subtree is: a is cut out of p and
      detached, n takes a's id (original_id = its old id), n is attached, p's field is redirected from a to n,
      digests as above.  Guards: the field names of p are distinct; att_guard of n read on the state in which n
      already carries a's id (excludes C18:ReplaceWith:child-detached - a inside n - and C18:ReplaceWith:content-id);
      n does not hold p below it.  (An attached argument: below.) *)
Theorem C18_inv_step_replace_with_child_partial : forall H ct s a p n s',
  Inv2 H ct s -> parent s a = Some p ->
  step H ct s (OReplaceWith a (Some n)) = (s', RNone) ->
  NoDup (map fst (c_fs (cellD s p))) ->
  detached (fst (step H ct (clear_parent s a) (ODetach a))) n = true ->
  att_guard H ct (fst (flip_ids (fst (step H ct (clear_parent s a) (ODetach a))) a n)) n ->
  ~ reach s' n p ->
  Inv2 H ct s'.
Proof. exact inv2_step_replace_with_child. Qed.
Example C18_inv_step_replace_with_child_example :
  Inv2 Hid ct0 z_s7 /\ parent z_s7 1 = Some 3 /\ c_pi (cellD z_s7 1) = Some 0 /\
  step Hid ct0 z_s7 z_o8 = (z_s8, RNone) /\
  NoDup (map fst (c_fs (cellD z_s7 3))) /\
  detached (fst (step Hid ct0 (clear_parent z_s7 1) (ODetach 1))) 5 = true /\
  att_guard Hid ct0 (fst (flip_ids (fst (step Hid ct0 (clear_parent z_s7 1) (ODetach 1))) 1 5)) 5 /\
  ~ reach z_s8 5 3 /\
  skids z_s8 3 = [2; 5] /\ parent z_s8 5 = Some 3 /\ c_pi (cellD z_s8 5) = Some 0 /\
  detached z_s8 1 = true /\ detached z_s8 4 = true /\ id_of z_s8 5 = id_of z_s7 1 /\
  c_cid (cellD z_s8 3) <> c_cid (cellD z_s7 3) /\ Inv2 Hid ct0 z_s8 /\
  guarded Hid ct0 empty_st z_ops.
Proof. exact z_example_replace_with_child. Qed.
(*    replace_with(n) with an ATTACHED n (an attached root: an attached subtree node is rejected by the pre-check),
      for a receiver without and with a parent.  flip_ids pops n from the registry BEFORE it overwrites n.id, so until
      n is attached again the children of n carry a stored parent id that is not registered (PidOk has a hole at
      exactly these nodes: Proofs/LegacyHoleY.v); they are still attached and `.parent` is None for them, so
      _attach_inner takes them for attached roots and adopts them again under the new id.  Same guards as for a
      detached argument (att_guard read on the flipped state). *)
Theorem C18_inv_step_replace_with_root_attached_partial : forall H ct s a n s',
  Inv2 H ct s -> parent s a = None ->
  step H ct s (OReplaceWith a (Some n)) = (s', RNone) ->
  detached (fst (step H ct s (ODetach a))) n = false ->
  att_guard H ct (fst (flip_ids (fst (step H ct s (ODetach a))) a n)) n ->
  Inv2 H ct s'.
Proof. exact inv2_step_replace_with_root_attached. Qed.
Example C18_inv_step_replace_with_root_attached_example :
  Inv2 Hid ct0 r_s3 /\ parent r_s3 0 = None /\
  step Hid ct0 r_s3 r_o4 = (r_s4, RNone) /\
  detached (fst (step Hid ct0 r_s3 (ODetach 0))) 2 = false /\
  att_guard Hid ct0 (fst (flip_ids (fst (step Hid ct0 r_s3 (ODetach 0))) 0 2)) 2 /\
  c_pid (cellD r_m4 1) <> None /\ parent r_m4 1 = None /\ detached r_m4 1 = false /\
  detached r_s4 0 = true /\ detached r_s4 2 = false /\ parent r_s4 1 = Some 2 /\ id_of r_s4 2 = id_of r_s3 0 /\
  Inv2 Hid ct0 r_s4 /\ guarded Hid ct0 empty_st r_ops.
Proof. exact r_example_replace_with_root_attached. Qed.
Theorem C18_inv_step_replace_with_child_attached_partial : forall H ct s a p n s',
  Inv2 H ct s -> parent s a = Some p ->
  step H ct s (OReplaceWith a (Some n)) = (s', RNone) ->
  NoDup (map fst (c_fs (cellD s p))) ->
  detached (fst (step H ct (clear_parent s a) (ODetach a))) n = false ->
  att_guard H ct (fst (flip_ids (fst (step H ct (clear_parent s a) (ODetach a))) a n)) n ->
  ~ reach s' n p ->
  Inv2 H ct s'.
Proof. exact inv2_step_replace_with_child_attached. Qed.
Example C18_inv_step_replace_with_child_attached_example :
  Inv2 Hid ct0 q_s4 /\ parent q_s4 0 = Some 1 /\
  step Hid ct0 q_s4 q_o5 = (q_s5, RNone) /\
  NoDup (map fst (c_fs (cellD q_s4 1))) /\
  detached (fst (step Hid ct0 (clear_parent q_s4 0) (ODetach 0))) 3 = false /\
  att_guard Hid ct0 (fst (flip_ids (fst (step Hid ct0 (clear_parent q_s4 0) (ODetach 0))) 0 3)) 3 /\
  ~ reach q_s5 3 1 /\
  c_pid (cellD q_m5 2) <> None /\ parent q_m5 2 = None /\ detached q_m5 2 = false /\
  skids q_s5 1 = [3] /\ parent q_s5 3 = Some 1 /\ parent q_s5 2 = Some 3 /\ id_of q_s5 3 = id_of q_s4 0 /\
  detached q_s5 0 = true /\ Inv2 Hid ct0 q_s5 /\ guarded Hid ct0 empty_st q_ops.
Proof. exact q_example_replace_with_child_attached. Qed.
(*    All of these are part of step_guard, so C18_inv_step_partial / C18_inv_history_partial (section 6) cover histories
      that contain them - z_ops, q_ops, r_ops above are `guarded` from the empty world. *)

(* 9. ASTTransformer.execute.  It computes the bottom-up order of the tree first and then, node by node, calls the
      callback and - when the callback returned a different node with a different id, or None - node.replace_with(
      result).  With the rule language of the model every call it makes is an operation of the machine (replace(p=v),
      a constructor, replace_with), and exec_ops (Spec/LegacySpec3.v) lists them: a SUCCESSFUL execute ends exactly in
      the state in which that history ends.  Hence it preserves Inv2 whenever that history is guarded - the calls are
      replace() of nodes that have a parent, replace_with(None), replace_with(freshly constructed attached root) of
      nodes that have a parent: the cases of section 8.  (The guards are conditions on the intermediate states;
      whether every admissible execute meets them is not proved.  Open findings C19:Transformer:* concern REJECTED
      executes, C18:Dup:parent-slot a successful execute through the weak registry, which the model purges at the end
      of the step only.) *)
Theorem C18_transformer_is_history_partial : forall H ct rules s root s' o order,
  op_execute H ct rules s root = Ok s' o -> postorder (fuel_of s) s root = Some order ->
  run H ct s (exec_ops H ct rules root s order) = s'.
Proof. exact execute_is_history. Qed.
Theorem C18_inv_step_transformer_partial : forall H ct s root rules s' o made order,
  Inv2 H ct s -> step H ct s (OTransformer root rules) = (s', ROut o made) ->
  postorder (fuel_of s) s root = Some order ->
  guarded H ct s (exec_ops H ct rules root s order) -> Inv2 H ct s'.
Proof. exact inv2_step_transformer. Qed.
Example C18_inv_step_transformer_example :
  Inv2 Hid ct0 z_s4 /\ step Hid ct0 z_s4 t_o = (t_s3, ROut (Some 3) [4]) /\
  postorder (fuel_of z_s4) z_s4 3 = Some [2; 0; 1; 3] /\
  exec_ops Hid ct0 t_rules 3 z_s4 [2; 0; 1; 3] = [t_c1; t_c2; t_c3] /\
  guarded Hid ct0 z_s4 (exec_ops Hid ct0 t_rules 3 z_s4 [2; 0; 1; 3]) /\
  skids t_s3 3 = [4; 1] /\ skids t_s3 1 = [5] /\ detached t_s3 2 = true /\ detached t_s3 0 = true /\
  c_cid (cellD t_s3 3) <> c_cid (cellD z_s4 3) /\ Inv2 Hid ct0 t_s3.
Proof. exact t_example_transformer. Qed.

(* 10. ASTTransformVisitor.transform, the same way: an attached node is duplicated as a detached clone, the callback
      works on the clone (generic_visit / ASet transform the children of the clone first - they are detached, so no
      further clone is made - and call clone.replace( **changes ) when something changed), finally
      original.replace_with(result).  vtrace (Spec/LegacySpec4.v) lists these calls - duplicate(as_detached_clone=
      True), replace of detached parent-less nodes, constructors, one replace_with -; a SUCCESSFUL transform ends in
      the state in which that history ends (induction over the fuel and the two loops of _transform_children), hence
      it preserves Inv2 whenever that history is guarded.  As for the transformer the guards are conditions on the
      intermediate states (att_guard of the final replace_with: the result tree is a tree, its ids are pairwise
      distinct, its cached digests are right); that every admissible transform meets them is not proved. *)
Theorem C18_visitor_is_history_partial : forall H ct fuel rules s node made s' o,
  vtransform H ct fuel rules s node made = Ok s' o -> run H ct s (vtrace H ct fuel rules s node made) = s'.
Proof. exact vtransform_is_history. Qed.
Theorem C18_inv_step_visitor_partial : forall H ct s a rules s' o made,
  Inv2 H ct s -> step H ct s (OVisitor a rules) = (s', ROut o made) ->
  guarded H ct s (vtrace H ct (fuel_of s) rules s a []) -> Inv2 H ct s'.
Proof. exact inv2_step_visitor. Qed.
Example C18_inv_step_visitor_example :
  Inv2 Hid ct0 z_s2 /\ step Hid ct0 z_s2 u_o = (u_s4, ROut (Some 5) []) /\
  vtrace Hid ct0 (fuel_of z_s2) u_rules z_s2 1 [] = [u_c1; u_c2; u_c3; u_c4] /\
  guarded Hid ct0 z_s2 (vtrace Hid ct0 (fuel_of z_s2) u_rules z_s2 1 []) /\
  detached u_s4 1 = true /\ detached u_s4 0 = true /\ detached u_s4 5 = false /\ parent u_s4 4 = Some 5 /\
  id_of u_s4 5 = id_of z_s2 1 /\ c_cid (cellD u_s4 5) <> c_cid (cellD z_s2 1) /\ Inv2 Hid ct0 u_s4.
Proof. exact u_example_visitor. Qed.
