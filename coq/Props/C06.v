(* C06 - Tree answers upward queries consistently with the downward structure.
   ONLY statements; proofs are `exact <lemma of Proofs/TreeQProofs.v>`.
   Vocabulary (Spec/PathSem.v, Spec/TraverseSpec.v): [path root l x] = following the stored child positions l from
   root reaches x; [plast l] = the position x is stored at (None for the root); [ups l] = x's ancestors, nearest first;
   [nodup_tree root] = no node object (address) occurs twice in the tree; [is_tree root t] = t holds the tables that
   Tree(root) builds (C06_build: tree_build returns such a t, in particular its dfs never runs out of fuel). *)
From Oak Require Import Spec.PathSem Proofs.TraverseProofs Proofs.TreeQProofs.

Theorem C06_build : forall ct root, wf_node ct root = true -> nodup_tree root ->
  exists t, tree_build ct root = Some t /\ is_tree root t.
Proof. exact build_ok. Qed.

(* is_in_tree holds exactly for the root and its descendants *)
Theorem C06_in_tree : forall root t, is_tree root t -> forall x,
  is_in_tree t x = true <-> exists l y, path root l y /\ addr y = addr x.
Proof. exact in_tree_iff. Qed.
Theorem C06_is_root : forall root t, is_tree root t -> forall x, is_root t x = true <-> addr x = addr root.
Proof. exact is_root_iff. Qed.

(* get_parent / get_parent_info: the node, field and index under which the node is stored; None for the root *)
Theorem C06_parent_info : forall root, nodup_tree root -> forall t, is_tree root t -> forall l x,
  path root l x -> get_parent_info t x = Ok (plast l).
Proof. exact parent_info_path. Qed.
Theorem C06_parent : forall root, nodup_tree root -> forall t, is_tree root t -> forall l x,
  path root l x -> get_parent t x = Ok (option_map ti_parent (plast l)).
Proof. exact parent_path. Qed.

(* get_ancestors is the parent chain up to the root (and terminates: fuel = size of the root suffices) *)
Theorem C06_ancestors_chain : forall root, nodup_tree root -> forall t, is_tree root t -> forall l x,
  path root l x -> get_ancestors t x = Some (Ok (ups l)).
Proof. exact ancestors_path. Qed.
Theorem C06_is_ancestor : forall root, nodup_tree root -> forall t, is_tree root t -> forall l x a,
  path root l x -> is_ancestor t x a = Some (Ok (existsb (same a) (ups l))).
Proof. exact is_ancestor_path. Qed.
Theorem C06_first_ancestor_of_type : forall ct root, nodup_tree root -> forall t, is_tree root t -> forall l x cs exact_type,
  path root l x ->
  get_first_ancestor_of_type ct t x cs exact_type = Some (Ok (List.find (class_test ct cs exact_type) (ups l))).
Proof. exact first_ancestor_path. Qed.

(* get_depth: absolute = length of the path; relative to an ancestor r = length of the path from r;
   both recursions terminate (C06_depth_fuel is part of the statements: the result is Some _) *)
Theorem C06_depth_abs : forall root, nodup_tree root -> forall t, is_tree root t -> forall l x chk,
  path root l x -> depth t x None chk = Some (Ok (length l)).
Proof. exact depth_abs. Qed.
Theorem C06_depth_rel : forall root, nodup_tree root -> forall t, is_tree root t -> forall l1 r,
  path root l1 r -> forall l2 x chk, path r l2 x -> l2 <> [] -> depth t x (Some r) chk = Some (Ok (length l2)).
Proof. exact depth_rel. Qed.
Theorem C06_rel_nonancestor_valueerror : forall root, nodup_tree root -> forall t, is_tree root t -> forall l x r,
  path root l x -> existsb (same r) (ups l) = false -> depth t x (Some r) true = Some ValueError.
Proof. exact depth_nonancestor. Qed.

(* every query about a node outside the tree raises KeyError (is_in_tree / is_root answer False) *)
Theorem C06_foreign_keyerror : forall ct root t, is_tree root t -> forall x cs ex rel chk,
  foreign root x ->
  is_in_tree t x = false /\ is_root t x = false /\ get_xpath t x = KeyError /\ get_parent t x = KeyError
  /\ get_parent_info t x = KeyError /\ get_ancestors t x = Some KeyError /\ is_ancestor t x rel = Some KeyError
  /\ get_first_ancestor_of_type ct t x cs ex = Some KeyError /\ depth t x None chk = Some KeyError
  /\ depth t x (Some rel) chk = Some KeyError.
Proof. exact foreign_keyerror. Qed.

(* get_xpath spells the field / index / class of every step of the path from the root, byte for byte *)
Theorem C06_xpath_spells : forall root, nodup_tree root -> forall t, is_tree root t -> forall l x,
  path root l x -> get_xpath t x = Ok (xpath_of root l).
Proof. exact xpath_path. Qed.
(* the path spelled is the node's own and no other node has it: paths are unique per node object.
   PARTIAL for "no two nodes share one [string]": what is proved is that the spelled step list determines the node;
   that the rendering steps -> string is injective for identifier field / class names (no '/', '@', '[', ']' inside
   names) is not proved here (the text -> steps direction is property C17's parser). *)
Theorem C06_xpath_injective_partial : forall root, nodup_tree root -> forall l1 x1 l2 x2,
  path root l1 x1 -> path root l2 x2 -> addr x1 = addr x2 -> l1 = l2 /\ x1 = x2.
Proof. exact path_unique. Qed.
Theorem C06_xpath_follow : forall root l x1 x2, path root l x1 -> path root l x2 -> x1 = x2.
Proof. exact path_functional. Qed.

(* the premises are inhabited by a tree with twins, and the queries compute there *)
Example C06_premises_inhabited :
  wf_node ex_ct ex_root = true /\ nodup_tree ex_root /\
  path ex_root [ {| ti_node := ex_p 2 (ex_leaf 3 "L") []; ti_parent := ex_root; ti_field := lit "child"; ti_index := None |};
                 {| ti_node := ex_leaf 3 "L"; ti_parent := ex_p 2 (ex_leaf 3 "L") []; ti_field := lit "child"; ti_index := None |} ]
       (ex_leaf 3 "L") /\
  foreign ex_root (ex_leaf 9 "L").
Proof. exact premises_inhabited. Qed.

(* ---------------------------------------------------------------------------------------------------------------
   "no two nodes share one [xpath]" at the level of the STRING (completes C06_xpath_injective_partial above).
   Vocabulary (Spec/XpathText.v): [name_ok s] = s contains none of the characters / @ [ ] ; [seg_ok ti] = the field
   name and the class name of a stored position are name_ok; [clean_names root] = every position on every path from
   the root is seg_ok (Python identifiers always are; the root's own class name is not constrained);
   [seg_key ti] = (field, printed index, class) = what one "/@field[index]Class" segment says. *)
From Oak Require Import Spec.XpathText Proofs.XpathInjProofs.

(* the rendering of step lists to the string is injective: equal strings have equal segments *)
Theorem C06_xpath_render_injective : forall root l1 l2, Forall seg_ok l1 -> Forall seg_ok l2 ->
  xpath_of root l1 = xpath_of root l2 -> map seg_key l1 = map seg_key l2.
Proof. exact xpath_render_injective. Qed.

(* get_xpath is injective on the nodes of the tree: equal strings -> the same path, the same node object.
   `index or '0'` prints "[0]" both for a single child (index None) and for tuple element 0; they are never confused
   because, in a node that conforms to its class table (wf_node: its child fields are those the class declares, each
   name once, each holding either one node or a tuple), the field name already decides which of the two it is. *)
Theorem C06_xpath_injective : forall ct root, wf_node ct root = true -> nodup_tree root -> clean_names root ->
  forall t, is_tree root t -> forall l1 x1 l2 x2, path root l1 x1 -> path root l2 x2 ->
  get_xpath t x1 = get_xpath t x2 -> l1 = l2 /\ x1 = x2 /\ addr x1 = addr x2.
Proof. exact xpath_injective. Qed.

(* premises inhabited: the example tree is clean; its twins L3 and L4 get different strings *)
Example C06_xpath_injective_inhabited :
  wf_node ex_ct ex_root = true /\ nodup_tree ex_root /\ clean_names ex_root /\
  (exists t, tree_build ex_ct ex_root = Some t /\
     get_xpath t (ex_leaf 4 "L") = Ok (lit "/@root[0]P/@items[0]L") /\
     get_xpath t (ex_leaf 3 "L") = Ok (lit "/@root[0]P/@child[0]P/@child[0]L")).
Proof. exact xpath_inj_inhabited. Qed.

(* non-vacuity witnesses *)
(* the instance: ex_ct = L, M (subclass of L), P (a mandatory child, a tuple child);
   ex_root = P1(child = P2(child = L3, items = ()), items = (L4, M5, L6)); w6_t = the table Tree(ex_root) builds *)
From Oak Require Import Proofs.C06Witness.
(* C06_build *)
Theorem C06_ex_build : wf_node ex_ct ex_root = true /\ nodup_tree ex_root /\ size ex_root = 6
  /\ tree_build ex_ct ex_root = Some w6_t /\ length (t_xpath w6_t) = 6 /\ length (t_pinfo w6_t) = 5.
Proof. exact w6_build. Qed.
(* C06_in_tree, C06_is_root: is_tree holds of the built table; both answers occur *)
Theorem C06_ex_in_tree : is_tree ex_root w6_t
  /\ is_in_tree w6_t (ex_leaf 3 "L") = true /\ is_in_tree w6_t (ex_leaf 9 "L") = false
  /\ is_root w6_t ex_root = true /\ is_root w6_t (ex_leaf 3 "L") = false.
Proof. exact w6_in_tree. Qed.
(* C06_parent_info, C06_parent, C06_ancestors_chain, C06_is_ancestor, C06_first_ancestor_of_type, C06_depth_abs,
   C06_xpath_spells: a two-step path and a path through a tuple position, with the answers *)
Theorem C06_ex_upward : nodup_tree ex_root /\ is_tree ex_root w6_t
  /\ path ex_root [w6_ti2; w6_ti3] (ex_leaf 3 "L") /\ path ex_root [w6_ti5] (ex_leaf 5 "M")
  /\ get_parent_info w6_t (ex_leaf 3 "L") = Ok (Some w6_ti3)
  /\ get_parent w6_t (ex_leaf 5 "M") = Ok (Some ex_root)
  /\ get_ancestors w6_t (ex_leaf 3 "L") = Some (Ok [w6_p2; ex_root])
  /\ is_ancestor w6_t (ex_leaf 3 "L") w6_p2 = Some (Ok true)
  /\ is_ancestor w6_t (ex_leaf 3 "L") (ex_leaf 4 "L") = Some (Ok false)
  /\ get_first_ancestor_of_type ex_ct w6_t (ex_leaf 3 "L") [lit "P"] true = Some (Ok (Some w6_p2))
  /\ get_first_ancestor_of_type ex_ct w6_t (ex_leaf 3 "L") [lit "L"] false = Some (Ok None)
  /\ depth w6_t (ex_leaf 3 "L") None true = Some (Ok 2)
  /\ get_xpath w6_t (ex_leaf 5 "M") = Ok (lit "/@root[0]P/@items[1]M").
Proof. exact w6_upward. Qed.
(* C06_depth_rel: r = P2 inside the tree, a non-empty path below it *)
Theorem C06_ex_depth_rel : nodup_tree ex_root /\ is_tree ex_root w6_t
  /\ path ex_root [w6_ti2] w6_p2 /\ path w6_p2 [w6_ti3] (ex_leaf 3 "L") /\ [w6_ti3] <> []
  /\ depth w6_t (ex_leaf 3 "L") (Some w6_p2) true = Some (Ok 1)
  /\ depth w6_t (ex_leaf 3 "L") (Some w6_p2) false = Some (Ok 1).
Proof. exact w6_depth_rel. Qed.
(* C06_rel_nonancestor_valueerror: r = L4 is a node of the tree and not an ancestor of L3 *)
Theorem C06_ex_nonancestor : nodup_tree ex_root /\ is_tree ex_root w6_t
  /\ path ex_root [w6_ti2; w6_ti3] (ex_leaf 3 "L")
  /\ existsb (same (ex_leaf 4 "L")) (ups [w6_ti2; w6_ti3]) = false
  /\ is_in_tree w6_t (ex_leaf 4 "L") = true
  /\ depth w6_t (ex_leaf 3 "L") (Some (ex_leaf 4 "L")) true = Some ValueError.
Proof. exact w6_nonancestor. Qed.
(* C06_foreign_keyerror *)
Theorem C06_ex_foreign : is_tree ex_root w6_t /\ foreign ex_root (ex_leaf 9 "L")
  /\ get_xpath w6_t (ex_leaf 9 "L") = KeyError /\ get_ancestors w6_t (ex_leaf 9 "L") = Some KeyError.
Proof. exact w6_foreign_ok. Qed.
(* C06_xpath_injective_partial, C06_xpath_follow, C06_xpath_injective: their premises (two paths to one object / with
   one string) are, by their conclusions, only met by twice the same path; the contrapositive is what is used: the
   different paths to the twins L3 and L6 lead to different objects and different strings *)
Theorem C06_ex_injective : wf_node ex_ct ex_root = true /\ nodup_tree ex_root /\ clean_names ex_root /\ is_tree ex_root w6_t
  /\ path ex_root [w6_ti2; w6_ti3] (ex_leaf 3 "L") /\ path ex_root [w6_ti6] (ex_leaf 6 "L")
  /\ addr (ex_leaf 3 "L") = addr (ex_leaf 3 "L")
  /\ get_xpath w6_t (ex_leaf 3 "L") = get_xpath w6_t (ex_leaf 3 "L")
  /\ addr (ex_leaf 3 "L") <> addr (ex_leaf 6 "L")
  /\ get_xpath w6_t (ex_leaf 3 "L") <> get_xpath w6_t (ex_leaf 6 "L")
  /\ ex_leaf 3 "L" <> ex_leaf 6 "L".
Proof. exact w6_injective. Qed.
(* C06_xpath_render_injective: two different step lists (other objects, other parents, index None against 0), both
   seg_ok, spelled alike *)
Theorem C06_ex_render : Forall seg_ok w6_l1 /\ Forall seg_ok w6_l2 /\ xpath_of ex_root w6_l1 = xpath_of ex_root w6_l2
  /\ w6_l1 <> w6_l2 /\ xpath_of ex_root w6_l1 = lit "/@root[0]P/@child[0]P/@items[0]L".
Proof. exact w6_render. Qed.
