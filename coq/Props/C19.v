(* C19 - A rejected legacy operation changes nothing.
   ONLY statements; proofs are `exact <lemma of Proofs/LegacyProofs.v>`.

   STATUS: NOT a proof of the property: pyoak's deprecated legacy code violates C19 through several rollback paths
   (witnesses below).  Proved: the frame for the rejections that are decided before anything is mutated
   (forbidden replace keys; the three pre-checks of replace_with; duplicate children and ASTNodeIDCollisionError
   of the constructor), each stated from the CAUSE of the rejection, hence `_partial`: no frame is claimed for
   rejections raised while attaching (constructor, attach, replace, replace_with, the transformations). *)
From Oak Require Import Spec.LegacySpec Proofs.LegacyProofs Proofs.LegacyInv.
From Coq Require Import List String Ascii ZArith Bool Arith.
Import ListNotations.

(* from the error the caller SEES: a constructor that raises duplicate-children or id-collision, and a replace()
   that raises ASTNodeReplaceError, changed nothing (these errors cannot come from the later, mutating phases) *)
Theorem C19_reject_frame_new : forall H ct s cls org fs idarg eu ad cd s' e,
  step H ct s (ONew cls org fs idarg eu ad cd) = (s', RErr e) -> e = EDup \/ e = EIdc -> Frame s s'.
Proof. exact frame_new_rejected. Qed.
Theorem C19_reject_frame_replace_keys : forall H ct s a ch s',
  step H ct s (OReplace a ch) = (s', RErr ERep) -> Frame s s'.
Proof. exact frame_replace_rejected_keys. Qed.

(* from the cause of the rejection *)
Theorem C19_reject_frame_replace_keys_partial : forall H ct s a ch,
  forallb (fun kv => allowed_key ct (c_cls (cellD s a)) (fst kv)) ch = false ->
  step H ct s (OReplace a ch) = (s, RErr ERep) /\ Frame s s.
Proof. exact frame_replace_keys. Qed.
Theorem C19_reject_frame_replace_with_parent_partial : forall H ct s a n,
  is_attached_subtree s n = true ->
  step H ct s (OReplaceWith a (Some n)) = (s, RErr ERw) /\ Frame s s.
Proof. exact frame_replace_with_parent. Qed.
Theorem C19_reject_frame_replace_with_none_partial : forall H ct s a p f d,
  parent s a = Some p -> c_pf (cellD s a) = Some f ->
  fdecl_of ct (c_cls (cellD s p)) f = Some d -> fd_kind d = KReq ->
  step H ct s (OReplaceWith a None) = (s, RErr ERw) /\ Frame s s.
Proof. exact frame_replace_with_none. Qed.
Theorem C19_reject_frame_replace_with_type_partial : forall H ct s a n p f d,
  is_attached_subtree s n = false ->
  parent s a = Some p -> c_pf (cellD s a) = Some f ->
  fdecl_of ct (c_cls (cellD s p)) f = Some d ->
  (forall b, fd_kind d <> KProp b) ->
  existsb (pystr_eqb (c_cls (cellD s n))) (fd_types d) = false ->
  step H ct s (OReplaceWith a (Some n)) = (s, RErr ERw) /\ Frame s s.
Proof. exact frame_replace_with_type. Qed.
Theorem C19_reject_frame_constructor_dup_children_partial : forall H ct s cls org fs idarg e d cd,
  has_dup_id (push s (init_cell cls org fs idarg)) [] (kids (init_cell cls org fs idarg)) = true ->
  step H ct s (ONew cls org fs idarg e d cd) = (push s (init_cell cls org fs idarg), RErr EDup)
  /\ Frame s (push s (init_cell cls org fs idarg)).
Proof. exact frame_constructor_dup_children. Qed.
Theorem C19_reject_frame_constructor_id_collision_partial : forall H ct s cls org fs idarg x,
  has_dup_id (push s (init_cell cls org fs idarg)) [] (kids (init_cell cls org fs idarg)) = false ->
  reg_get (push s (init_cell cls org fs idarg))
          (if pystr_eqb (c_id (init_cell cls org fs idarg)) UNSET
           then H (id_data (push s (init_cell cls org fs idarg)) (List.length (heap s)))
           else c_id (init_cell cls org fs idarg)) = Some x ->
  step H ct s (ONew cls org fs idarg true false false) = (push s (init_cell cls org fs idarg), RErr EIdc)
  /\ Frame s (push s (init_cell cls org fs idarg)).
Proof. exact frame_constructor_id_collision. Qed.

(* premises inhabited: each rejection on a small state *)
Example C19_frame_examples :
  exists s, run_ok empty_st [leaf "a"; leaf "b"; inner (Some 0) None []] = Some s /\
    snd (step Hid ct0 s (OReplace 2 [(lit "id", CBad)])) = RErr ERep /\
    snd (step Hid ct0 s (OReplaceWith 1 (Some 0))) = RErr ERw /\
    snd (step Hid ct0 s (OReplaceWith 0 None)) = RErr ERw /\
    snd (step Hid ct0 s (inner (Some 1) None [1])) = RErr EDup /\
    snd (step Hid ct0 s (ONew (lit "Lf") (lit "o") [(lit "v", FP (LS (lit "a")))] None true false false)) = RErr EIdc.
Proof. eexists. repeat split; vm_compute; reflexivity. Qed.
Example C19_frame_type_example :
  exists s, run_ok empty_st [leaf "a"; leaf "b"; inner (Some 0) (Some 1) []; inner (Some 2) None []] = Some s /\
            snd (step Hid ct0 s (OReplaceWith 1 (Some 3))) = RErr ERw.
Proof. eexists. repeat split; vm_compute; reflexivity. Qed.

(* the rollback paths that do not roll back *)
Theorem C19_refuted_replace_dup_children :
  exists s s', run_ok empty_st h_L1 = Some s /\ step Hid ct0 s o_L1 = (s', RErr EDup) /\ ~ Frame s s'.
Proof. exact refuted_replace_dup_children. Qed.
Theorem C19_refuted_replace_dup_children_then_detach :
  exists s s', run_ok empty_st h_L1 = Some s /\ fst (step Hid ct0 s o_L1) = s' /\
               snd (step Hid ct0 s' (ODetach 0)) = RBool true /\
               detached (fst (step Hid ct0 s' (ODetach 0))) 0 = true /\
               In 0 (skids (fst (step Hid ct0 s' (ODetach 0))) 2) /\
               detached (fst (step Hid ct0 s' (ODetach 0))) 2 = false.
Proof. exact refuted_replace_dup_children_then_detach. Qed.
Theorem C19_refuted_constructor_parent_collision :
  exists s s', run_ok empty_st h_L2 = Some s /\ step Hid ct0 s o_L2 = (s', RErr EPar) /\ ~ Frame s s'.
Proof. exact refuted_constructor_parent_collision. Qed.
Theorem C19_refuted_replace_with_ids_not_restored :
  exists s s', run_ok empty_st h_L3 = Some s /\ step Hid ct0 s o_L3 = (s', RErr ERw) /\ ~ Frame s s'.
Proof. exact refuted_replace_with_ids_not_restored. Qed.
Theorem C19_refuted_replace_with_evicts_twin :
  exists s s', run_ok empty_st h_L4 = Some s /\ step Hid ct0 s o_L4 = (s', RErr ERw) /\ ~ Frame s s'.
Proof. exact refuted_replace_with_evicts_twin. Qed.
Theorem C19_refuted_attach_partial :
  exists s s', run_ok empty_st h_L5 = Some s /\ step Hid ct0 s o_L5 = (s', RErr EReg) /\ ~ Frame s s'.
Proof. exact refuted_attach_partial. Qed.
