(* C19 - A rejected legacy operation changes nothing.
   ONLY statements; proofs are `exact <lemma of Proofs/Legacy*.v>`.

   STATUS: NOT a proof of the property: pyoak's deprecated legacy code violates C19 through several rollback paths
   (witnesses below).  Proved, round 1: the frame for the rejections that are decided before anything is mutated
   (forbidden replace keys; the three pre-checks of replace_with; duplicate children and ASTNodeIDCollisionError
   of the constructor), from the error the caller sees where the error kind identifies the phase, otherwise from
   the CAUSE of the rejection (`_partial`).  Round 2 (end of this file): attach() rejected on the leftmost path
   (at the receiver or at the first child, recursively: nothing was attached yet) changes nothing; a rejected
   attach() or constructor, WHEREVER it fails, keeps the content part of the frame (fields, id, original_id,
   content_id of every pre-existing node: only links and registry can be left changed - which is what the open
   findings are about); replace_with(None) raising ASTNodeReplaceWithError changed nothing (from the error seen);
   detach()/detach_self() raise no documented error at all.  No frame is claimed for the link / registry part of
   rejections raised while attaching at a later child (constructor, attach, replace, replace_with, the
   transformations): that is where the code is wrong. *)
From Oak Require Import Spec.LegacySpec Proofs.LegacyProofs Proofs.LegacyInv.
From Coq Require Import List String Ascii ZArith Bool Arith.
Import ListNotations.

(* from the error the caller SEES: a constructor that raises duplicate-children or id-collision, and a replace()
   that raises ASTNodeReplaceError, changed nothing (these errors cannot come from the later, mutating phases) *)
Theorem C19_reject_frame_new : forall H ct s cls org fs idarg eu ad cd s' e,
  step H ct s (ONew cls org fs idarg eu ad cd) = (s', RErr e) -> e = EDup \/ e = EIdc -> Frame s s'.
Proof. exact frame_new_rejected. Qed.
Theorem C19_reject_frame_replace_keys : forall H ct s a ch s',
  step H ct s (OReplace a ch) = (s', RErr ERep) -> Frame s s'.
Proof. exact frame_replace_rejected_keys. Qed.

(* from the cause of the rejection *)
Theorem C19_reject_frame_replace_keys_partial : forall H ct s a ch,
  forallb (fun kv => allowed_key ct (c_cls (cellD s a)) (fst kv)) ch = false ->
  step H ct s (OReplace a ch) = (s, RErr ERep) /\ Frame s s.
Proof. exact frame_replace_keys. Qed.
Theorem C19_reject_frame_replace_with_parent_partial : forall H ct s a n,
  is_attached_subtree s n = true ->
  step H ct s (OReplaceWith a (Some n)) = (s, RErr ERw) /\ Frame s s.
Proof. exact frame_replace_with_parent. Qed.
Theorem C19_reject_frame_replace_with_none_partial : forall H ct s a p f d,
  parent s a = Some p -> c_pf (cellD s a) = Some f ->
  fdecl_of ct (c_cls (cellD s p)) f = Some d -> fd_kind d = KReq ->
  step H ct s (OReplaceWith a None) = (s, RErr ERw) /\ Frame s s.
Proof. exact frame_replace_with_none. Qed.
Theorem C19_reject_frame_replace_with_type_partial : forall H ct s a n p f d,
  is_attached_subtree s n = false ->
  parent s a = Some p -> c_pf (cellD s a) = Some f ->
  fdecl_of ct (c_cls (cellD s p)) f = Some d ->
  (forall b, fd_kind d <> KProp b) ->
  existsb (pystr_eqb (c_cls (cellD s n))) (fd_types d) = false ->
  step H ct s (OReplaceWith a (Some n)) = (s, RErr ERw) /\ Frame s s.
Proof. exact frame_replace_with_type. Qed.
Theorem C19_reject_frame_constructor_dup_children_partial : forall H ct s cls org fs idarg e d cd,
  has_dup_id (push s (init_cell cls org fs idarg)) [] (kids (init_cell cls org fs idarg)) = true ->
  step H ct s (ONew cls org fs idarg e d cd) = (push s (init_cell cls org fs idarg), RErr EDup)
  /\ Frame s (push s (init_cell cls org fs idarg)).
Proof. exact frame_constructor_dup_children. Qed.
Theorem C19_reject_frame_constructor_id_collision_partial : forall H ct s cls org fs idarg x,
  has_dup_id (push s (init_cell cls org fs idarg)) [] (kids (init_cell cls org fs idarg)) = false ->
  reg_get (push s (init_cell cls org fs idarg))
          (if pystr_eqb (c_id (init_cell cls org fs idarg)) UNSET
           then H (id_data (push s (init_cell cls org fs idarg)) (List.length (heap s)))
           else c_id (init_cell cls org fs idarg)) = Some x ->
  step H ct s (ONew cls org fs idarg true false false) = (push s (init_cell cls org fs idarg), RErr EIdc)
  /\ Frame s (push s (init_cell cls org fs idarg)).
Proof. exact frame_constructor_id_collision. Qed.

(* premises inhabited: each rejection on a small state *)
Example C19_frame_examples :
  exists s, run_ok empty_st [leaf "a"; leaf "b"; inner (Some 0) None []] = Some s /\
    snd (step Hid ct0 s (OReplace 2 [(lit "id", CBad)])) = RErr ERep /\
    snd (step Hid ct0 s (OReplaceWith 1 (Some 0))) = RErr ERw /\
    snd (step Hid ct0 s (OReplaceWith 0 None)) = RErr ERw /\
    snd (step Hid ct0 s (inner (Some 1) None [1])) = RErr EDup /\
    snd (step Hid ct0 s (ONew (lit "Lf") (lit "o") [(lit "v", FP (LS (lit "a")))] None true false false)) = RErr EIdc.
Proof. eexists. repeat split; vm_compute; reflexivity. Qed.
Example C19_frame_type_example :
  exists s, run_ok empty_st [leaf "a"; leaf "b"; inner (Some 0) (Some 1) []; inner (Some 2) None []] = Some s /\
            snd (step Hid ct0 s (OReplaceWith 1 (Some 3))) = RErr ERw.
Proof. eexists. repeat split; vm_compute; reflexivity. Qed.

(* the rollback paths that do not roll back *)
Theorem C19_refuted_replace_dup_children :
  exists s s', run_ok empty_st h_L1 = Some s /\ step Hid ct0 s o_L1 = (s', RErr EDup) /\ ~ Frame s s'.
Proof. exact refuted_replace_dup_children. Qed.
Theorem C19_refuted_replace_dup_children_then_detach :
  exists s s', run_ok empty_st h_L1 = Some s /\ fst (step Hid ct0 s o_L1) = s' /\
               snd (step Hid ct0 s' (ODetach 0)) = RBool true /\
               detached (fst (step Hid ct0 s' (ODetach 0))) 0 = true /\
               In 0 (skids (fst (step Hid ct0 s' (ODetach 0))) 2) /\
               detached (fst (step Hid ct0 s' (ODetach 0))) 2 = false.
Proof. exact refuted_replace_dup_children_then_detach. Qed.
Theorem C19_refuted_constructor_parent_collision :
  exists s s', run_ok empty_st h_L2 = Some s /\ step Hid ct0 s o_L2 = (s', RErr EPar) /\ ~ Frame s s'.
Proof. exact refuted_constructor_parent_collision. Qed.
Theorem C19_refuted_replace_with_ids_not_restored :
  exists s s', run_ok empty_st h_L3 = Some s /\ step Hid ct0 s o_L3 = (s', RErr ERw) /\ ~ Frame s s'.
Proof. exact refuted_replace_with_ids_not_restored. Qed.
Theorem C19_refuted_replace_with_evicts_twin :
  exists s s', run_ok empty_st h_L4 = Some s /\ step Hid ct0 s o_L4 = (s', RErr ERw) /\ ~ Frame s s'.
Proof. exact refuted_replace_with_evicts_twin. Qed.
Theorem C19_refuted_attach_partial :
  exists s s', run_ok empty_st h_L5 = Some s /\ step Hid ct0 s o_L5 = (s', RErr EReg) /\ ~ Frame s s'.
Proof. exact refuted_attach_partial. Qed.

(* ====================================================================================================== *)
(* Round 2                                                                                                  *)
(* ====================================================================================================== *)
From Oak Require Import Spec.LegacySpec2 Proofs.LegacyFrames2 Proofs.LegacyExamples2.

(* attach() rejected before anything was attached: the collision is met at the receiver, or at the first child
   (recursively: first_reject, Proofs/LegacyFrames2.v).  The call raises a documented error and the state is
   unchanged.  From the cause: the error kinds of an attach() rejected at a LATER child are the same, and that case is
   refuted (C19_refuted_attach_partial).  (Rank = well-foundedness of the stored child relation since round 3: the
   statement covers more states than in round 2, where it was the address order.) *)
Theorem C19_reject_frame_attach_first_partial : forall H ct s a,
  Rank s -> live s a -> detached s a = true -> first_reject s a ->
  exists e, step H ct s (OAttach a) = (s, RErr e) /\ documented e = true /\ Frame s s.
Proof. exact frame_attach_first. Qed.
Example C19_reject_frame_attach_first_example :
  run_ok empty_st y_ops = Some y_s /\ Rank y_s /\ live y_s 1 /\ detached y_s 1 = true /\ first_reject y_s 1 /\
  step Hid ct0 y_s (OAttach 1) = (y_s, RErr EReg).
Proof. exact y_example_attach_first. Qed.

(* from the error the caller sees, wherever the rejection happens: a rejected attach() / constructor leaves the
   fields, id, original_id and content_id of every pre-existing node as they were (same_content).  The other half of
   the frame (attached?, position, registry keys) is exactly what the open findings C19:Attach:*:links and
   C19:New:*:links violate. *)
Theorem C19_reject_attach_content_partial : forall H ct s a s' e,
  step H ct s (OAttach a) = (s', RErr e) -> same_content s s'.
Proof. exact attach_rejected_content. Qed.
Theorem C19_reject_new_content_partial : forall H ct s cls org fs idarg eu ad cd s' e,
  step H ct s (ONew cls org fs idarg eu ad cd) = (s', RErr e) -> same_content s s'.
Proof. exact new_rejected_content. Qed.
(* premises inhabited by rejections that do leave partial effects (the round-1 witnesses) *)
Example C19_reject_content_example :
  (exists s s', run_ok empty_st h_L5 = Some s /\ step Hid ct0 s o_L5 = (s', RErr EReg) /\ ~ Frame s s') /\
  (exists s s', run_ok empty_st h_L2 = Some s /\ step Hid ct0 s o_L2 = (s', RErr EPar) /\ ~ Frame s s').
Proof. exact y_example_content. Qed.

(* from the error the caller sees: replace_with(None) that raises ASTNodeReplaceWithError changed nothing (with None
   there is nothing to attach, so the only source of that error is the optionality pre-check) *)
Theorem C19_reject_frame_replace_with_none : forall H ct s a s',
  step H ct s (OReplaceWith a None) = (s', RErr ERw) -> Frame s s'.
Proof. exact frame_replace_with_none_rejected. Qed.
Example C19_reject_frame_replace_with_none_example :
  exists s, run_ok empty_st [leaf "a"; leaf "b"; inner (Some 0) None []]%string = Some s /\
            step Hid ct0 s (OReplaceWith 0 None) = (s, RErr ERw).
Proof. exact y_example_replace_with_none. Qed.

(* detach() and detach_self() raise no documented error: C19 asks nothing of them *)
Theorem C19_detach_raises_no_documented_error : forall H ct s a s' e,
  documented e = true ->
  step H ct s (ODetach a) <> (s', RErr e) /\ step H ct s (ODetachSelf a) <> (s', RErr e).
Proof. exact detach_no_documented_error. Qed.
Example C19_detach_example :
  exists s, run_ok empty_st [leaf "a"; inner (Some 0) None []]%string = Some s /\
            snd (step Hid ct0 s (ODetach 1)) = RBool true /\ snd (step Hid ct0 s (ODetachSelf 1)) = RBool true /\
            documented ERep = true.
Proof. exact y_example_detach. Qed.
