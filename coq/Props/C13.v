(* C13 - Runtime type checking accepts exactly the well-typed constructions.
   ONLY statements; proofs are `exact <lemma of Proofs/IsInstanceProofs.v>`.
   Model: Model/IsInstance.v (is_instance e v_nti fixed12 t v; fixed12 = true is the code in /repo, v_nti = true the
   repair of finding D21 - a NewType below the outermost one stands for its supertype; v_nti = false the code as it is).
   Spec: Spec/AnnotSpec.v (conforms).  adm vni t: t has no unresolved string, no list/dict/set, Python's container
   arities, and (unless vni) no NewType - what get_field_types hands to is_instance for an accepted field. *)
From Oak Require Import Model.IsInstance Spec.AnnotSpec Proofs.ClassifyProofs Proofs.IsInstanceProofs.

(* is_instance decides conformance: every annotation term of the accepted grammar (any depth), every value *)
Theorem C13_iff : forall e t, adm true t = true -> forall v, is_instance e true true t v = conforms e t v.
Proof. exact (fun e => is_instance_conforms e true). Qed.
(* the same for the code as it is, on annotations without a NewType below the top (get_field_types unwraps the top one) *)
Theorem C13_iff_code_partial : forall e t, adm false t = true -> forall v, is_instance e false true t v = conforms e t v.
Proof. exact (fun e => is_instance_conforms e false). Qed.
(* invalid_fields are exactly the non-conforming fields *)
Theorem C13_invalid_fields_exact : forall e vni fs, forallb (fadm vni) fs = true ->
  check_fields e vni true fs = nonconforming e fs.
Proof. exact check_fields_exact. Qed.
(* switch on: built iff every field (init or not: all fields of get_cls_all_fields are visited) conforms, otherwise
   InvalidTypes naming exactly the non-conforming fields *)
Theorem C13_construct_on : forall e vni fs, forallb (fadm vni) fs = true ->
  match construct e vni true true fs with
  | Built _ => forall x, In x fs -> conforms e (snd (fst x)) (snd x) = true
  | RaisedInvalidTypes bad =>
      bad <> [] /\ forall n, In n bad <-> exists x, In x fs /\ fst (fst x) = n /\ conforms e (snd (fst x)) (snd x) = false
  end.
Proof. exact construct_on_spec. Qed.
(* switch off: no validation at all, and the node is the one the checked construction builds *)
Theorem C13_switch_off_never_validates : forall e vni fs, exists n, construct e vni true false fs = Built n.
Proof. exact switch_off_never_validates. Qed.
Theorem C13_switch_off_same_node : forall e vni fs n,
  construct e vni true true fs = Built n -> construct e vni true false fs = Built n.
Proof. exact switch_off_same_node. Qed.

(* D12 (repaired in /repo), refuted against the pre-repair statements (fixed12 = false) *)
Theorem C13_refuted_false : is_instance [] true false (TScalar SBool) (XBool false) = false
                            /\ conforms [] (TScalar SBool) (XBool false) = true.
Proof. exact refuted_false. Qed.
Theorem C13_refuted_bool_in_union : is_instance [] true false (TUnion [TScalar SInt; TNoneT]) (XBool true) = true
                                    /\ conforms [] (TUnion [TScalar SInt; TNoneT]) (XBool true) = false.
Proof. exact refuted_bool_in_union. Qed.
(* D21 (open): the code as it is rejects (1,) for tuple[NewType("N", int), ...] *)
Theorem C13_refuted_nested_newtype : is_instance [] false true wit_d21 (XTuple [XInt 1]) = false
                                     /\ conforms [] wit_d21 (XTuple [XInt 1]) = true.
Proof. exact refuted_nested_newtype_value. Qed.

(* the premises are inhabited by non-trivial values *)
Definition ex_env : henv := [(lit "B", [lit "A"])].
Definition ex_ty : ty :=
  TUnion [TTuple [TNode (lit "A"); TUnion [TScalar SInt; TNoneT]]; TTupleVar (TNewType (TLiteral [XInt 1; XStr (lit "a")]));
          TGen CSequence [TScalar SFloat]].
Example ex_adm : adm true ex_ty = true. Proof. reflexivity. Qed.
Example ex_conf : conforms ex_env ex_ty (XTuple [XNode (lit "B"); XNone]) = true
                  /\ conforms ex_env ex_ty (XTuple [XNode (lit "B"); XBool true]) = false
                  /\ conforms ex_env ex_ty (XTuple [XStr (lit "a"); XInt 1]) = true
                  /\ conforms ex_env ex_ty (XList [XInt 2; XFloat (lit "0.5")]) = true.
Proof. vm_compute. repeat split; reflexivity. Qed.
Definition ex_fields : list (pystr * ty * val) :=
  [(lit "f0", TScalar SBool, XBool false); (lit "f1", TScalar SInt, XBool true); (lit "f2", TTupleVar (TNode (lit "A")), XTuple [XNode (lit "B")]);
   (lit "f3", TTuple [TScalar SInt; TScalar SStr], XTuple [XInt 1; XStr (lit "a"); XInt 2])].
Example ex_fadm : forallb (fadm false) ex_fields = true. Proof. reflexivity. Qed.
Example ex_construct : construct ex_env false true true ex_fields = RaisedInvalidTypes [lit "f1"; lit "f3"]
                       /\ exists n, construct ex_env false true true (firstn 1 ex_fields) = Built n.
Proof. split; [vm_compute; reflexivity | eexists; vm_compute; reflexivity]. Qed.
