(* C15 - Origin algebra: interval laws, hull merging, flat multi-origins, exact slices.
   ONLY statements; every proof is `exact <lemma of Proofs/OriginProofs.v>`. *)
From Oak Require Import Model.Origin Proofs.OriginProofs.
Local Open Scope Z_scope.

(* ill-formed points and ranges are rejected at construction, well-formed ones accepted *)
Theorem C15_point_guard : forall i l c,
  (exists p, mk_point i l c = Some p /\ p_idx p = i /\ p_line p = l /\ p_col p = c) <-> (0 <= i /\ 1 <= l /\ 0 <= c).
Proof. exact mk_point_guard. Qed.
Theorem C15_point_reject : forall i l c, mk_point i l c = None <-> (i < 0 \/ l < 1 \/ c < 0).
Proof. exact mk_point_reject. Qed.
Theorem C15_range_reject : forall s e, mk_range s e = None <-> p_idx e < p_idx s.
Proof. exact mk_range_reject. Qed.
Theorem C15_range_wf : forall s e r, wf_point s -> wf_point e -> mk_range s e = Some r -> wf_range r.
Proof. exact mk_range_wf. Qed.

(* containment is a partial order on index intervals *)
Theorem C15_contains_refl : forall a, contains a a = true.
Proof. exact contains_refl. Qed.
Theorem C15_contains_trans : forall a b c, contains a b = true -> contains b c = true -> contains a c = true.
Proof. exact contains_trans. Qed.
Theorem C15_contains_antisym : forall a b, contains a b = true -> contains b a = true ->
  p_idx (r_start a) = p_idx (r_start b) /\ p_idx (r_end a) = p_idx (r_end b).
Proof. exact contains_antisym. Qed.
Theorem C15_contains_spec : forall a b, contains a b = true <->
  p_idx (r_start a) <= p_idx (r_start b) /\ p_idx (r_end b) <= p_idx (r_end a).
Proof. exact contains_spec. Qed.

(* overlap is symmetric and includes touching ranges *)
Theorem C15_overlaps_sym : forall a b, overlaps a b = overlaps b a.
Proof. exact overlaps_sym. Qed.
Theorem C15_overlaps_touching : forall a b, wf_range a -> wf_range b ->
  p_idx (r_end a) = p_idx (r_start b) -> overlaps a b = true.
Proof. exact overlaps_touching. Qed.
Theorem C15_overlaps_spec : forall a b, overlaps a b = true <->
  p_idx (r_start b) <= p_idx (r_end a) /\ p_idx (r_start a) <= p_idx (r_end b).
Proof. exact overlaps_spec. Qed.

(* a < b means a ends before b starts *)
Theorem C15_lt_def : forall a b, r_lt a b = true <-> p_idx (r_end a) < p_idx (r_start b).
Proof. exact r_lt_spec. Qed.
Theorem C15_lt_disjoint : forall a b, wf_range a -> wf_range b -> r_lt a b = true -> overlaps a b = false.
Proof. exact r_lt_disjoint. Qed.

(* the hull always exists for well-formed operands, contains both, is the least such range *)
Theorem C15_hull_total : forall a b, wf_range a -> wf_range b ->
  exists h, hull a b = Some h /\ wf_range h
    /\ p_idx (r_start h) = Z.min (p_idx (r_start a)) (p_idx (r_start b))
    /\ p_idx (r_end h) = Z.max (p_idx (r_end a)) (p_idx (r_end b)).
Proof. exact hull_total. Qed.
Theorem C15_hull_contains : forall a b h, wf_range a -> wf_range b -> hull a b = Some h ->
  contains h a = true /\ contains h b = true.
Proof. exact hull_contains. Qed.
Theorem C15_hull_least : forall a b h c, wf_range a -> wf_range b -> hull a b = Some h ->
  contains c a = true -> contains c b = true -> contains c h = true.
Proof. exact hull_least. Qed.

(* commutative, associative, idempotent: on indices unconditionally ... *)
Theorem C15_hull_comm_idx : forall a b h1 h2, wf_range a -> wf_range b ->
  hull a b = Some h1 -> hull b a = Some h2 -> idx_eq h1 h2.
Proof. exact hull_comm_idx. Qed.
Theorem C15_hull_assoc_idx : forall a b c ab bc l r, wf_range a -> wf_range b -> wf_range c ->
  hull a b = Some ab -> hull b c = Some bc -> hull ab c = Some l -> hull a bc = Some r -> idx_eq l r.
Proof. exact hull_assoc_idx. Qed.
Theorem C15_hull_idem : forall a, wf_range a -> hull a a = Some a.
Proof. exact hull_idem. Qed.
(* ... and under dataclass equality for consistent points (equal index => equal point) *)
Theorem C15_hull_comm : forall a b,
  consistent [r_start a; r_end a; r_start b; r_end b] -> hull a b = hull b a.
Proof. exact hull_comm. Qed.
Theorem C15_hull_assoc : forall a b c ab bc, wf_range a -> wf_range b -> wf_range c ->
  consistent [r_start a; r_start b; r_start c] -> consistent [r_end a; r_end b; r_end c] ->
  hull a b = Some ab -> hull b c = Some bc -> hull ab c = hull a bc.
Proof. exact hull_assoc. Qed.

(* code origins of one source that overlap or touch add to one code origin over the hull,
   whose get_raw is exactly that slice *)
Theorem C15_add_code_hull : forall sa ra sb rb a b,
  code_pos a = Some (sa, ra) -> code_pos b = Some (sb, rb) ->
  wf_range ra -> wf_range rb -> source_eqb sa sb = true -> overlaps ra rb = true ->
  exists h, hull ra rb = Some h /\ add a b = Some (OCode sa h)
    /\ contains h ra = true /\ contains h rb = true
    /\ get_raw (OCode sa h) =
       match source_raw sa with
       | Some t => RStr (slice t (Z.min (p_idx (r_start ra)) (p_idx (r_start rb)))
                                 (Z.max (p_idx (r_end ra)) (p_idx (r_end rb))))
       | None => RNone
       end.
Proof. exact add_code_hull. Qed.
Theorem C15_slice_exact : forall pre mid post a b,
  Z.of_nat (length pre) = a -> Z.of_nat (length mid) = b - a -> slice (pre ++ mid ++ post) a b = mid.
Proof. exact slice_spec. Qed.

(* every other addition is merge_origins of the two *)
Theorem C15_add_other : forall a b,
  (match code_pos a, code_pos b with
   | Some (sa, ra), Some (sb, rb) => source_eqb sa sb && overlaps ra rb = false
   | _, _ => True
   end) -> add a b = Some (merge [a; b]).
Proof. exact add_other. Qed.

(* merge: flat, in order, without NoOrigin; NoOrigin when nothing remains; the operand when one remains *)
Theorem C15_merge_flat : forall l, Forall flat l ->
  let r := merge l in
  flat r
  /\ (match l with [o] => r = o | _ =>
        match flat_map flatten1 l with
        | [] => r = ONo
        | [o] => r = o
        | ms => r = OMulti ms
        end end)
  /\ (match l with [_] => True | _ => members r = flat_map members l end).
Proof. exact merge_flat. Qed.
Theorem C15_merge_none : forall l, Forall (fun o => o = ONo) l -> merge l = ONo.
Proof. exact merge_none. Qed.

(* + never fails on well-formed flat operands and yields a flat origin; concat is its left fold *)
Theorem C15_add_total : forall a b, wf_origin a -> wf_origin b -> flat a -> flat b ->
  exists r, add a b = Some r /\ flat r.
Proof. exact add_total. Qed.
Theorem C15_concat_fold : forall o x l,
  concat o [] = Some o /\ concat o (x :: l) = match add o x with Some a => concat a l | None => None end.
Proof. intros; split; [exact (concat_nil o) | exact (concat_cons o x l)]. Qed.

(* source of a multi-origin: the common source, else a source set in operand order; fqn composes *)
Theorem C15_multi_source_common : forall s0 rest, all_same_source s0 rest = true -> multi_source (s0 :: rest) = s0.
Proof. exact multi_source_common. Qed.
Theorem C15_multi_source_set : forall s0 rest, all_same_source s0 rest = false -> multi_source (s0 :: rest) = SSet (s0 :: rest).
Proof. exact multi_source_set. Qed.
Theorem C15_fqn_multi : forall l, ofqn (OMulti l) =
  source_fqn (multi_source (map osource l)) ++ lit "::" ++ lit "PositionSet(" ++ join (lit "||") (map pos_fqn l) ++ lit ")".
Proof. exact ofqn_multi. Qed.
Theorem C15_fqn_simple : forall o, simple o = true -> ofqn o = source_fqn (osource o) ++ lit "::" ++ pos_fqn o.
Proof. exact ofqn_simple. Qed.

(* premises are inhabited *)
Example C15_nonvacuous :
  let a := {| r_start := {| p_idx := 2; p_line := 1; p_col := 2 |}; r_end := {| p_idx := 5; p_line := 2; p_col := 1 |} |} in
  let b := {| r_start := {| p_idx := 5; p_line := 2; p_col := 1 |}; r_end := {| p_idx := 9; p_line := 3; p_col := 0 |} |} in
  wf_range a /\ wf_range b /\ overlaps a b = true /\ consistent [r_start a; r_end a; r_start b; r_end b]
  /\ flat (OMulti [OGen SNo; OXml SNo (lit "x")]).
Proof.
  cbv zeta. unfold wf_range, wf_point, consistent; simpl. repeat split; try lia.
  intros p q Hp Hq. simpl in *.
  repeat match goal with H : _ \/ _ |- _ => destruct H end; subst; simpl; try tauto; try discriminate; try lia; auto.
Qed.

Print Assumptions C15_point_guard. Print Assumptions C15_point_reject. Print Assumptions C15_range_reject.
Print Assumptions C15_range_wf. Print Assumptions C15_contains_refl. Print Assumptions C15_contains_trans.
Print Assumptions C15_contains_antisym. Print Assumptions C15_contains_spec. Print Assumptions C15_overlaps_sym.
Print Assumptions C15_overlaps_touching. Print Assumptions C15_overlaps_spec. Print Assumptions C15_lt_def.
Print Assumptions C15_lt_disjoint. Print Assumptions C15_hull_total. Print Assumptions C15_hull_contains.
Print Assumptions C15_hull_least. Print Assumptions C15_hull_comm_idx. Print Assumptions C15_hull_assoc_idx.
Print Assumptions C15_hull_idem. Print Assumptions C15_hull_comm. Print Assumptions C15_hull_assoc.
Print Assumptions C15_add_code_hull. Print Assumptions C15_slice_exact. Print Assumptions C15_add_other.
Print Assumptions C15_merge_flat. Print Assumptions C15_merge_none. Print Assumptions C15_add_total.
Print Assumptions C15_concat_fold. Print Assumptions C15_multi_source_common. Print Assumptions C15_multi_source_set.
Print Assumptions C15_fqn_multi. Print Assumptions C15_fqn_simple.
