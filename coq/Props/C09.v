(* C09 - Visitor dispatch and transformation follow the rules and keep untouched parts.
   ONLY statements; proofs are `exact <lemma of Proofs/VisitorProofs.v>`.
   Vocabulary: Model/Visitor.v (dispatch, visit, transform: the transcription of node.accept and of
   ASTTransformVisitor), Spec/RewriteSpec.v (rewrite = the bottom-up rewrite on contents, changed, wf_tree,
   universe / coherent / below, and the field-by-field form gv_tr of generic_visit).
   [visit ct strict ms fuel n s = Some (s', r)]: the call visitor.visit(n) returned; s, s' carry the allocation
   counter (addresses >= next s are objects created by the call). Every statement holds for every fuel, in
   particular for transform (fuel = depth n). *)
From Oak Require Import Model.Visitor Spec.RewriteSpec Proofs.VisitorProofs.

(* accept(): strict -> the method of the node's own class or generic_visit; non-strict -> the first class of the
   MRO that has a method, generic_visit when none has *)
Theorem C09_dispatch : forall ct strict has c,
  (forall m, dispatch ct strict has c = Some m <->
     if strict then m = c /\ has c = true
     else exists pre post, mro ct c = pre ++ m :: post /\ has m = true /\ forall y, In y pre -> has y = false)
  /\ (dispatch ct strict has c = None <->
     if strict then has c = false else forall y, In y (mro ct c) -> has y = false).
Proof. exact dispatch_spec. Qed.
(* a method of the node's own class wins in both modes *)
Theorem C09_dispatch_own : forall ct strict has c, has c = true -> dispatch ct strict has c = Some c.
Proof. exact dispatch_own. Qed.
(* visit(n) first takes the accept() decision for n's class: it is the next entry of the call log *)
Theorem C09_visit_dispatches : forall ct strict ms fuel n s s' r,
  visit ct strict ms fuel n s = Some (s', r) ->
  exists l, rev (calls s') = rev (calls s) ++ (addr n, dispatch ct strict (has_method ms) (cls n)) :: l.
Proof. exact visit_dispatches. Qed.

(* transform terminates on every tree that conforms to its class table, for every rule set *)
Theorem C09_transform_total : forall ct strict ms n s,
  wf_tree ct n = true -> exists s' r, transform ct strict ms n s = Some (s', r).
Proof. exact transform_total. Qed.

(* the result is the bottom-up rewrite (contents; also: None when the root is removed, an exception when a
   reached method raises) *)
Theorem C09_transform_content : forall ct strict ms fuel n s s' r,
  wf_tree ct n = true -> coherent (universe ms n) -> below (next s) (universe ms n) ->
  visit ct strict ms fuel n s = Some (s', r) -> sres_of r = rewrite ct strict ms n.
Proof. exact transform_content. Qed.

(* nothing changes at or below n: the same address comes back and nothing is allocated; it is the very same
   node (an unchanged tree returns itself). Holds for every visited subtree, since every child is visited by
   the same function. *)
Theorem C09_identity_unchanged : forall ct strict ms fuel n s s' r,
  wf_tree ct n = true -> changed ct strict ms n = false -> visit ct strict ms fuel n s = Some (s', r) ->
  next s' = next s /\ exists n', r = RNode n' /\ addr n' = addr n /\
                      (coherent (universe ms n) -> below (next s) (universe ms n) -> n' = n).
Proof. exact identity_unchanged. Qed.

(* something changes at or below n: n does not come back as the same object, and when n's children are
   visited (no method, or a method that calls generic_visit) the result is a node allocated by this call *)
Theorem C09_ancestors_fresh : forall ct strict ms fuel n s s' r,
  wf_tree ct n = true -> below (next s) (universe ms n) -> changed ct strict ms n = true ->
  visit ct strict ms fuel n s = Some (s', r) ->
  not_same n r = true /\
  (generic_like ct strict ms (cls n) = true -> forall n', r = RNode n' -> next s <= addr n' < next s').
Proof. exact ancestors_fresh. Qed.

(* generic_visit field by field: children visited left to right, a field rebuilt iff a child came back as another
   object or None, the node rebuilt iff a field is (gv_tr); in a rebuilt tuple exactly the None results are
   dropped, in place; a single field becomes None *)
Theorem C09_removal_order : forall ct strict ms,
  (forall k n s, wf_tree ct n = true -> generic_like ct strict ms (cls n) = true ->
     visit ct strict ms (S k) n s =
     gv_tr (visit ct strict ms k) n (logc s (addr n) (dispatch ct strict (has_method ms) (cls n))))
  /\ (forall nm l rs, fnew (nm, (ShMany, l)) rs = (nm, (ShMany, rkeep rs)))
  /\ (forall rs1 rs2, rkeep (rs1 ++ RNone :: rs2) = rkeep rs1 ++ rkeep rs2)
  /\ (forall rs1 x rs2, rkeep (rs1 ++ RNode x :: rs2) = rkeep rs1 ++ x :: rkeep rs2)
  /\ (forall nm l, fnew (nm, (ShOne, l)) [RNone] = (nm, (ShNone, [])))
  /\ (forall nm l x, fnew (nm, (ShOne, l)) [RNode x] = (nm, (ShOne, [x]))).
Proof. exact removal_order. Qed.

(* every node of the result is an object that existed before (a node of the input tree or of a rule's template)
   or was allocated by this call; no address that existed before denotes anything else afterwards.
   (In this model nodes are immutable values: the frame condition after an exception is carried by the
   before/after snapshot of the correspondence run only.) *)
Theorem C09_input_frame : forall ct strict ms fuel n s s' n',
  wf_tree ct n = true -> visit ct strict ms fuel n s = Some (s', RNode n') ->
  (forall y, In y (subterms n') -> In y (universe ms n) \/ next s <= addr y < next s') /\
  (coherent (universe ms n) -> below (next s) (universe ms n) ->
   forall y x, In y (subterms n') -> In x (universe ms n) -> addr y = addr x -> y = x).
Proof. exact input_frame. Qed.

(* ---------- the premises are inhabited ---------- *)
Module C09Examples.
  Import VisitorExamples.
  Definition ms1 : methods := [(lit "B", ARemove)].
  Example ex_wf : wf_tree ct0 tree0 = true.
  Proof. vm_compute. reflexivity. Qed.
  Example ex_below : below (next s0) (universe ms1 tree0).
  Proof. intros x Hx. simpl in Hx. repeat (destruct Hx as [<-|Hx]; [simpl; lia|]). contradiction. Qed.
  Example ex_coherent : coherent (universe ms1 tree0).
  Proof.
    intros x y Hx Hy E. simpl in Hx, Hy.
    repeat (destruct Hx as [<-|Hx]; [repeat (destruct Hy as [<-|Hy]; [first [reflexivity|discriminate E]|]); contradiction|]).
    contradiction.
  Qed.
  (* a replacement template that shares an object with the tree *)
  Definition ms2 : methods := [(lit "P", AReplaceBy (leaf 2 "C" 5))].
  Example ex_coherent_shared : coherent (universe ms2 tree0).
  Proof.
    intros x y Hx Hy E. simpl in Hx, Hy.
    repeat (destruct Hx as [<-|Hx]; [repeat (destruct Hy as [<-|Hy]; [first [reflexivity|discriminate E]|]); contradiction|]).
    contradiction.
  Qed.
  (* changed / unchanged / generic_like all occur *)
  Example ex_changed : changed ct0 true ms1 tree0 = true /\ generic_like ct0 true ms1 (cls tree0) = true.
  Proof. vm_compute. auto. Qed.
  Example ex_unchanged : changed ct0 true [(lit "Q", ARemove)] tree0 = false.
  Proof. vm_compute. reflexivity. Qed.
  Example ex_visit : exists s' n', visit ct0 true ms1 3 tree0 s0 = Some (s', RNode n') /\ next s' = 101.
  Proof. eexists. eexists. vm_compute. split; reflexivity. Qed.
  Example ex_dispatch_premise : exists pre post, mro ct0 (lit "C") = pre ++ lit "B" :: post /\ forall y, In y pre -> has_method ms1 y = false.
  Proof. exists [lit "C"], [astnode]. split; [reflexivity|]. intros y [<-|[]]. reflexivity. Qed.
End C09Examples.

(* non-vacuity witnesses *)
(* the instance (Proofs/C09Witness.v): class table ct0 (B, C a subclass of B, P with an optional and a tuple child), the
   three-level tree w9_tree = P1(one = P2(one = None, many = (B6, C7)), many = (B3, C4, B5)), the rule sets
   w9_ms = {visit_B: remove; visit_C: a copy of a template}, w9_msB = {visit_B: remove}, w9_msK = {visit_Q: remove;
   visit_C: return the node}; s0 = allocation counter 100, empty log *)
From Oak Require Import Proofs.C09Witness.
Import VisitorExamples.
(* C09_dispatch (every side of its iffs), C09_dispatch_own *)
Theorem C09_ex_dispatch :
  dispatch ct0 true (has_method w9_msB) (lit "B") = Some (lit "B")
  /\ dispatch ct0 true (has_method w9_msB) (lit "C") = None /\ has_method w9_msB (lit "C") = false
  /\ dispatch ct0 false (has_method w9_msB) (lit "C") = Some (lit "B")
  /\ (mro ct0 (lit "C") = [lit "C"] ++ lit "B" :: [astnode] /\ has_method w9_msB (lit "B") = true
      /\ forall y, In y [lit "C"] -> has_method w9_msB y = false)
  /\ dispatch ct0 false (has_method w9_msB) (lit "P") = None
  /\ (forall y, In y (mro ct0 (lit "P")) -> has_method w9_msB y = false)
  /\ has_method w9_ms (lit "C") = true /\ dispatch ct0 false (has_method w9_ms) (lit "C") = Some (lit "C").
Proof. exact w9_dispatch. Qed.
(* C09_transform_total *)
Theorem C09_ex_total : wf_tree ct0 w9_tree = true /\ depth w9_tree = 3 /\ length (subterms w9_tree) = 7
  /\ transform ct0 true w9_ms w9_tree s0 = Some (w9_s', RNode w9_res).
Proof. exact w9_total. Qed.
(* C09_visit_dispatches, C09_transform_content: a returning visit with its log; the rewrite is a node *)
Theorem C09_ex_content :
  wf_tree ct0 w9_tree = true /\ coherent (universe w9_ms w9_tree) /\ below (next s0) (universe w9_ms w9_tree)
  /\ visit ct0 true w9_ms 3 w9_tree s0 = Some (w9_s', RNode w9_res)
  /\ length (universe w9_ms w9_tree) = 8
  /\ rev (calls w9_s') = (1, None) :: (2, None) :: (6, Some (lit "B")) :: (7, Some (lit "C")) :: (3, Some (lit "B"))
                         :: (4, Some (lit "C")) :: [(5, Some (lit "B"))]
  /\ rewrite ct0 true w9_ms w9_tree = SNode (strip w9_res)
  /\ map addr (subterms w9_res) = [103; 101; 100; 102].
Proof. exact w9_content. Qed.
(* C09_input_frame: a result made of old objects (the C nodes 7 and 4) and new ones (100, 101) *)
Theorem C09_ex_frame :
  wf_tree ct0 w9_tree = true
  /\ (exists s', visit ct0 true w9_msB 3 w9_tree s0 = Some (s', RNode w9_resB) /\ next s' = 102)
  /\ coherent (universe w9_msB w9_tree) /\ below (next s0) (universe w9_msB w9_tree)
  /\ In (leaf 7 "C" 8) (subterms w9_resB) /\ In (leaf 7 "C" 8) (universe w9_msB w9_tree)
  /\ map addr (subterms w9_resB) = [101; 100; 7; 4].
Proof. exact w9_frame. Qed.
(* C09_identity_unchanged: methods are called (visit_C on 7 and 4) and nothing changes *)
Theorem C09_ex_unchanged :
  wf_tree ct0 w9_tree = true /\ changed ct0 true w9_msK w9_tree = false
  /\ (exists s', visit ct0 true w9_msK 5 w9_tree s0 = Some (s', RNode w9_tree) /\ next s' = next s0
                 /\ In (4, Some (lit "C")) (calls s') /\ In (7, Some (lit "C")) (calls s'))
  /\ coherent (universe w9_msK w9_tree) /\ below (next s0) (universe w9_msK w9_tree).
Proof. exact w9_unchanged. Qed.
(* C09_ancestors_fresh (both parts), C09_removal_order *)
Theorem C09_ex_fresh :
  wf_tree ct0 w9_tree = true /\ below (next s0) (universe w9_ms w9_tree) /\ changed ct0 true w9_ms w9_tree = true
  /\ visit ct0 true w9_ms 3 w9_tree s0 = Some (w9_s', RNode w9_res)
  /\ generic_like ct0 true w9_ms (cls w9_tree) = true
  /\ not_same w9_tree (RNode w9_res) = true /\ next s0 <= addr w9_res < next w9_s'
  /\ changed ct0 true w9_ms (leaf 4 "C" 2) = true /\ generic_like ct0 true w9_ms (lit "C") = false
  /\ changed ct0 false w9_msB w9_inner = true /\ generic_like ct0 false w9_msB (cls w9_inner) = true.
Proof. exact w9_fresh. Qed.
(* C09_removal_order in non-strict mode: visit_B reaches the C nodes through the MRO; emptied tuples stay tuples *)
Theorem C09_ex_nonstrict :
  wf_tree ct0 w9_tree = true /\ generic_like ct0 false w9_msB (cls w9_tree) = true
  /\ exists s', visit ct0 false w9_msB 3 w9_tree s0
       = Some (s', RNode (Node 101 (lit "P") ONo []
                           [(lit "one", (ShOne, [Node 100 (lit "P") ONo [] [(lit "one", (ShNone, [])); (lit "many", (ShMany, []))]]));
                            (lit "many", (ShMany, []))]))
     /\ In (7, Some (lit "B")) (calls s').
Proof. exact w9_nonstrict. Qed.
