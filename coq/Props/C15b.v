(* C15, second tie: the interval methods as regenerated from /repo/src/pyoak/origin.py on every build are equal,
   for all inputs, to the model the theorems of Props/C15.v are about. ONLY statements. *)
From Oak Require Import Model.Origin Gen.OriginGen Proofs.OriginGenEquiv.

Theorem C15_gen_point_order : forall a b, g_p_lt a b = p_lt a b /\ g_p_le a b = p_le a b.
Proof. intros a b. exact (conj (g_p_lt_eq a b) (g_p_le_eq a b)). Qed.
Theorem C15_gen_point_guard : forall i l c,
  g_point_rejected {| p_idx := i; p_line := l; p_col := c |} = match mk_point i l c with None => true | Some _ => false end.
Proof. exact g_point_rejected_eq. Qed.
Theorem C15_gen_range_guard : forall s e, g_mk_range s e = mk_range s e.
Proof. exact g_mk_range_eq. Qed.
Theorem C15_gen_relations : forall a b,
  g_overlaps a b = overlaps a b /\ g_contains a b = contains a b /\ g_r_lt a b = r_lt a b /\ g_r_le a b = r_le a b.
Proof. intros a b. exact (conj (g_overlaps_eq a b) (conj (g_contains_eq a b) (conj (g_r_lt_eq a b) (g_r_le_eq a b)))). Qed.
Theorem C15_gen_hull : forall a b, g_hull a b = hull a b.
Proof. exact g_hull_eq. Qed.

(* non-vacuity witnesses *)
(* the five theorems above are equations for all inputs, without premises: nothing to inhabit.  Shown instead: the
   regenerated functions take both values of every guard and relation on well-formed points and ranges
   (w15_p i l c = the point, w15_r a b = the range from index a to index b) *)
From Oak Require Import Proofs.C15Witness.
Theorem C15_ex_gen_branches :
  g_point_rejected (w15_p 3 1 0) = false /\ g_point_rejected (w15_p (-1) 1 0) = true
  /\ g_point_rejected (w15_p 3 0 0) = true /\ g_point_rejected (w15_p 3 1 (-2)) = true
  /\ g_p_lt (w15_p 3 1 3) (w15_p 5 1 5) = true /\ g_p_lt (w15_p 5 1 5) (w15_p 5 2 0) = false
  /\ g_p_le (w15_p 5 1 5) (w15_p 5 2 0) = true /\ g_p_le (w15_p 6 1 5) (w15_p 5 2 0) = false
  /\ g_mk_range (w15_p 3 1 3) (w15_p 5 1 5) = Some {| r_start := w15_p 3 1 3; r_end := w15_p 5 1 5 |}
  /\ g_mk_range (w15_p 5 1 5) (w15_p 3 1 3) = None
  /\ g_overlaps (w15_r 1 4) (w15_r 3 9) = true /\ g_overlaps (w15_r 1 2) (w15_r 3 9) = false
  /\ g_contains (w15_r 1 9) (w15_r 3 4) = true /\ g_contains (w15_r 3 4) (w15_r 1 9) = false
  /\ g_r_lt (w15_r 1 2) (w15_r 3 9) = true /\ g_r_lt (w15_r 1 3) (w15_r 3 9) = false
  /\ g_r_le (w15_r 1 3) (w15_r 3 9) = true /\ g_r_le (w15_r 1 4) (w15_r 3 9) = false
  /\ g_hull (w15_r 3 4) (w15_r 1 2) = Some {| r_start := w15_p 1 1 1; r_end := w15_p 4 2 0 |}
  /\ g_hull (w15_r 1 9) (w15_r 3 4) = Some (w15_r 1 9).
Proof. exact w15_branches. Qed.
