(* C15, second tie: the interval methods as regenerated from /repo/src/pyoak/origin.py on every build are equal,
   for all inputs, to the model the theorems of Props/C15.v are about. ONLY statements. *)
From Oak Require Import Model.Origin Gen.OriginGen Proofs.OriginGenEquiv.

Theorem C15_gen_point_order : forall a b, g_p_lt a b = p_lt a b /\ g_p_le a b = p_le a b.
Proof. intros a b. exact (conj (g_p_lt_eq a b) (g_p_le_eq a b)). Qed.
Theorem C15_gen_point_guard : forall i l c,
  g_point_rejected {| p_idx := i; p_line := l; p_col := c |} = match mk_point i l c with None => true | Some _ => false end.
Proof. exact g_point_rejected_eq. Qed.
Theorem C15_gen_range_guard : forall s e, g_mk_range s e = mk_range s e.
Proof. exact g_mk_range_eq. Qed.
Theorem C15_gen_relations : forall a b,
  g_overlaps a b = overlaps a b /\ g_contains a b = contains a b /\ g_r_lt a b = r_lt a b /\ g_r_le a b = r_le a b.
Proof. intros a b. exact (conj (g_overlaps_eq a b) (conj (g_contains_eq a b) (conj (g_r_lt_eq a b) (g_r_le_eq a b)))). Qed.
Theorem C15_gen_hull : forall a b, g_hull a b = hull a b.
Proof. exact g_hull_eq. Qed.
