(* C08 - Pattern matching follows the documented semantics; captures are exact objects.
   ONLY statements; proofs are `exact <lemma of Proofs/PatternProofs.v>`.
   Model/Pattern.v: compile = PatternDefInterpreter, run = the _match / match methods, multi_match, the cache.
   Spec/PatSem.v:   pm_pat / pm_fspec / pm_vpat / pm_multi = the property text as a definition on the syntax.
   Oracles (universally quantified below): the digest H, Python re (re_ok, re_match), repr of a node. *)
From Oak Require Import Model.Pattern Spec.PatSem Proofs.PatternProofs Proofs.PatVarProofs Proofs.PatSharedAny.
From Coq Require Import List.
Import ListNotations.

(* every pattern that compiles, every value (node or not), every context: the matcher built by the interpreter
   (tail detection, [] as a value matcher, captures attached through dataclasses.replace) computes the documented
   semantics - verdict and capture dictionary *)
Theorem C08_run_sem : forall H ct re_ok re_match node_repr p m,
  compile ct re_ok true p = inl m ->
  forall v ctx, run H ct re_match node_repr true m v ctx = pm_pat H ct re_match node_repr p v ctx.
Proof. exact run_sem. Qed.
Example C08_run_sem_inhabited : exists m, compile wit_ct (fun _ => true) true pat_demo = inl m.
Proof. exact demo_compiles. Qed.
Example C08_run_sem_nontrivial :
  pm_pat idH wit_ct (fun r t => match r, t with c :: _, d :: _ => Ascii.eqb c d | [], _ => true | _, _ => false end) no_repr
         pat_demo (XN (nL 0 [nB 1 "a"; nB 2 "a"; nA 3 "z"])) []
  = ROk [(lit "all", XNs [nB 1 "a"; nB 2 "a"; nA 3 "z"]); (lit "a", XN (nB 1 "a")); (lit "s", XP (VStr (lit "a")));
         (lit "rest", XNs [nA 3 "z"])].
Proof. exact demo_matches. Qed.

(* on failure the capture dictionary is empty *)
Theorem C08_fail_empty : forall r, fst (as_pair r) = false -> snd (as_pair r) = [].
Proof. exact fail_empty. Qed.

(* captures are the matched objects: "-> c" binds the value the spec was applied to (a node keeps its address) *)
Theorem C08_capture_is_value : forall c v r d,
  named (Some c) v r = ROk d ->
  exists nv, r = ROk nv /\ d = dupdate [(c, v)] nv /\ (dget c nv = None -> dget c d = Some v).
Proof. exact named_capture. Qed.
Theorem C08_capture_any : forall H ct re_match node_repr c v ctx,
  pm_fspec H ct re_match node_repr (FAny (Some c)) v ctx = ROk [(c, v)].
Proof. exact capture_any. Qed.
Theorem C08_capture_tail : forall H ct re_match node_repr t v ctx,
  pm_fspec H ct re_match node_repr (FSeq [] (Some (Some t)) None) v ctx =
  match seq_items v with Some _ => ROk [(t, seq_drop 0 v)] | None => RFail end.
Proof. exact capture_tail. Qed.

(* a pattern accepted by the interpreter never raises the run-time "Pattern uses match variable before it was
   captured" error: for every value and every initial context (in particular the empty one of NodeMatcher.match).
   compile accepts "$x" only after a capture of x in the left-to-right scan; the matcher runs the same parts in the
   same order and stops at the first failure, and a sequence only enters its element loop when it has at least as
   many elements as matchers, so every name scanned so far is bound on every path still running. *)
Theorem C08_run_no_var_error : forall H ct re_ok re_match node_repr p m,
  compile ct re_ok true p = inl m ->
  forall v ctx, run H ct re_match node_repr true m v ctx <> RRaise.
Proof. exact run_no_var_error. Qed.
(* the invariant behind it, for a pattern compiled after the captures [seen]: started in a context binding all of
   [seen] it does not raise, and when it matches, all of [seen'] is bound by the context plus its own captures *)
Theorem C08_scan_invariant : forall H ct re_ok re_match node_repr p seen m seen',
  c_pat ct re_ok true p seen = COk m seen' ->
  forall v ctx, covers seen ctx ->
    pm_pat H ct re_match node_repr p v ctx <> RRaise /\
    forall nv, pm_pat H ct re_match node_repr p v ctx = ROk nv -> covers seen' (dupdate ctx nv).
Proof. exact scan_invariant. Qed.
(* on success every capture name of the pattern has a value in the returned dictionary *)
Theorem C08_match_binds_all : forall H ct re_ok re_match node_repr p m seen',
  c_pat ct re_ok true p [] = COk m seen' ->
  forall v nv, run H ct re_match node_repr true m v [] = ROk nv -> forall k, mem k seen' = true -> dget k nv <> None.
Proof. exact run_binds_all. Qed.
(* MultiPatternMatcher.match does not let the error escape either *)
Theorem C08_multi_no_var_error : forall H ct re_ok re_match node_repr rules crules v name,
  compiled ct re_ok rules crules ->
  multi_match H ct re_match node_repr true crules v <> Some (name, RRaise).
Proof. exact multi_no_var_error. Qed.
Example C08_no_var_error_inhabited :
  exists m s, c_pat wit_ct (fun _ => true) true pat_demo [] = COk m s /\ mem (lit "a") s = true /\ covers [] [].
Proof. eexists. eexists. split; [vm_compute; reflexivity|]. split; [reflexivity|]. intros k Hk; discriminate. Qed.
(* the length test of SequenceMatcher matters for this: with the pre-repair test (D7) the element loop could stop
   early, leave a capture unbound, and a later $variable raised at run time although the pattern compiled *)
Theorem C08_refuted_seq_len_var_raises :
  exists m, compile wit_ct (fun _ => true) true pat_D7var = inl m
    /\ run idH wit_ct any_re no_repr false m (XN (nL 0 [nA 1 "a"])) [] = RRaise
    /\ run idH wit_ct any_re no_repr true m (XN (nL 0 [nA 1 "a"])) [] = RFail.
Proof. exact refuted_D7_var_raises. Qed.

(* MultiPatternMatcher: the compiled rules answer as the rule list does under the documented semantics ... *)
Theorem C08_multi_sem : forall H ct re_ok re_match node_repr rules crules v,
  compiled ct re_ok rules crules ->
  multi_match H ct re_match node_repr true crules v = pm_multi H ct re_match node_repr rules v.
Proof. exact multi_sem. Qed.
(* ... which is: the first rule, in the given order, that matches *)
Theorem C08_multi_first : forall H ct re_match node_repr rules v name r,
  pm_multi H ct re_match node_repr rules v = Some (name, r) <->
  exists pre p post, rules = pre ++ (name, p) :: post
    /\ Forall (fun q => pm_pat H ct re_match node_repr (snd q) v [] = RFail) pre
    /\ pm_pat H ct re_match node_repr p v [] = r /\ r <> RFail.
Proof. exact multi_first. Qed.
Theorem C08_multi_none : forall H ct re_match node_repr rules v,
  pm_multi H ct re_match node_repr rules v = None <->
  Forall (fun q => pm_pat H ct re_match node_repr (snd q) v [] = RFail) rules.
Proof. exact multi_none. Qed.

(* results never depend on the pattern cache: after any sequence of earlier from_pattern calls the matcher
   returned for a key is the one a fresh compilation returns (matching itself is a pure function: run) *)
Theorem C08_history_free : forall (K M E : Type) (keq : K -> K -> bool) (comp : K -> M + E),
  (forall a b, keq a b = true -> a = b) ->
  forall ks k, snd (from_key K M E keq comp (after K M E keq comp ks) k) = comp k.
Proof. exact history_free. Qed.
Example C08_history_free_inhabited : forall a b, pystr_eqb a b = true -> a = b.
Proof. intros a b. apply pystr_eqb_eq. Qed.

(* the three defects repaired in /repo, against the pre-repair behaviour (variant flags false) *)
Theorem C08_refuted_seq_len :
  exists m, compile wit_ct (fun _ => true) true pat_D7 = inl m
    /\ run idH wit_ct any_re no_repr false m (XN (nL 0 [nA 1 "a"])) [] = ROk []
    /\ pm_pat idH wit_ct any_re no_repr pat_D7 (XN (nL 0 [nA 1 "a"])) [] = RFail
    /\ run idH wit_ct any_re no_repr true m (XN (nL 0 [nA 1 "a"])) [] = RFail.
Proof. exact refuted_D7. Qed.
Theorem C08_refuted_tail_lost :
  exists m, compile wit_ct (fun _ => true) false pat_D8 = inl m
    /\ run idH wit_ct any_re no_repr true m (XN (nL 0 [nA 1 "a"; nB 2 "b"])) [] = RFail
    /\ pm_pat idH wit_ct any_re no_repr pat_D8 (XN (nL 0 [nA 1 "a"; nB 2 "b"])) []
       = ROk [(lit "c", XNs [nA 1 "a"; nB 2 "b"])].
Proof. exact refuted_D8_tail_lost. Qed.
Theorem C08_refuted_star_capture :
  compile wit_ct (fun _ => true) false pat_D8b = inr EUnexpected /\
  exists m, compile wit_ct (fun _ => true) true pat_D8b = inl m.
Proof. exact refuted_D8_star_capture. Qed.

(* D9 before its repair: AnyMatcher was one shared object whose name every later construction overwrote.  Modelled
   by the final content of that one cell (Proofs/PatSharedAny.v: anys = the names in construction order,
   share o = every AnyMatcher reads o).  MultiPatternMatcher [r1 = (A @x -> v); r2 = (B @x)] lost the capture v of
   r1, and [r1 = (B @x); r2 = (A @x -> w)] made r1 capture under the name w; the current code (compile_rules
   without sharing) and the documented semantics give {v: 'a'} and {} *)
Theorem C08_refuted_shared_any :
  compiled wit_ct (fun _ => true) d9_rules (compile_rules d9_rules) /\
  multi_match idH wit_ct any_re no_repr true (shared_rules (compile_rules d9_rules)) (XN (nA 1 "a")) = Some (lit "r1", ROk []) /\
  pm_multi idH wit_ct any_re no_repr d9_rules (XN (nA 1 "a")) = Some (lit "r1", ROk [(lit "v", XP (VStr (lit "a")))]) /\
  multi_match idH wit_ct any_re no_repr true (compile_rules d9_rules) (XN (nA 1 "a")) = Some (lit "r1", ROk [(lit "v", XP (VStr (lit "a")))]) /\
  multi_match idH wit_ct any_re no_repr true (shared_rules (compile_rules d9_rules2)) (XN (nB 1 "b"))
    = Some (lit "r1", ROk [(lit "w", XP (VStr (lit "b")))]) /\
  pm_multi idH wit_ct any_re no_repr d9_rules2 (XN (nB 1 "b")) = Some (lit "r1", ROk []).
Proof. exact refuted_D9_shared_any. Qed.
