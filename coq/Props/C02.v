(* C02 - == is content equality plus origin equality at every position.
   ONLY statements. eqn = the transcription of ASTNode.__eq__ (class identity, content_id, root origin, then
   zip(strict=True) over both dfs() streams); EqValueError = the zip raised, EqFuel = the dfs machine ran out of
   fuel (both proved impossible).  origins_eq a b = position-wise equality (dataclass ==) of the pre-order origin
   lists, roots included.  The converse of C01 (equal content_id => content-equal) is needed for the
   characterisation; it is instantiated with C01_complete_nested, whose premises are: H collision-free and
   hex-valued, names_ok ct, node_values_ok, node_deep (see Props/C01b.v for what they say; they exclude no
   Python value). *)
From Oak Require Import Model.Equality Spec.CEq Proofs.EncodeComplete Proofs.EqualityProofs.

Definition digest_ok (H : pystr -> pystr) : Prop :=
  (forall x y, H x = H y -> x = y) /\ (forall x, forallb is_hex (H x) = true).
Definition good ct et (n : node) : Prop := node_values_ok ct n /\ node_deep ct et n.

Lemma c01_complete H ct et : digest_ok H -> names_ok ct ->
  forall a b, good ct et a -> good ct et b -> wf_node ct a = true -> wf_node ct b = true ->
  cls a = cls b -> content_id H ct current a = content_id H ct current b -> ceq ct a b.
Proof.
  intros [Hi Hh] Hn a b [Va Da] [Vb Db] Wa Wb _ E. exact (complete_deep H ct et Hi Hh Hn a b Wa Wb Va Vb Da Db E).
Qed.

(* on content-equal trees == never raises and is exactly position-wise origin equality; no premise on H *)
Theorem C02_eq_of_ceq : forall H ct vr, v_stable vr = true ->
  forall a b, wf_node ct a = true -> wf_node ct b = true -> ceq ct a b ->
  eqn H ct vr a b = if origins_eq a b then EqTrue else EqFalse.
Proof. exact eq_of_ceq. Qed.
(* the property sentence *)
Theorem C02_char : forall H ct et, digest_ok H -> names_ok ct ->
  forall a b, good ct et a -> good ct et b -> wf_node ct a = true -> wf_node ct b = true ->
  (eqn H ct current a b = EqTrue <-> cls a = cls b /\ ceq ct a b /\ origins_eq a b = true).
Proof. intros H ct et HD HN. exact (eq_char H ct current eq_refl (good ct et) (c01_complete H ct et HD HN)). Qed.
(* == is total: the strict zip never raises, the traversal never runs out of fuel *)
Theorem C02_total : forall H ct et, digest_ok H -> names_ok ct ->
  forall a b, good ct et a -> good ct et b -> wf_node ct a = true -> wf_node ct b = true ->
  eqn H ct current a b = EqTrue \/ eqn H ct current a b = EqFalse.
Proof. intros H ct et HD HN. exact (eq_total H ct current eq_refl (good ct et) (c01_complete H ct et HD HN)). Qed.
Theorem C02_refl : forall H ct vr, v_stable vr = true ->
  forall a, wf_node ct a = true -> eqn H ct vr a a = EqTrue.
Proof. exact eq_refl_. Qed.
Theorem C02_sym : forall H ct et, digest_ok H -> names_ok ct ->
  forall a b, good ct et a -> good ct et b -> wf_node ct a = true -> wf_node ct b = true ->
  eqn H ct current a b = eqn H ct current b a.
Proof. intros H ct et HD HN. exact (eq_sym H ct current eq_refl (good ct et) (c01_complete H ct et HD HN)). Qed.
Theorem C02_trans : forall H ct et, digest_ok H -> names_ok ct ->
  forall a b c, good ct et a -> good ct et b -> good ct et c ->
  wf_node ct a = true -> wf_node ct b = true -> wf_node ct c = true ->
  eqn H ct current a b = EqTrue -> eqn H ct current b c = EqTrue -> eqn H ct current a c = EqTrue.
Proof. intros H ct et HD HN. exact (eq_trans H ct current eq_refl (good ct et) (c01_complete H ct et HD HN)). Qed.
Theorem C02_other_class_false : forall H ct vr a b, cls a <> cls b -> eqn H ct vr a b = EqFalse.
Proof. exact eq_other_class. Qed.
Theorem C02_ne_negation : forall H ct et, digest_ok H -> names_ok ct ->
  forall a b, good ct et a -> good ct et b -> wf_node ct a = true -> wf_node ct b = true ->
  (neqn H ct current a b = EqTrue <-> eqn H ct current a b = EqFalse)
  /\ (neqn H ct current a b = EqFalse <-> eqn H ct current a b = EqTrue).
Proof. intros H ct et HD HN. exact (neq_negation H ct current eq_refl (good ct et) (c01_complete H ct et HD HN)). Qed.
(* what makes the zip meaningful: content-equal trees have position lists of equal length, and the stream dfs()
   yields is the declarative pre-order list *)
Theorem C02_dfs_shape : forall ct a b, ceq ct a b -> length (all_origins a) = length (all_origins b).
Proof. exact all_origins_length. Qed.
Theorem C02_stream_is_preorder : forall ct n, wf_node ct n = true -> stream_origins ct n = Some (tl (all_origins n)).
Proof. exact stream_origins_wf. Qed.
(* origin equality (dataclass ==) is an equivalence *)
Theorem C02_origin_eq_equiv : (forall o, origin_eqb o o = true) /\ (forall o o', origin_eqb o o' = origin_eqb o' o)
  /\ (forall o o' o'', origin_eqb o o' = true -> origin_eqb o' o'' = true -> origin_eqb o o'' = true).
Proof. exact (conj origin_eqb_refl (conj origin_eqb_sym origin_eqb_trans)). Qed.

(* the premises are inhabited (the digest tohex and the trees of Props/C01b.v) *)
Example C02_nonvacuous :
  digest_ok tohex /\ names_ok ex_ct2 /\ good ex_ct2 ex_et ex_a2 /\ good ex_ct2 ex_et ex_b2
  /\ wf_node ex_ct2 ex_a2 = true /\ wf_node ex_ct2 ex_b2 = true /\ eqn tohex ex_ct2 current ex_a2 ex_a2 = EqTrue
  /\ (eqn tohex ex_ct2 current ex_a2 ex_b2 = EqTrue \/ eqn tohex ex_ct2 current ex_a2 ex_b2 = EqFalse).
Proof.
  pose proof complete_premises as (Hi & Hh & _). pose proof complete_premises_nested as (N & Wa & Wb & Va & Vb & Da & Db & _).
  split; [split; assumption|]. split; [assumption|]. split; [split; assumption|]. split; [split; assumption|].
  split; [assumption|]. split; [assumption|]. split.
  - vm_compute. reflexivity.
  - vm_compute. auto.
Qed.

(* non-vacuity witnesses *)
(* the instance (Proofs/C01Witness.v): w1_ct = Leaf, Pair, Sub (a subclass of Pair); digest tohex; six-node / four-level
   trees w1_a, w1_b, w1_c (three objects, content-equal with a frozenset in three orders, same origins), w1_d (content-equal
   to w1_a, other origins below the root), w1_e (other content) *)
From Oak Require Import Proofs.C01Witness Proofs.C02Witness.
(* C02_eq_of_ceq, C02_dfs_shape: both branches of the `if` *)
Theorem C02_ex_eq_of_ceq :
  v_stable current = true /\ wf_node w1_ct w1_a = true /\ wf_node w1_ct w1_b = true /\ wf_node w1_ct w1_d = true
  /\ ceq w1_ct w1_a w1_b /\ ceq w1_ct w1_a w1_d /\ w1_a <> w1_b
  /\ origins_eq w1_a w1_b = true /\ origins_eq w1_a w1_d = false
  /\ eqn tohex w1_ct current w1_a w1_b = EqTrue /\ eqn tohex w1_ct current w1_a w1_d = EqFalse
  /\ length (all_origins w1_a) = 6.
Proof. exact w2_eq_of_ceq. Qed.
(* C02_char, C02_total, C02_sym, C02_ne_negation: == True on (a, b); False on (a, d) and on (a, e) *)
Theorem C02_ex_char :
  digest_ok tohex /\ names_ok w1_ct
  /\ good w1_ct ex_et w1_a /\ good w1_ct ex_et w1_b /\ good w1_ct ex_et w1_d /\ good w1_ct ex_et w1_e
  /\ wf_node w1_ct w1_a = true /\ wf_node w1_ct w1_b = true /\ wf_node w1_ct w1_d = true /\ wf_node w1_ct w1_e = true
  /\ eqn tohex w1_ct current w1_a w1_b = EqTrue /\ eqn tohex w1_ct current w1_b w1_a = EqTrue
  /\ eqn tohex w1_ct current w1_a w1_d = EqFalse /\ eqn tohex w1_ct current w1_a w1_e = EqFalse
  /\ neqn tohex w1_ct current w1_a w1_b = EqFalse /\ neqn tohex w1_ct current w1_a w1_e = EqTrue.
Proof. exact w2_char. Qed.
(* C02_trans: three different objects *)
Theorem C02_ex_trans :
  digest_ok tohex /\ names_ok w1_ct
  /\ good w1_ct ex_et w1_a /\ good w1_ct ex_et w1_b /\ good w1_ct ex_et w1_c
  /\ wf_node w1_ct w1_a = true /\ wf_node w1_ct w1_b = true /\ wf_node w1_ct w1_c = true
  /\ eqn tohex w1_ct current w1_a w1_b = EqTrue /\ eqn tohex w1_ct current w1_b w1_c = EqTrue
  /\ addr w1_a <> addr w1_b /\ addr w1_b <> addr w1_c /\ addr w1_a <> addr w1_c
  /\ nprops w1_a <> nprops w1_b /\ nprops w1_b <> nprops w1_c.
Proof. exact w2_trans. Qed.
(* C02_refl, C02_stream_is_preorder *)
Theorem C02_ex_refl : v_stable current = true /\ wf_node w1_ct w1_a = true
  /\ eqn tohex w1_ct current w1_a w1_a = EqTrue
  /\ option_map (@length origin) (stream_origins w1_ct w1_a) = Some 5
  /\ all_origins w1_a = [w1_o1; w1_o2; ONo; w1_o2; w1_o2; ONo].
Proof. exact w2_refl. Qed.
(* C02_other_class_false: a Sub node against the Pair node stored in its tuple field *)
Theorem C02_ex_other_class : cls w1_a <> cls (w1_pair 3 w1_o2 "first")
  /\ In (w1_pair 3 w1_o2 "first") (snd (snd (nth 2 (nkids w1_a) (lit "", (ShNone, []))))).
Proof. exact w2_other_class. Qed.
(* C02_origin_eq_equiv (transitivity): three different origin values that are pairwise == *)
Theorem C02_ex_origin_trans :
  origin_eqb (w2_om None) (w2_om (Some (lit "a"))) = true /\ origin_eqb (w2_om (Some (lit "a"))) (w2_om (Some (lit "b"))) = true
  /\ w2_om None <> w2_om (Some (lit "a")) /\ w2_om (Some (lit "a")) <> w2_om (Some (lit "b"))
  /\ origin_eqb (w2_om None) w1_o1 = false.
Proof. exact w2_origin_trans. Qed.
