(* C02 - == is content equality plus origin equality at every position.
   ONLY statements. eqn = the transcription of ASTNode.__eq__ (class identity, content_id, root origin, then
   zip(strict=True) over both dfs() streams); result EqValueError = zip raised, EqFuel = the dfs machine ran out
   of fuel (both proved impossible).  origins_eq a b = position-wise equality (dataclass ==) of the pre-order
   origin lists, roots included.  The characterisation needs the converse direction of C01 ("equal content_id
   => content-equal", provable for collision-free digests only): it enters as the explicit premise [complete]. *)
From Oak Require Import Model.Equality Spec.CEq Proofs.EqualityProofs.

Definition c01_complete (H : pystr -> pystr) ct vr : Prop :=
  forall a b, wf_node ct a = true -> wf_node ct b = true ->
    cls a = cls b -> content_id H ct vr a = content_id H ct vr b -> ceq ct a b.

(* on content-equal trees == never raises and is exactly position-wise origin equality; no premise on H *)
Theorem C02_eq_of_ceq : forall H ct vr, v_stable vr = true ->
  forall a b, wf_node ct a = true -> wf_node ct b = true -> ceq ct a b ->
  eqn H ct vr a b = if origins_eq a b then EqTrue else EqFalse.
Proof. exact eq_of_ceq. Qed.
Theorem C02_char : forall H ct vr, v_stable vr = true -> c01_complete H ct vr ->
  forall a b, wf_node ct a = true -> wf_node ct b = true ->
  (eqn H ct vr a b = EqTrue <-> cls a = cls b /\ ceq ct a b /\ origins_eq a b = true).
Proof. exact eq_char. Qed.
(* == is total: the strict zip never raises, the traversal never runs out of fuel *)
Theorem C02_total : forall H ct vr, v_stable vr = true -> c01_complete H ct vr ->
  forall a b, wf_node ct a = true -> wf_node ct b = true ->
  eqn H ct vr a b = EqTrue \/ eqn H ct vr a b = EqFalse.
Proof. exact eq_total. Qed.
Theorem C02_refl : forall H ct vr, v_stable vr = true ->
  forall a, wf_node ct a = true -> eqn H ct vr a a = EqTrue.
Proof. exact eq_refl_. Qed.
Theorem C02_sym : forall H ct vr, v_stable vr = true -> c01_complete H ct vr ->
  forall a b, wf_node ct a = true -> wf_node ct b = true -> eqn H ct vr a b = eqn H ct vr b a.
Proof. exact eq_sym. Qed.
Theorem C02_trans : forall H ct vr, v_stable vr = true -> c01_complete H ct vr ->
  forall a b c, wf_node ct a = true -> wf_node ct b = true -> wf_node ct c = true ->
  eqn H ct vr a b = EqTrue -> eqn H ct vr b c = EqTrue -> eqn H ct vr a c = EqTrue.
Proof. exact eq_trans. Qed.
Theorem C02_other_class_false : forall H ct vr a b, cls a <> cls b -> eqn H ct vr a b = EqFalse.
Proof. exact eq_other_class. Qed.
Theorem C02_ne_negation : forall H ct vr, v_stable vr = true -> c01_complete H ct vr ->
  forall a b, wf_node ct a = true -> wf_node ct b = true ->
  (neqn H ct vr a b = EqTrue <-> eqn H ct vr a b = EqFalse) /\ (neqn H ct vr a b = EqFalse <-> eqn H ct vr a b = EqTrue).
Proof. exact neq_negation. Qed.
(* what makes the zip meaningful: content-equal trees have position lists of equal length, and the stream dfs()
   yields is the declarative pre-order list *)
Theorem C02_dfs_shape : forall ct a b, ceq ct a b -> length (all_origins a) = length (all_origins b).
Proof. exact all_origins_length. Qed.
Theorem C02_stream_is_preorder : forall ct n, wf_node ct n = true -> stream_origins ct n = Some (tl (all_origins n)).
Proof. exact stream_origins_wf. Qed.
(* origin equality (dataclass ==) is an equivalence *)
Theorem C02_origin_eq_equiv : (forall o, origin_eqb o o = true) /\ (forall o o', origin_eqb o o' = origin_eqb o' o)
  /\ (forall o o' o'', origin_eqb o o' = true -> origin_eqb o' o'' = true -> origin_eqb o o'' = true).
Proof. exact (conj origin_eqb_refl (conj origin_eqb_sym origin_eqb_trans)). Qed.
