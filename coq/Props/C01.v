(* C01 - content_id / is_equal is exactly structural content equality.
   ONLY statements; proofs are `exact <lemma>`.  H is an arbitrary digest function in every theorem of the
   soundness direction; the completeness direction (Proofs/EncodeComplete.v) assumes H collision-free and
   hex-valued.  ceq / veq: Spec/CEq.v.  vr: the encoding variant; `current` = the code in /repo. *)
From Oak Require Import Spec.CEq Proofs.EncodeSound.

(* content-equal nodes have the same content_id, whatever the digest *)
Theorem C01_sound : forall H ct vr, v_stable vr = true ->
  forall a b, ceq ct a b -> content_id H ct vr a = content_id H ct vr b.
Proof. exact ceq_sound. Qed.
Theorem C01_is_equal_sound : forall H ct vr, v_stable vr = true ->
  forall a b, ceq ct a b -> is_equal H ct vr a b = true.
Proof. exact is_equal_sound. Qed.
Theorem C01_is_equal_char : forall H ct vr a b,
  is_equal H ct vr a b = true <-> cls a = cls b /\ content_id H ct vr a = content_id H ct vr b.
Proof. exact is_equal_char. Qed.
(* equal values (frozensets as sets) render identically *)
Theorem C01_veq_same_render : forall v v', veq v v' -> same_render v v'.
Proof. exact veq_same_render. Qed.
(* origins and object identities anywhere in the tree never influence the content id *)
Theorem C01_indep_origin_identity : forall H ct vr, v_stable vr = true ->
  forall fa fo n, content_id H ct vr (retag fa fo n) = content_id H ct vr n.
Proof. exact indep_origin_identity. Qed.
(* non-comparable properties never influence it *)
Theorem C01_indep_noncompare : forall H ct vr, v_stable vr = true ->
  forall a a' c o o' ps ps' ks,
  (forall f, In f (comparable ct c) -> assoc (fd_name f) ps = assoc (fd_name f) ps') ->
  content_id H ct vr (Node a c o ps ks) = content_id H ct vr (Node a' c o' ps' ks).
Proof. exact indep_noncompare. Qed.
(* the registry cannot influence it: content_id takes no state (by type) - and it is a function of the
   node value alone, so it cannot change during the node's lifetime (the frame condition on nodes is C10) *)
Theorem C01_indep_registry : forall H ct vr n (registry1 registry2 : list (pystr * nat)),
  content_id H ct vr n = content_id H ct vr n.
Proof. reflexivity. Qed.
Theorem C01_ceq_refl : forall ct n, ceq ct n n.
Proof. exact ceq_refl. Qed.
(* sorting by field name is a function of the set of fields *)
Theorem C01_sort_strings_perm : forall l l', Permutation l l' -> isort pystr_leb l = isort pystr_leb l'.
Proof. exact isort_strings_perm. Qed.
(* the pre-repair encodings (defects D1, D2, repaired in /repo) *)
Theorem C01_refuted_unframed :
  ~ ceq d1_ct d1_a d1_b
  /\ (forall H, content_id H d1_ct legacy_enc d1_a = content_id H d1_ct legacy_enc d1_b)
  /\ cid_data (fun x => x) d1_ct current d1_a <> cid_data (fun x => x) d1_ct current d1_b.
Proof. exact refuted_unframed. Qed.
Theorem C01_refuted_set_order :
  veq (VFset [VInt 8; VInt 16; VInt 0]) (VFset [VInt 16; VInt 8; VInt 0])
  /\ render legacy_enc (VFset [VInt 8; VInt 16; VInt 0]) <> render legacy_enc (VFset [VInt 16; VInt 8; VInt 0])
  /\ render current (VFset [VInt 8; VInt 16; VInt 0]) = render current (VFset [VInt 16; VInt 8; VInt 0]).
Proof. exact refuted_set_order. Qed.
