(* C04 - Serialization round-trips trees exactly in dict, JSON, MessagePack and YAML.
   ONLY statements; proofs are `exact <lemma of Proofs/Serial*.v>`. Model: Model/Serial.v
   (orjson / msgpack / yaml are the identity on the JSON-like value: assumption, exercised by the harness).
   Proved for all inputs: property values, code points/ranges, sources through the source registry (plain and
   index-based, incl. the registry rebuilt by load_serialized_sources), the No* singletons, origins of every kind,
   whole trees into any node registry (none / some / all of the originals alive), sharing, == of the result.
   Reading guide for the tree theorems: Spec/SerialSpec.v (rt_ok, nodes, consistent). *)
From Oak Require Import Model.SerOpts Model.Serial Spec.SerialSpec Model.Equality Spec.CEq
  Proofs.SerialProofs Proofs.SerialOriginProofs Proofs.SerialTreeProofs Proofs.SerialEqProofs Proofs.SerialTotalProofs
  Proofs.SerialExamples.

(* every property value of a representable kind that conforms to its annotation comes back unchanged
   (strings, 64-bit and larger ints, floats by repr, bools, None, enums by value, paths, tuples, optionals) *)
Theorem C04_value_roundtrip : forall s, ints_as_str s = false ->
  forall t v, wt s t v -> deser_pval s t (ser_pval s t v) = Some v.
Proof. exact pval_roundtrip. Qed.
Example C04_value_inhabited :
  let ms := [(lit "RED", VInt 1%Z); (lit "GREEN", VStr (lit "g"))] in
  wt slots0 (TyTup (TyOpt (TyEnum (lit "Color") ms))) (VTuple [VEnum (lit "Color") (lit "GREEN") (VStr (lit "g")); VNone])
  /\ wt slots0 (TyOpt TyInt) (VInt (-9223372036854775808)%Z) /\ wt slots0 TyPath (VPath (lit "a/b")).
Proof.
  split; [|split].
  - cbn [wt]. eexists; split; [reflexivity|]. constructor; [|constructor; [|constructor]].
    + split; [exact I|]. right. split; [do 2 eexists; split; reflexivity|discriminate].
    + split; [exact I|]. left. reflexivity.
  - cbn [wt]. split; [exact I|]. right. split; [eauto|discriminate].
  - cbn [wt]. eauto.
Qed.

(* code points and ranges (for every option subset without tag suppression, sorted or not) *)
Theorem C04_point_roundtrip : forall s p, ints_as_str s = false -> get_skip s = false -> wf_point p ->
  deser_point s (ser_point s p) = Ok p.
Proof. exact point_roundtrip. Qed.
Theorem C04_range_roundtrip : forall s r, ints_as_str s = false -> get_skip s = false -> wf_range r ->
  deser_range s (ser_range s r) = Ok r.
Proof. exact range_roundtrip. Qed.

(* sources of every kind, source sets included, in ANY state of the source registry at reading time (fresh
   process included): the source handed back is == to the original (raw text is not part of ==) *)
Theorem C04_source_roundtrip : forall s, get_sidx s = false -> get_skip s = false ->
  forall x reg0 v fuel reg, ser_source s reg0 x = Some v -> source_depth x <= fuel ->
  exists x' reg', deser_source fuel v reg = Ok (x', reg') /\ source_eqb x' x = true.
Proof. exact source_roundtrip. Qed.
Example C04_source_inhabited :
  exists v, ser_source slots0 [] (SSet [SText (lit "u") (lit "T"); SNo; SMem (lit "m") (Some (lit "raw")); SFile (lit "d/f")]) = Some v.
Proof. eexists. reflexivity. Qed.

(* the three placeholders come back as the same singletons *)
Theorem C04_singletons : forall s reg fuel,
  ser_source s reg SNo = Some (JMap []) /\ deser_source (S fuel) (JMap []) reg = Ok (SNo, reg)
  /\ ser_origin s reg ONo = Some (JMap []) /\ deser_origin (S fuel) s (JMap []) reg = Ok (ONo, reg).
Proof. exact singletons. Qed.

(* index-based sources: an index reference resolves to a source == to the original in every registry that holds
   equal sources at the same indices (the same process: the registry itself) *)
Theorem C04_source_index_agree : forall s' x reg reg' i fuel, get_sidx s' = true -> x <> SNo ->
  ser_source s' reg x = Some (JMap [kv "idx" (JInt (Z.of_nat i))]) ->
  (forall y, nth_error reg i = Some y -> exists y', nth_error reg' i = Some y' /\ source_eqb y' y = true) ->
  exists y', deser_source (S fuel) (JMap [kv "idx" (JInt (Z.of_nat i))]) reg' = Ok (y', reg') /\ source_eqb y' x = true.
Proof. exact source_index_roundtrip. Qed.
Example C04_source_index_inhabited :
  ser_source {| sl_opts := sort_idx; sl_md := None |} [SFile (lit "a"); x_src] x_src = Some (JMap [kv "idx" (JInt (Z.of_nat 1))]).
Proof. reflexivity. Qed.

(* ... and another process: Source.all_as_dict() always succeeds on a registry as Source.__post_init__ builds it
   (reg_valid: no NoSource entry, no two == entries, the members of a source set before the set);
   load_serialized_sources of it into an EMPTY registry rebuilds pairwise == sources at the same indices (reg_eqv),
   so that every index reference written against the old registry resolves to a source == the original.
   Fuel: the nesting depth of the deepest source set. *)
Theorem C04_source_index : forall s' reg fuel, get_sidx s' = true -> reg_valid reg ->
  (forall y, In y reg -> source_depth y <= fuel) ->
  exists ds reg', all_as_dict reg = Some ds /\ load_sources fuel ds [] = Ok reg' /\ reg_eqv reg reg' /\
    forall x v k, ser_source s' reg x = Some v ->
      exists y', deser_source (S k) v reg' = Ok (y', reg') /\ source_eqb y' x = true.
Proof. exact source_index_reload. Qed.
(* every registry the constructors can produce is valid: the empty one, and constructing an origin (its sources first,
   the members of a set before the set, the SourceSet of a multi-origin last) keeps it valid *)
Theorem C04_registry_valid : reg_valid [] /\
  forall o reg, reg_valid reg -> reg_valid (register_origin o reg) /\ closed (register_origin o reg) (osource o)
                                 /\ exists k, register_origin o reg = reg ++ k.
Proof. exact (conj reg_valid_nil register_origin_valid). Qed.

(* origins of every kind - code, generated, XML, entire-source, multi-origins (nested ones included), over every source
   kind incl. source sets and NoSource, and the NoOrigin singleton - under every option subset the reader supports
   (sort_keys or not; plain or index-based sources; SKIP_CLASS is excluded: Origin._deserialize dispatches on the tag
   and raises without it, only the {} placeholders are readable then, see C04_singletons): the origin read back is ==
   the original. With index-based sources the registry at reading time must hold == sources at the indices of the
   registry at writing time (reg_agree: the same registry, or the one rebuilt by C04_source_index), and still does
   afterwards. Fuel: origin_depth = nesting of multi-origins + source sets + 1. wf_origin = what the constructors
   enforce (a valid range; a multi-origin has at least two members). *)
Theorem C04_origin_roundtrip : forall s, ints_as_str s = false -> get_skip s = false ->
  forall o fuel, origin_depth o <= fuel ->
  forall reg0 v reg, wf_origin o -> ser_origin s reg0 o = Some v -> (get_sidx s = true -> reg_agree reg0 reg) ->
  exists o' reg', deser_origin fuel s v reg = Ok (o', reg') /\ origin_eqb o' o = true
                  /\ (get_sidx s = true -> reg_agree reg0 reg').
Proof. exact origin_roundtrip. Qed.
Example C04_origin_inhabited : wf_origin x_origin /\ origin_depth x_origin <= 5
  /\ (exists v, ser_origin slots0 [] x_origin = Some v)
  /\ (exists v, ser_origin x_s1 (register_origin x_origin []) x_origin = Some v)
  /\ reg_valid (register_origin x_origin []).
Proof. exact ex_origin. Qed.

(* ---------- whole trees ----------
   T: a tree term; the same address is the same object (consistent); every node conforms to its class and its
   annotations (conforming: class declared, fields in declaration order with the declared shapes, a constructible
   origin, init-fields conform to their annotation [wt], init=False fields hold their default); field names differ
   from the built-in keys. ids: address -> id as handed out at construction; reg0: the node registry when reading
   starts, ANY registry in which an id of the tree is bound to nothing but that node (no_takeover: "provided no other
   live node has meanwhile taken over its id"): none, some or all of the originals, plus any other nodes.
   Result (rt_ok, Spec/SerialSpec.v), position by position: the registered original itself, or else a new object
   (address >= next0) registered under the serialized id - suffix included - with the same class, content_id and
   property values, an == origin, the same child field names and shapes, children related the same way.
   Options: sort_keys or not, index-based sources or not, the explorer dialect or none; not SKIP_CLASS (the reader
   needs the tag), not the test dialect (it overwrites the source), not a user dialect for ints.
   Fuel: node_depth T. Additionally: originals stay registered; every id registered by the reading is an id of the tree. *)
Theorem C04_roundtrip : forall H ct pt s, ints_as_str s = false -> get_skip s = false -> is_test s = false ->
  (forall c f, In f (fields_of ct c) -> ~ In (fd_name f) reserved) ->
  forall reg ids armed reg0 ids0 next0 srcs T v fuel,
  consistent T -> ids_injective ids T -> conforming ct pt s T -> no_takeover ids reg0 T ->
  (forall a x, assoc_nat a ids0 = Some x -> a < next0) ->
  (get_sidx s = true -> reg_agree reg srcs) ->
  ser_node H ct pt current_nv s reg ids armed T = Some v -> node_depth T <= fuel ->
  exists n' st',
    deser_node H ct pt current_dv fuel s v {| ds_srcs := srcs; ds_reg := reg0; ds_ids := ids0; ds_next := next0 |} = Ok (n', st')
    /\ rt_ok H ct ids reg0 next0 (ds_reg st') (ds_ids st') T n'
    /\ reg_ext reg0 (ds_reg st')
    /\ (forall j, reg_find j reg0 = None -> reg_find j (ds_reg st') <> None ->
        exists m, In m (nodes T) /\ assoc_nat (addr m) ids = Some j).
Proof. exact tree_roundtrip. Qed.

(* the same for a tree built through the registry simulation in ANY registry state (binv: the ids in use, e.g. of
   content-identical twins outside the tree, so that ids carry _N suffixes; binv_init: any set of used ids is one):
   the ids handed out are pairwise different, nothing else is needed *)
Theorem C04_roundtrip_reuse : forall H ct pt s, ints_as_str s = false -> get_skip s = false -> is_test s = false ->
  (forall c f, In f (fields_of ct c) -> ~ In (fd_name f) reserved) ->
  forall T st0 armed reg0 ids0 next0 srcs v fuel,
  binv st0 -> let stb := build H ct T st0 in
  consistent T -> conforming ct pt s T -> no_takeover (b_ids stb) reg0 T ->
  (forall a x, assoc_nat a ids0 = Some x -> a < next0) ->
  (get_sidx s = true -> reg_agree (b_srcs stb) srcs) ->
  ser_node H ct pt current_nv s (b_srcs stb) (b_ids stb) armed T = Some v -> node_depth T <= fuel ->
  exists n' st',
    deser_node H ct pt current_dv fuel s v {| ds_srcs := srcs; ds_reg := reg0; ds_ids := ids0; ds_next := next0 |} = Ok (n', st')
    /\ rt_ok H ct (b_ids stb) reg0 next0 (ds_reg st') (ds_ids st') T n'
    /\ reg_ext reg0 (ds_reg st')
    /\ (forall j, reg_find j reg0 = None -> reg_find j (ds_reg st') <> None ->
        exists m, In m (nodes T) /\ assoc_nat (addr m) (b_ids stb) = Some j).
Proof. exact built_roundtrip. Qed.
Theorem C04_build_ids : (forall used, binv {| b_ids := []; b_used := used; b_srcs := [] |}) /\
  (forall H ct n st, binv st -> binv (build H ct n st)) /\
  (forall H ct n st t, binv st -> ids_injective (b_ids (build H ct n st)) t).
Proof. exact (conj binv_init (conj build_binv build_injective)). Qed.

(* the premise "ser_node ... = Some v" (as_dict does not raise) of the theorems above holds for every consistent tree
   serialized right after it was built into a state that knew none of its addresses, under EVERY option set (with
   index-based sources: every source of every origin, the SourceSets of multi-origins included, is in the registry) *)
Theorem C04_serializes : forall H ct pt s T st0, consistent T -> binv st0 -> b_ids st0 = [] ->
  let stb := build H ct T st0 in
  exists v, ser_node H ct pt current_nv s (b_srcs stb) (b_ids stb) [] T = Some v.
Proof. exact build_serializes. Qed.

(* none of the originals alive - a fresh process: an EMPTY node registry (so rt_reused is impossible: every position
   of the result is a new node under the serialized id) and a source registry rebuilt from Source.all_as_dict() *)
Theorem C04_roundtrip_fresh : forall H ct pt s, ints_as_str s = false -> get_skip s = false -> is_test s = false ->
  (forall c f, In f (fields_of ct c) -> ~ In (fd_name f) reserved) ->
  forall T st0 armed next0 v fuel sfuel,
  binv st0 -> let stb := build H ct T st0 in
  consistent T -> conforming ct pt s T ->
  (forall y, In y (b_srcs stb) -> source_depth y <= sfuel) ->
  ser_node H ct pt current_nv s (b_srcs stb) (b_ids stb) armed T = Some v -> node_depth T <= fuel ->
  exists ds srcs, all_as_dict (b_srcs stb) = Some ds /\ load_sources sfuel ds [] = Ok srcs /\
  exists n' st',
    deser_node H ct pt current_dv fuel s v {| ds_srcs := srcs; ds_reg := []; ds_ids := []; ds_next := next0 |} = Ok (n', st')
    /\ rt_ok H ct (b_ids stb) [] next0 (ds_reg st') (ds_ids st') T n'
    /\ (forall j, reg_find j (ds_reg st') <> None -> exists m, In m (nodes T) /\ assoc_nat (addr m) (b_ids stb) = Some j).
Proof. exact built_roundtrip_fresh_process. Qed.

(* all of the originals alive (it suffices that the root is): reading is a registry lookup; the result is the original
   tree itself, address for address, and no state changes *)
Theorem C04_roundtrip_all_alive : forall H ct pt s, is_test s = false ->
  (forall c f, In f (fields_of ct c) -> ~ In (fd_name f) reserved) ->
  forall reg ids armed T v fuel st i,
  ser_node H ct pt current_nv s reg ids armed T = Some v ->
  assoc_nat (addr T) ids = Some i -> reg_find i (ds_reg st) = Some T ->
  deser_node H ct pt current_dv (S fuel) s v st = Ok (T, st).
Proof. exact tree_all_alive. Qed.

(* a node that occurred at several positions is one object again; two objects are not merged into one *)
Theorem C04_sharing : forall H ct ids reg0 next0 regF idsF n1 n1' n2 n2',
  rt_ok H ct ids reg0 next0 regF idsF n1 n1' -> rt_ok H ct ids reg0 next0 regF idsF n2 n2' ->
  (addr n1 = addr n2 -> n1' = n2') /\
  ((forall i, assoc_nat (addr n1) ids = Some i -> assoc_nat (addr n2) ids = Some i -> addr n1 = addr n2) ->
   addr n1 < next0 -> addr n2 < next0 -> addr n1' = addr n2' -> addr n1 = addr n2).
Proof. exact rt_sharing. Qed.

(* "the result is therefore == to the original": ASTNode.__eq__ (Model/Equality.v eqn: class, content_id, then the
   origins of both dfs streams position by position) answers True; the result is a well-formed, content-equal tree *)
Theorem C04_eq : forall H ct ids reg0 next0 regF idsF n n',
  rt_ok H ct ids reg0 next0 regF idsF n n' -> wf_node ct n = true ->
  eqn H ct current n n' = EqTrue /\ wf_node ct n' = true /\ ceq ct n n'.
Proof. exact rt_eq. Qed.

(* the premises are inhabited: the worked tree (every origin kind incl. a multi-origin and a source set with NoSource, a
   child shared between two fields, content-identical twins, optional / tuple / path values) built into a registry in
   which a twin of one leaf is registered (so that two leaves get the ids ..._1 and ..._2), without options and with
   sort_keys + index-based sources *)
Example C04_tree_inhabited :
  (forall c f, In f (fields_of x_ct c) -> ~ In (fd_name f) reserved) /\ consistent x_tree /\ binv x_st0
  /\ conforming x_ct x_pt slots0 x_tree /\ conforming x_ct x_pt x_s1 x_tree /\ wf_node x_ct x_tree = true
  /\ ((exists v, ser_node x_H x_ct x_pt current_nv slots0 (b_srcs x_stb) (b_ids x_stb) [] x_tree = Some v)
      /\ (exists v, ser_node x_H x_ct x_pt current_nv x_s1 (b_srcs x_stb) (b_ids x_stb) [] x_tree = Some v)
      /\ node_depth x_tree <= 6 /\ (forall y, In y (b_srcs x_stb) -> source_depth y <= 2))
  /\ (assoc_nat 3 (b_ids x_stb) = Some (x_H (id_data x_H x_ct current x_leaf2) ++ lit "_1")
      /\ assoc_nat 4 (b_ids x_stb) = Some (x_H (id_data x_H x_ct current x_leaf2) ++ lit "_2")).
Proof.
  exact (conj ex_names (conj ex_consistent (conj (binv_init _) (conj (ex_conforming slots0 eq_refl)
        (conj (ex_conforming x_s1 eq_refl) (conj ex_wf (conj ex_serializes ex_suffix))))))).
Qed.

(* a kernel-evaluated instance (kept from the earlier, partial state of this file): the worked tree into an empty node
   registry x {no options, sort_keys + index sources} x {same, reloaded source registry}: position-wise class, id,
   content_id, props, origin; all nodes new; the same sharing pattern *)
Theorem C04_roundtrip_worked_example :
  rt_check od_empty false = true /\ rt_check od_empty true = true /\ rt_check sort_idx false = true /\ rt_check sort_idx true = true.
Proof. exact example_roundtrip. Qed.

(* calibration mutant deser_no_force_id: a node whose id carried a collision suffix comes back under another id *)
Theorem C04_refuted_no_force_id : forced_ids {| dv_force := false |} = false /\ forced_ids current_dv = true.
Proof. exact refuted_no_force_id. Qed.
