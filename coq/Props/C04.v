(* C04 - Serialization round-trips trees exactly in dict, JSON, MessagePack and YAML.
   ONLY statements; proofs are `exact <lemma of Proofs/SerialProofs.v>`. Model: Model/Serial.v
   (orjson / msgpack / yaml are the identity on the JSON-like value: assumption, exercised by the harness).
   Proved for all inputs: property values, code points/ranges, sources through the source registry (plain and
   index-based), the No* singletons. Origins and whole trees: only the _partial statements at the end. *)
From Oak Require Import Model.SerOpts Model.Serial Proofs.SerialProofs.

(* every property value of a representable kind that conforms to its annotation comes back unchanged
   (strings, 64-bit and larger ints, floats by repr, bools, None, enums by value, paths, tuples, optionals) *)
Theorem C04_value_roundtrip : forall s, ints_as_str s = false ->
  forall t v, wt s t v -> deser_pval s t (ser_pval s t v) = Some v.
Proof. exact pval_roundtrip. Qed.
Example C04_value_inhabited :
  let ms := [(lit "RED", VInt 1%Z); (lit "GREEN", VStr (lit "g"))] in
  wt slots0 (TyTup (TyOpt (TyEnum (lit "Color") ms))) (VTuple [VEnum (lit "Color") (lit "GREEN") (VStr (lit "g")); VNone])
  /\ wt slots0 (TyOpt TyInt) (VInt (-9223372036854775808)%Z) /\ wt slots0 TyPath (VPath (lit "a/b")).
Proof.
  split; [|split].
  - cbn [wt]. eexists; split; [reflexivity|]. constructor; [|constructor; [|constructor]].
    + split; [exact I|]. right. split; [do 2 eexists; split; reflexivity|discriminate].
    + split; [exact I|]. left. reflexivity.
  - cbn [wt]. split; [exact I|]. right. split; [eauto|discriminate].
  - cbn [wt]. eauto.
Qed.

(* code points and ranges (for every option subset without tag suppression, sorted or not) *)
Theorem C04_point_roundtrip : forall s p, ints_as_str s = false -> get_skip s = false -> wf_point p ->
  deser_point s (ser_point s p) = Ok p.
Proof. exact point_roundtrip. Qed.
Theorem C04_range_roundtrip : forall s r, ints_as_str s = false -> get_skip s = false -> wf_range r ->
  deser_range s (ser_range s r) = Ok r.
Proof. exact range_roundtrip. Qed.

(* sources of every kind, source sets included, in ANY state of the source registry at reading time (fresh
   process included): the source handed back is == to the original (raw text is not part of ==) *)
Theorem C04_source_roundtrip : forall s, get_sidx s = false -> get_skip s = false ->
  forall x reg0 v fuel reg, ser_source s reg0 x = Some v -> source_depth x <= fuel ->
  exists x' reg', deser_source fuel v reg = Ok (x', reg') /\ source_eqb x' x = true.
Proof. exact source_roundtrip. Qed.
Example C04_source_inhabited :
  exists v, ser_source slots0 [] (SSet [SText (lit "u") (lit "T"); SNo; SMem (lit "m") (Some (lit "raw")); SFile (lit "d/f")]) = Some v.
Proof. eexists. reflexivity. Qed.

(* the three placeholders come back as the same singletons *)
Theorem C04_singletons : forall s reg fuel,
  ser_source s reg SNo = Some (JMap []) /\ deser_source (S fuel) (JMap []) reg = Ok (SNo, reg)
  /\ ser_origin s reg ONo = Some (JMap []) /\ deser_origin (S fuel) s (JMap []) reg = Ok (ONo, reg).
Proof. exact singletons. Qed.

(* index-based sources: an index reference resolves to a source == to the original in every registry that holds
   equal sources at the same indices. PARTIAL: that load_serialized_sources(all_as_dict()) rebuilds such a registry in
   a fresh process is not proved for all registries (checked on the worked tree below and by the harness). *)
Theorem C04_source_index_partial : forall s' x reg reg' i fuel, get_sidx s' = true -> x <> SNo ->
  ser_source s' reg x = Some (JMap [kv "idx" (JInt (Z.of_nat i))]) ->
  (forall y, nth_error reg i = Some y -> exists y', nth_error reg' i = Some y' /\ source_eqb y' y = true) ->
  exists y', deser_source (S fuel) (JMap [kv "idx" (JInt (Z.of_nat i))]) reg' = Ok (y', reg') /\ source_eqb y' x = true.
Proof. exact source_index_roundtrip. Qed.
Example C04_source_index_inhabited :
  ser_source {| sl_opts := sort_idx; sl_md := None |} [SFile (lit "a"); x_src] x_src = Some (JMap [kv "idx" (JInt (Z.of_nat 1))]).
Proof. reflexivity. Qed.

(* PARTIAL (origins, whole trees, sharing): NOT proved for all trees. What is kernel-checked is the round trip of one
   worked tree (every origin kind incl. a multi-origin and a source set with NoSource, a child shared between two
   fields, a content-identical twin whose id carries a _1 suffix, optional / tuple / path values) into an EMPTY node
   registry, with and without sort_keys + index-based sources, with the same and with a cleared-and-reloaded source
   registry: position-wise equal class, id, content_id, property values, origin (==), all nodes new, and two
   positions hold one object exactly when they did in the original. Missing: the induction over origins and nodes
   with the registries threaded (C04_origin_roundtrip, C04_roundtrip, C04_sharing, C04_reg_inv of DESIGN 3). *)
Theorem C04_roundtrip_partial :
  rt_check od_empty false = true /\ rt_check od_empty true = true /\ rt_check sort_idx false = true /\ rt_check sort_idx true = true.
Proof. exact example_roundtrip. Qed.

(* calibration mutant deser_no_force_id: a node whose id carried a collision suffix comes back under another id *)
Theorem C04_refuted_no_force_id : forced_ids {| dv_force := false |} = false /\ forced_ids current_dv = true.
Proof. exact refuted_no_force_id. Qed.
