(* C16 - Serialization options apply to the whole call and to nothing after it.
   ONLY statements; proofs are `exact <lemma of Proofs/SerOptsProofs.v>`.
   Model: Model/SerOpts.v (slots, call wrapper, hooks), Model/Serial.v (ser_node and what it nests). *)
From Oak Require Import Model.SerOpts Model.Serial Proofs.SerOptsProofs.

(* ---- nothing afterwards: whatever the run does (any output, a raise at any nested object), the two slots
   are back at their defaults when as_dict / as_obj returns or raises *)
Theorem C16_reset : forall (A : Type) dir given md (run : slots -> outcome A) s,
  fst (call current_w dir given md run s) = slots0.
Proof. exact @call_resets. Qed.
(* from_json / from_msgpck / from_yaml: undecodable bytes raise before the slots are touched *)
Theorem C16_reset_decoded : forall (A : Type) dec given md (run : slots -> outcome A),
  fst (call_decoded current_w dec given md run slots0) = slots0.
Proof. exact @call_decoded_resets. Qed.
(* lifted to histories: a call after ANY history of calls (each with any options, any dialect, returning or
   raising anywhere) has the outcome it has in the initial state *)
Theorem C16_later_default : forall (cs : list acall) (c : acall),
  snd (exec1 current_w (fst (exec current_w slots0 cs)) c) = snd (exec1 current_w slots0 c).
Proof. exact later_default. Qed.
(* the whole call: the run of a call (hence every nested object of it, ser_node passes the slots down unchanged)
   sees exactly the call's own options and dialect, after any history *)
Theorem C16_whole_call : forall (cs : list acall) (c : acall),
  (ac_dir c = DirSer \/ ac_decodable c = true) ->
  snd (exec1 current_w (fst (exec current_w slots0 cs)) c) = ac_run c (own_slots c).
Proof. exact whole_call. Qed.
Example C16_whole_call_inhabited : ac_dir default_call = DirSer \/ ac_decodable default_call = true.
Proof. left. reflexivity. Qed.

(* ---- shapes of EVERY nested mapping of a serialized tree, for every option subset (s is arbitrary apart
   from the option the clause is about) *)
Definition names_ok (ct : ctable) : Prop :=
  forall c f, In f (fields_of ct c) -> fd_name f <> type_key /\ fd_name f <> lit "origin".

Theorem C16_sorted_shape : forall H ct pt s reg ids armed n v,
  names_ok ct -> get_sort s = true ->
  ser_node H ct pt current_nv s reg ids armed n = Some v ->
  all_maps (fun m => tag_first_sorted m = true) v.
Proof. intros H ct pt s reg ids armed n v Hn Hs. exact (ser_node_shape s _ (shape_sorted s Hs) H ct pt Hn reg ids armed n v). Qed.

Theorem C16_skip_class_shape : forall H ct pt s reg ids armed n v,
  names_ok ct -> get_skip s = true ->
  ser_node H ct pt current_nv s reg ids armed n = Some v ->
  all_maps (fun m => no_tag m = true) v.
Proof. intros H ct pt s reg ids armed n v Hn Hs. exact (ser_node_shape s _ (shape_no_tag s Hs) H ct pt Hn reg ids armed n v). Qed.

(* by default (no tag suppression, no test dialect): every mapping is tagged, except the empty No* placeholders
   and index references *)
Theorem C16_default_tags : forall H ct pt s reg ids armed n v,
  names_ok ct -> get_skip s = false -> is_test s = false ->
  ser_node H ct pt current_nv s reg ids armed n = Some v ->
  all_maps (fun m => tagged_or_placeholder m = true) v.
Proof.
  intros H ct pt s reg ids armed n v Hn Hs Ht.
  exact (ser_node_shape s _ (shape_default s (conj Hs Ht)) H ct pt Hn reg ids armed n v).
Qed.

Theorem C16_explorer_children : forall H ct pt s reg ids armed n m,
  (forall c f, In f (fields_of ct c) -> fd_name f <> children_key) ->
  is_explorer s = true ->
  ser_node H ct pt current_nv s reg ids armed n = Some (JMap m) ->
  jget children_key m = Some (JList (map JStr (get_child_fields ct (cls n)))).
Proof. exact explorer_children. Qed.

(* the premises are inhabited: a two-class table, a tree with a shared child and a multi-origin *)
Definition ex_ct : ctable :=
  [ {| cd_name := lit "Leaf"; cd_bases := [];
       cd_own := [ {| fd_name := lit "v"; fd_role := RProp; fd_compare := true; fd_init := true; fd_kwonly := false |} ] |};
    {| cd_name := lit "Par"; cd_bases := [];
       cd_own := [ {| fd_name := lit "kids"; fd_role := RChild KTup; fd_compare := true; fd_init := true; fd_kwonly := false |};
                   {| fd_name := lit "b"; fd_role := RProp; fd_compare := true; fd_init := true; fd_kwonly := false |} ] |} ].
Definition ex_pt : ptab :=
  [ (lit "Leaf", [ {| pd_name := lit "v"; pd_ty := TyInt; pd_default := None |} ]);
    (lit "Par", [ {| pd_name := lit "b"; pd_ty := TyStr; pd_default := None |} ]) ].
Definition ex_src : source := SText (lit "u") (lit "T").
Definition ex_leaf : node := Node 2 (lit "Leaf") (OMulti [OGen ex_src; OXml (SFile (lit "f.xml")) (lit "/a")]) [(lit "v", VInt 7%Z)] [].
Definition ex_tree : node := Node 1 (lit "Par") (OGen ex_src) [(lit "b", VStr (lit "x"))] [(lit "kids", (ShMany, [ex_leaf; ex_leaf]))].
Definition ex_H (x : pystr) : pystr := dec (length x).
Definition ex_built : bstate := build ex_H ex_ct ex_tree {| b_ids := []; b_used := []; b_srcs := [] |}.
Definition ex_slots (o : optdict) : slots := {| sl_opts := o; sl_md := None |}.

Example C16_names_ok_inhabited : names_ok ex_ct /\ (forall c f, In f (fields_of ex_ct c) -> fd_name f <> children_key).
Proof.
  assert (E : forall c f, In f (fields_of ex_ct c) -> fd_name f = lit "v" \/ fd_name f = lit "kids" \/ fd_name f = lit "b").
  { intros c f. unfold fields_of. unfold ex_ct at 1. cbn [find_class cd_name].
    destruct (pystr_eqb (lit "Leaf") c).
    - vm_compute. intros [ <- | [] ]. left. reflexivity.
    - destruct (pystr_eqb (lit "Par") c).
      + vm_compute. intros [ <- | [ <- | [] ] ]; [right; left; reflexivity|right; right; reflexivity].
      + intros []. }
  split; [intros c f Hf; destruct (E c f Hf) as [ -> | [ -> | -> ] ]; split; discriminate
         |intros c f Hf; destruct (E c f Hf) as [ -> | [ -> | -> ] ]; discriminate].
Qed.
Example C16_shapes_inhabited :
  let all_on := {| od_skip := Some true; od_sort := Some true; od_dial := Some DTest; od_sidx := Some true |} in
  (exists v, ser_node ex_H ex_ct ex_pt current_nv (ex_slots all_on) (b_srcs ex_built) (b_ids ex_built) [] ex_tree = Some v
             /\ all_mapsb tag_first_sorted v = true /\ all_mapsb no_tag v = true)
  /\ (exists v, ser_node ex_H ex_ct ex_pt current_nv slots0 (b_srcs ex_built) (b_ids ex_built) [] ex_tree = Some v
                /\ all_mapsb tagged_or_placeholder v = true /\ length (key_lists v) = 42)
  /\ (exists m, ser_node ex_H ex_ct ex_pt current_nv (ex_slots {| od_skip := None; od_sort := Some true; od_dial := Some DExplorer; od_sidx := None |})
                         (b_srcs ex_built) (b_ids ex_built) [] ex_tree = Some (JMap m)
                /\ map fst m = [type_key; children_key; lit "b"; lit "content_id"; lit "id"; lit "kids"; lit "origin"]).
Proof. vm_compute. repeat split; eexists; repeat split; reflexivity. Qed.

(* ---- the behaviour before the repairs / of the calibration mutants, on witnesses ---- *)
(* D16: before the repair the explorer dialect appended _children after the sorted keys *)
Theorem C16_refuted_children_unsorted :
  tag_first_sorted (node_post {| v_d16 := false; v_stub := true |} sorted_explorer (lit "A") [lit "kid"] wit_fields) = false
  /\ tag_first_sorted (node_post current_nv sorted_explorer (lit "A") [lit "kid"] wit_fields) = true.
Proof. exact refuted_children_unsorted. Qed.
(* D20: before the repair the test dialect's source stub kept its tag under SKIP_CLASS *)
Theorem C16_refuted_skip_class_test_stub :
  all_mapsb no_tag (JMap (node_post {| v_d16 := true; v_stub := false |} skip_test (lit "A") [] wit_fields)) = false
  /\ all_mapsb no_tag (JMap (node_post current_nv skip_test (lit "A") [] wit_fields)) = true.
Proof. exact refuted_skip_class_test_stub. Qed.
(* D21: ... and listed source_uri before source_type under SORT_KEYS *)
Theorem C16_refuted_sorted_test_stub :
  all_mapsb tag_first_sorted (JMap (node_post {| v_d16 := true; v_stub := false |} sorted_test (lit "A") [] wit_fields)) = false
  /\ all_mapsb tag_first_sorted (JMap (node_post current_nv sorted_test (lit "A") [] wit_fields)) = true.
Proof. exact refuted_sorted_test_stub. Qed.
(* mutant ser_opts_no_finally: the options of a call that raised leak into the next call *)
Theorem C16_refuted_no_finally :
  let w := {| w_finally := false; w_clear_deser := true |} in
  snd (exec1 w (fst (exec w slots0 [raising_call])) default_call) <> snd (exec1 w slots0 default_call).
Proof. exact refuted_no_finally. Qed.
(* mutant ser_opts_not_cleared_on_deser *)
Theorem C16_refuted_not_cleared_on_deser :
  let w := {| w_finally := true; w_clear_deser := false |} in
  snd (exec1 w (fst (exec w slots0 [deser_call])) default_call) <> snd (exec1 w slots0 default_call).
Proof. exact refuted_not_cleared_on_deser. Qed.
