(* C20 - Legacy traversal and legacy XPath follow the same semantics as their successors.
   ONLY statements; proofs are `exact <lemma of Proofs/LegacyTravProofs.v or Proofs/LegacyXpathProofs.v>`.

   Vocabulary.  A legacy object of an ATTACHED tree built by construction is [lobj]: the stored node (identity =
   [addr]) and what its attributes parent / parent_field / parent_index say (Model/LegacyTrav.v); the objects below
   an object are [of_tinfo ti] for the stored positions ti (= C05's NodeTraversalInfo).  [ldfs] / [lbfs] / [lgather]
   are the deque machines of legacy/node.py with fuel.  [lpre] / [lpost] / [llevels] (Spec/LegacyTravSpec.v) = C05's
   recursive orders pre / post / levels_from (Spec/TraverseSpec.v) with the start object in front (behind for
   bottom-up) unless skipped; filtered out => not yielded; pruned => nothing below it.  prune / filt are arbitrary
   functions of the object.  [wf_node] = the tree conforms to its class declarations; [ct_child_init] = every child
   field is an __init__ parameter (legacy _is_field_child ignores others).
   XPath: [legacy_match ct x root l] = ASTXpath(x).match(node at path l below the attached root), through the
   legacy transformer and the recursion up the parent chain (Model/LegacyXpath.v); [R] = the documented meaning of
   C07 (Spec/PathSem.v) on the elements [to_elements x] of the CURRENT module and the chain root .. node.
   Index digits: both transformers read the whole number (tr_element, after repair D5). *)
From Oak Require Import Spec.LegacyTravSpec Spec.LegacyPathSpec Proofs.TraverseProofs Proofs.TreeQProofs Proofs.XpathProofs
     Proofs.LegacyTravProofs Proofs.LegacyXpathProofs.

(* ---------------- traversal ---------------- *)
Theorem C20_dfs_pre : forall ct, ct_child_init ct = true -> forall prune filt skip_self s,
  wf_node ct (lo_node s) = true ->
  ldfs ct prune filt (size (lo_node s)) false skip_self s = Some (lpre prune filt skip_self s).
Proof. exact ldfs_pre. Qed.
Theorem C20_dfs_post : forall ct, ct_child_init ct = true -> forall prune filt skip_self s,
  wf_node ct (lo_node s) = true ->
  ldfs ct prune filt (size (lo_node s)) true skip_self s = Some (lpost prune filt skip_self s).
Proof. exact ldfs_post. Qed.
Theorem C20_bfs : forall ct, ct_child_init ct = true -> forall prune filt skip_self s,
  wf_node ct (lo_node s) = true ->
  lbfs ct prune filt (size (lo_node s)) skip_self s = Some (llevels prune filt skip_self s).
Proof. exact lbfs_levels. Qed.
Theorem C20_gather : forall ct classes exact extra prune skip_self s,
  ct_child_init ct = true -> wf_node ct (lo_node s) = true ->
  lgather ct (size (lo_node s)) classes exact extra prune skip_self s
  = Some (lpre prune (fun o => lclass_filter ct classes exact o && extra o) skip_self s).
Proof. exact lgather_spec. Qed.

(* the legacy loops are step-for-step the C05 machines on the positions below the start node *)
Theorem C20_sim_top_down : forall ct, ct_child_init ct = true -> forall prune filt fuel st acc pfx,
  ldfs_loop ct prune filt fuel false false (map of_tinfo st) (pfx ++ map of_tinfo (rev acc))
  = option_map (fun r => pfx ++ map of_tinfo r) (dfs_td ct (on_pos prune) (on_pos filt) fuel st acc).
Proof. exact sim_td. Qed.
Theorem C20_sim_bottom_up : forall ct, ct_child_init ct = true -> forall prune filt fuel st acc sfx,
  ldfs_loop ct prune filt fuel true false (map of_tinfo st) (map of_tinfo acc ++ sfx)
  = option_map (fun r => map of_tinfo r ++ sfx) (dfs_bu ct (on_pos prune) (on_pos filt) fuel st acc).
Proof. exact sim_bu. Qed.
Theorem C20_sim_bfs : forall ct, ct_child_init ct = true -> forall prune filt fuel q acc pfx,
  lbfs_loop ct prune filt fuel false (map of_tinfo q) (pfx ++ map of_tinfo (rev acc))
  = option_map (fun r => pfx ++ map of_tinfo r) (bfs_run ct (on_pos prune) (on_pos filt) fuel q acc).
Proof. exact sim_bfs. Qed.

(* what the legacy code sees as children (value-based _is_field_child over dataclass fields) = C05's accessor *)
Theorem C20_children : forall ct o, ct_child_init ct = true ->
  lget_child_nodes ct o = map of_tinfo (infos ct (lo_node o)).
Proof. exact lget_infos. Qed.
(* every object yielded below the start node sits where its parent attributes say *)
Theorem C20_info_sound : forall ct prune filt s o, wf_node ct (lo_node s) = true ->
  In o (map of_tinfo (pre (on_pos prune) (on_pos filt) (lo_node s))) ->
  exists p f i, lo_pos o = Some (p, f, i) /\ child_at p f i = Some (lo_node o).
Proof. exact lpre_info_sound. Qed.

(* ---------------- xpath ---------------- *)
(* for every xpath the grammar accepts (a class on the last step), every tree and every path l into it:
   both modules compile it, legacy match returns a verdict, and the verdict is the documented semantics of C07 on
   the chain root .. node *)
Theorem C20_match_sem : forall ct x root l, well_formed x = true -> legacy_match_agrees ct x root l.
Proof. exact legacy_match_sem. Qed.
(* for a node n of a tree without repeated node objects: the verdict is C07's sem (some path to n satisfies R) *)
Theorem C20_match_sem_tree : forall ct x root l n, well_formed x = true -> nodup_tree root -> path root l n ->
  exists els b, to_elements x = Some els /\ legacy_match ct x root l = Some b /\ (b = true <-> sem ct els root n).
Proof. exact legacy_match_sem_tree. Qed.
(* the same for an arbitrary chain of positions (leaf first for the legacy recursion) *)
Theorem C20_chain_sem : forall ct x els lels ps, to_elements x = Some els -> legacy_elements x = Some lels ->
  (lmatch ct (rev ps) lels = true <-> R ct els ps).
Proof. exact legacy_chain_sem. Qed.
(* the legacy recursion IS the current module's bottom-up recursion M on the same steps *)
Theorem C20_match_is_current : forall ct x els lels, to_elements x = Some els -> legacy_elements x = Some lels ->
  els <> [] /\ forall rc, lmatch ct rc lels = M ct (rev els) rc.
Proof. exact legacy_elements_M. Qed.
(* rejected exactly when the grammar rejects it (model level: no class on the last step; the text level and
   "no other exception" are the correspondence run's) *)
Theorem C20_rejects_partial : forall x, well_formed x = false -> legacy_elements x = None.
Proof. exact legacy_rejects. Qed.
Theorem C20_accepts : forall x, well_formed x = true -> exists lels, legacy_elements x = Some lels.
Proof. exact legacy_accepts. Qed.

(* calculate_xpath on an attached root assigns exactly the objects of the tree, each the string
   /@root[0]Cls/@field[index or 0]Cls... spelled by its chain (xpath_of, the strings of C06) *)
Theorem C20_xpath_strings : forall ct, ct_child_init ct = true -> forall root, wf_node ct root = true ->
  exists L, calculate_xpath ct (size root) (root_obj root) = Some (XpOk L) /\ xpaths_spelled root L.
Proof. exact calculate_xpath_spec. Qed.

(* ---------------- premises are inhabited ---------------- *)
(* the six-node tree of legacy test_walkers *)
Example C20_nonvacuous_trav :
  ct_child_init lw_ct = true /\ wf_node lw_ct lw_root = true /\ size lw_root = 6
  /\ lw_addrs (ldfs lw_ct lw_none lw_all 6 false false (root_obj lw_root)) = Some [0; 1; 2; 3; 4; 5]
  /\ lw_addrs (ldfs lw_ct lw_none lw_all 6 true true (root_obj lw_root)) = Some [2; 1; 5; 4; 3]
  /\ lw_addrs (lbfs lw_ct lw_none lw_all 6 false (root_obj lw_root)) = Some [0; 1; 3; 2; 4; 5].
Proof. vm_compute. repeat split. Qed.
(* "/Root/[0]Middle//Nested" (ex_x) on the tree of legacy test_xpath_match: matches n (under middle_tuple[0]), not n2 *)
Example C20_nonvacuous_xpath :
  well_formed ex_x = true /\ ct_child_init lx_ct = true /\ wf_node lx_ct lx_root = true /\ nodup_tree lx_root
  /\ path lx_root lx_path_n lx_n /\ path lx_root lx_path_n2 lx_n2
  /\ legacy_match lx_ct ex_x lx_root lx_path_n = Some true /\ legacy_match lx_ct ex_x lx_root lx_path_n2 = Some false.
Proof. exact xpath_inhabited. Qed.

(* ---------------- the code before repair D5 ---------------- *)
(* with `int(args[0])` (first digit only; legacy_elements_d5) "/Root/@middle_tuple[12]Middle" (ex_x12) matches the
   node stored at index 1 (ex_path_m2), which the documented semantics (R on the current module's elements) rejects *)
Theorem C20_refuted_single_digit :
  exists els lels, well_formed ex_x12 = true /\ path lx_root ex_path_m2 lx_m2
    /\ to_elements ex_x12 = Some els /\ legacy_elements_d5 ex_x12 = Some lels
    /\ lmatch lx_ct (lchain lx_root ex_path_m2) lels = true
    /\ ~ R lx_ct els (chain lx_root ex_path_m2).
Proof. exact d5_refuted. Qed.
