(* C11 - Every field annotation is soundly classified as child, property, or rejected.
   ONLY statements; proofs are `exact <lemma of Proofs/ClassifyProofs.v>`.
   Model: Model/Classify.v - classify vnt t (the loop body of process_node_fields / check_annotations on a resolved
   annotation), field_type (get_field_types), first_use (process_node_fields), def_check (check_annotations), run_chain.
   Variant flags: as_property = {v_nt; v_fwd = true} is what the property demands (= /repo with the repairs of the
   findings D14 and D20 proposed in design.d/C11.md), as_code = the code as it is in /repo.
   Spec: Spec/AnnotSpec.v - child_shape, mentions_node, mentions_mutable.  Terms of every depth. *)
From Oak Require Import Model.Classify Spec.AnnotSpec Proofs.ClassifyProofs.

(* a child field exactly on: node class | union of node classes (optionally None) | fixed / variadic tuple of
   node classes or None-free unions of them.  Holds with and without the repair, for every term. *)
Theorem C11_child_iff : forall vnt t, classify vnt t = VChild <-> child_shape t = true.
Proof. exact child_iff. Qed.
(* a property exactly when neither a node class nor a mutable collection is mentioned anywhere *)
Theorem C11_prop_iff : forall t, fwd_free t = true ->
  (classify true t = VProp <-> mentions_node t = false /\ mentions_mutable t = false).
Proof. exact prop_iff. Qed.
(* "never silently treated as a property" *)
Theorem C11_prop_sound : forall t, fwd_free t = true -> mentions_node t = true -> classify true t <> VProp.
Proof. exact never_silently_prop. Qed.
(* the code as it is: the same, provided no NewType wraps something that mentions a node class (finding D14) *)
Theorem C11_prop_iff_code_partial : forall t, fwd_free t = true -> nt_hides_node t = false ->
  (classify false t = VProp <-> mentions_node t = false /\ mentions_mutable t = false).
Proof. exact prop_iff_code_partial. Qed.
(* is_valid_property_type is "no mutable collection anywhere" *)
Theorem C11_vprop_spec : forall t, vprop t = negb (mentions_mutable t).
Proof. exact vprop_spec. Qed.

(* each field lands in exactly one class ... *)
Theorem C11_total_partition : forall v f,
  (is_vchild (verdict_of v f) = true /\ is_vprop (verdict_of v f) = false /\ (forall r, verdict_of v f <> VReject r))
  \/ (is_vchild (verdict_of v f) = false /\ is_vprop (verdict_of v f) = true /\ (forall r, verdict_of v f <> VReject r))
  \/ (is_vchild (verdict_of v f) = false /\ is_vprop (verdict_of v f) = false /\ exists r, verdict_of v f = VReject r).
Proof. exact total_partition. Qed.
(* ... and process_node_fields reports exactly that: the child names, the property names, or the rejected ones *)
Theorem C11_first_use_spec : forall v fs,
  first_use v fs =
  match rejects v fs with
  | [] => OFields (names_where is_vchild v fs) (names_where is_vprop v fs)
  | b => OReject b
  end.
Proof. exact first_use_spec. Qed.
(* a rejected annotation raises InvalidFieldAnnotations at the first use at the latest, whatever happened at definition *)
Theorem C11_reject_by_first_use : forall v fs f r, In f fs -> verdict_of v f = VReject r ->
  exists bad, first_use v fs = OReject bad /\ In (af_name f, r) bad.
Proof. exact reject_by_first_use. Qed.
Theorem C11_accepted_fields_partition : forall v fs ch pr, first_use v fs = OFields ch pr ->
  ch = names_where is_vchild v fs /\ pr = names_where is_vprop v fs /\
  forall f, In f fs -> (is_vchild (verdict_of v f) || is_vprop (verdict_of v f)) = true.
Proof. exact accepted_fields_partition. Qed.
(* when the definition-time check runs it says what the first use will say *)
Theorem C11_def_agrees_first_use : forall bound anns fs,
  match def_check as_property bound anns fs with
  | DReject bad => first_use as_property fs = OReject bad
  | DOk => exists ch pr, first_use as_property fs = OFields ch pr
  | DSkipped => True
  end.
Proof. exact def_agrees_first_use. Qed.

(* plain and postponed (string) annotations: same resolved type, same verdict *)
Theorem C11_plain_eq_postponed : forall n t,
  verdict_of as_property {| af_name := n; af_quoted := false; af_ty := t |} =
  verdict_of as_property {| af_name := n; af_quoted := true; af_ty := t |}.
Proof. exact plain_eq_postponed_verdict. Qed.
(* the code as it is: only when every string forward reference is the whole annotation (finding D20) *)
Theorem C11_plain_eq_postponed_code_partial : forall n t, (fwd_free t = true \/ exists c, t = TFwd c) ->
  field_type as_code {| af_name := n; af_quoted := false; af_ty := t |} =
  field_type as_code {| af_name := n; af_quoted := true; af_ty := t |}.
Proof. exact plain_eq_postponed_code_partial. Qed.
(* a NewType wrapper of the annotation is transparent (NewType supertypes hold no strings: wf_ty) *)
Theorem C11_newtype_transparent : forall v n q t, fwd_free t = true ->
  field_type v {| af_name := n; af_quoted := q; af_ty := TNewType t |} =
  field_type v {| af_name := n; af_quoted := q; af_ty := t |}.
Proof. exact newtype_transparent. Qed.
(* inherited and overridden fields: the merged field list keeps inherited positions, its members come from the base or
   from the class, and (C11_first_use_spec) the verdict of a member depends on that member alone *)
Theorem C11_inherit_merge_in : forall own acc g, In g (merge_af acc own) -> In g acc \/ In g own.
Proof. exact merge_in. Qed.
Theorem C11_inherit_keeps_positions : forall own acc, exists extra, map af_name (merge_af acc own) = map af_name acc ++ extra.
Proof. exact merge_keeps_positions. Qed.

(* the code as it is, refuted (open findings) *)
Theorem C11_refuted_nested_newtype : classify false wit_d14 = VProp /\ mentions_node wit_d14 = true.
Proof. exact refuted_nested_newtype. Qed.
Theorem C11_refuted_nested_fwd :
  verdict_of as_code {| af_name := lit "x"; af_quoted := false; af_ty := wit_d20 |} = VProp /\
  verdict_of as_code {| af_name := lit "x"; af_quoted := true; af_ty := wit_d20 |} = VChild.
Proof. exact refuted_nested_fwd. Qed.

(* premises are inhabited by non-trivial values *)
Definition A := TNode (lit "A").
Definition B := TNode (lit "B").
Example ex_child : child_shape (TTuple [A; TUnion [A; B]]) = true /\ child_shape (TUnion [TNoneT; B; A]) = true
                   /\ child_shape (TTupleVar (TUnion [A; TNoneT])) = false /\ child_shape (TTuple []) = false
                   /\ child_shape (TUnion [TTupleVar A; TNoneT]) = false /\ child_shape (TTupleVar (TNewType A)) = false.
Proof. vm_compute. repeat split; reflexivity. Qed.
Definition ex_prop : ty := TUnion [TTupleVar (TNewType (TGen CMapping [TScalar SStr; TGen CFrozenset [TLiteral [XInt 1]]])); TNoneT].
Example ex_prop_ok : fwd_free ex_prop = true /\ mentions_node ex_prop = false /\ mentions_mutable ex_prop = false
                     /\ classify true ex_prop = VProp.
Proof. vm_compute. repeat split; reflexivity. Qed.
Example ex_nt_hides : fwd_free (TGen CSequence [TNewType A]) = true /\ mentions_node (TGen CSequence [TNewType A]) = true
                      /\ nt_hides_node (TTupleVar (TNewType (TScalar SInt))) = false.
Proof. vm_compute. repeat split; reflexivity. Qed.
Definition ex_fs : list afield :=
  [ {| af_name := lit "a"; af_quoted := false; af_ty := TNewType (TTupleVar A) |};
    {| af_name := lit "b"; af_quoted := true; af_ty := TGen CList [TFwd (lit "A")] |};
    {| af_name := lit "c"; af_quoted := false; af_ty := TUnion [TScalar SInt; TNoneT] |} ].
Example ex_first_use : first_use as_property ex_fs = OReject [(lit "b", RMutSeq)]
                       /\ first_use as_property (firstn 1 ex_fs ++ skipn 2 ex_fs) = OFields [lit "a"] [lit "c"]
                       /\ def_check as_property [lit "A"] ex_fs ex_fs = DReject [(lit "b", RMutSeq)]
                       /\ def_check as_property [lit "A"] (skipn 2 ex_fs) (skipn 2 ex_fs) = DOk.
Proof. vm_compute. repeat split; reflexivity. Qed.
Example ex_fwd_premise : fwd_free (TTupleVar (TUnion [A; B])) = true /\ (exists c, TFwd (lit "A") = TFwd c).
Proof. split; [reflexivity | eexists; reflexivity]. Qed.
