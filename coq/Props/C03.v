(* C03 - Registry holds exactly the live, not-detached nodes under unique ids.
   ONLY statements; proofs are `exact <lemma of Proofs/RegistryProofs.v>`.  Everything holds for EVERY digest H
   (collisions allowed: this is the "whatever the digest size" clause).  The state machine is Model/Registry.v;
   `step H ct late true` is the code in /repo (after the D4 repair and the forced-id repair of _deserialize),
   `step H ct late false` the code before them;
   `late` is ANY validation a user subclass performs in its own __post_init__ after super().__post_init__() has given
   the new node its id and registered it (late s a = true: it raises for the node at address a just built in state s). *)
From Oak Require Import Model.Registry Proofs.RegistryProofs Proofs.RegistryReach.
From Oak Require Import Model.RegistrySer Proofs.RegistrySerProofs.

(* ---- the invariant is inductive over every history of public operations ---- *)
Theorem C03_inv_init : forall n, RInv (init_st n).
Proof. exact inv_init. Qed.
Theorem C03_inv_step : forall H ct late s o, RInv s -> RInv (fst (step H ct late true s o)).
Proof. exact step_inv. Qed.
Theorem C03_inv_reachable : forall H ct late n l, RInv (run H ct late true (init_st n) l).
Proof. intros H ct late n l. exact (run_inv H ct late l _ (inv_init n)). Qed.
Example C03_ex_inv : RInv ex_state /\ length (reg ex_state) = 2 /\ det ex_state = [0].
Proof. split; [exact ex_state_inv|split; vm_compute; reflexivity]. Qed.

(* ---- lookups: get_any(i) returns a exactly when a is a node carrying id i that was neither detached /
        replaced away nor found unreferenced; what it returns is reachable from the program's variables ---- *)
Theorem C03_lookup_exact : forall s i a, RInv s ->
  (get_any s i = Some a <->
   exists c, cell_at s a = Some c /\ k_id c = i /\ ~ In a (det s) /\ ~ In a (gone s)).
Proof. exact lookup_exact. Qed.
Theorem C03_registered_reachable : forall s i a, RInv s -> get_any s i = Some a -> reachable s a = true.
Proof. exact registered_reachable. Qed.
Theorem C03_unreachable_not_returned : forall s a, RInv s -> reachable s a = false -> forall i, get_any s i <> Some a.
Proof. exact unreachable_not_returned. Qed.
Theorem C03_detached_not_returned : forall s a, RInv s -> In a (det s) -> forall i, get_any s i <> Some a.
Proof. exact detached_not_returned. Qed.
(* get(): the node get_any returns, and only for its own class (strict) / a superclass (strict=False) *)
Theorem C03_get_class : forall ct s cls i strict a, RInv s ->
  (get ct s cls i strict = Some a <->
   exists c, get_any s i = Some a /\ cell_at s a = Some c /\
             (if strict then k_cls c = cls else subclass ct (k_cls c) cls = true)).
Proof. exact get_class. Qed.
Example C03_ex_lookup :
  get_any ex_state (lit "n") = Some 2 /\ get_any ex_state (lit ")_1") = Some 1 /\ get_any ex_state (lit ")") = None
  /\ reachable ex_state 0 = true /\ get ex_ct ex_state (lit "A") (lit "n") false = None
  /\ get ex_ct ex_state (lit "ASTNode") (lit "n") false = Some 2.
Proof. vm_compute. repeat split. Qed.

(* ---- the main clause.  RInvS = RInv + "whatever a collection once found unreferenced is unreferenced now"; it is
        inductive as well, and under it the registry holds EXACTLY the nodes that are still referenced (reachable from
        the program's variables through child fields) and were not themselves detached / replaced away ---- *)
Theorem C03_invS_init : forall n, RInvS (init_st n).
Proof. exact invS_init. Qed.
Theorem C03_invS_step : forall H ct late s o, RInvS s -> RInvS (fst (step H ct late true s o)).
Proof. exact step_invS. Qed.
Theorem C03_invS_reachable : forall H ct late n l, RInvS (run H ct late true (init_st n) l).
Proof. intros H ct late n l. exact (run_invS H ct late l _ (invS_init n)). Qed.
Theorem C03_lookup_live : forall s i a, RInvS s ->
  (get_any s i = Some a <->
   exists c, cell_at s a = Some c /\ k_id c = i /\ ~ In a (det s) /\ reachable s a = true).
Proof. exact lookup_live. Qed.
Example C03_ex_live : RInvS ex_state /\ reachable ex_state 1 = true /\ get_any ex_state (lit ")_1") = Some 1
  /\ reachable ex_state 0 = true /\ In 0 (det ex_state) /\ get_any ex_state (lit ")") = None.
Proof. split; [exact (run_invS ex_H ex_ct no_late ex_ops _ (invS_init 4))|vm_compute; intuition]. Qed.

(* ---- ids of simultaneously registered nodes are pairwise different, whatever H ---- *)
Theorem C03_unique_ids : forall s a b ca cb, RInv s ->
  cell_at s a = Some ca -> cell_at s b = Some cb ->
  get_any s (k_id ca) = Some a -> get_any s (k_id cb) = Some b -> k_id ca = k_id cb -> a = b.
Proof. exact unique_ids. Qed.
Theorem C03_unique_ids_entries : forall s i a b, RInv s -> In (i, a) (reg s) -> In (i, b) (reg s) -> a = b.
Proof. exact unique_ids_entries. Qed.

(* ---- _get_next_unique_id terminates (pigeonhole: fuel = number of registered ids) and returns an unused id;
        no step of the machine ever exhausts a fuel ---- *)
Theorem C03_next_id_fuel : forall d r, exists i, next_unique d 0 (length r) r = Some i /\ lookup i r = None.
Proof. exact next_unique_ok. Qed.
Theorem C03_alloc_total : forall H ct s c o ps ks, alloc H ct s c o ps ks <> None.
Proof. exact alloc_some. Qed.
Theorem C03_no_fuel_out : forall H ct late s o, RInv s -> snd (step H ct late true s o) <> FuelOut.
Proof. exact step_no_fuel_out. Qed.

(* ---- a replace() that raises leaves the registry exactly as it was.  It may raise EARLY (dataclasses.replace rejects a
        non-init or unknown key before any object exists) or LATE (the class validates in its own __post_init__ after
        super().__post_init__(): the replacement has already been given an id - possibly the original's own, which
        detach_self had just freed - and registered when the exception leaves; the except-branch then writes the
        original back over whatever sits under its id).  In both cases: the variables are what they were, the heap has
        only grown (by the half-built node, which nothing can reach), and EVERY lookup returns what it returned ---- *)
Theorem C03_replace_fail_frame : forall H ct late s dst src ch s' e, RInv s ->
  step H ct late true s (Replace dst src ch) = (s', Raised e) ->
  (exists ext, heap s' = heap s ++ ext) /\ vars s' = vars s /\ (forall j, get_any s' j = get_any s j) /\
  (forall x, length (heap s) <= x -> reachable s' x = false).
Proof. intros H ct late s dst src ch. exact (fail_frame H ct late s (Replace dst src ch)). Qed.
(* ... in particular the original (every node that existed) keeps its id and is found under it exactly as before *)
Theorem C03_replace_fail_keeps_id : forall H ct late s dst src ch s' e a c, RInv s ->
  step H ct late true s (Replace dst src ch) = (s', Raised e) ->
  resolve s src = Some a -> cell_at s a = Some c ->
  cell_at s' a = Some c /\ get_any s' (k_id c) = get_any s (k_id c).
Proof. intros H ct late s dst src ch s' e a c Hs Er _ Hc. exact (fail_keeps_id H ct late s _ s' e Hs Er a c Hc). Qed.
(* the same frame for EVERY operation that raises: a constructor call, dataclasses.replace or duplicate() rejected late
   (duplicate: after any number of copies had been built and registered) *)
Theorem C03_fail_frame : forall H ct late s o s' e, RInv s -> step H ct late true s o = (s', Raised e) ->
  (exists ext, heap s' = heap s ++ ext) /\ vars s' = vars s /\ (forall j, get_any s' j = get_any s j) /\
  (forall x, length (heap s) <= x -> reachable s' x = false).
Proof. exact fail_frame. Qed.
Example C03_ex_replace_fail :
  snd (step ex_H ex_ct no_late true ex_state (Replace 3 (2, 0) [(lit "id", CProp (VInt 1))])) = Raised EValue
  /\ snd (step ex_H ex_ct no_late true ex_state (Replace 3 (2, 1) [(lit "nosuch", CProp (VInt 1))])) = Raised EType.
Proof. vm_compute. split; reflexivity. Qed.
(* class A rejects note == "bad" after super().__post_init__(): x = A(1, "n"); x.replace(note="bad") raises with the
   replacement (address 1) already registered under x's own id; afterwards x is found under its id, the replacement
   is unreachable *)
Definition ex_late : st -> nat -> bool := late_of ex_ct [VReject (lit "A") (lit "note") (VStr (lit "bad"))].
Example C03_ex_replace_fail_late :
  let s := fst (step ex_H ex_ct ex_late true (init_st 2) (ex_leaf 0 1)) in
  let r := step ex_H ex_ct ex_late true s (Replace 1 (0, 0) [(lit "note", CProp (VStr (lit "bad")))]) in
  RInv s /\ snd r = Raised EValue /\ length (heap s) = 1 /\ length (heap (fst r)) = 2
  /\ option_map k_id (cell_at (fst r) 0) = option_map k_id (cell_at (fst r) 1)
  /\ get_any s (lit ")") = Some 0 /\ get_any (fst r) (lit ")") = Some 0 /\ reachable (fst r) 1 = false
  /\ snd (step ex_H ex_ct ex_late true s (New 1 (lit "A") ONo [(lit "v", VInt 5); (lit "note", VStr (lit "bad"))] [])) = Raised EValue.
Proof. split; [apply step_inv; apply inv_init|vm_compute; repeat split]. Qed.

(* ---- the id of a new node: the bare digest of its preimage when no registered node holds it (adopted reading
        of "gets the same id every time", DESIGN 2.10), otherwise the digest with the first free suffix; the
        preimage reads class, origin fqn, comparable properties and the direct children's (content_id, fqn) ---- *)
Theorem C03_id_deterministic : forall H ct s c o ps ks s' a,
  alloc H ct s c o ps ks = Some (s', a) ->
  get_any s (H (id_data_of ct current c o ps (kd_of (heap s) ks))) = None ->
  exists cl, cell_at s' a = Some cl /\ k_id cl = H (id_data_of ct current c o ps (kd_of (heap s) ks)).
Proof. exact id_deterministic. Qed.
Theorem C03_id_is_first_free : forall H ct s c o ps ks s' a,
  alloc H ct s c o ps ks = Some (s', a) ->
  exists cl k, cell_at s' a = Some cl /\
    k_id cl = cand (H (id_data_of ct current c o ps (kd_of (heap s) ks))) k /\ get_any s (k_id cl) = None.
Proof. exact id_is_first_free. Qed.
Theorem C03_id_data_deps : forall ct vr c o o' ps ps' kd,
  ofqn o = ofqn o' -> enc_props ct c ps = enc_props ct c ps' ->
  id_data_of ct vr c o ps kd = id_data_of ct vr c o' ps' kd.
Proof. exact id_data_deps. Qed.
Example C03_ex_alloc : exists s' a, alloc ex_H ex_ct ex_state (lit "A") ONo [(lit "v", VInt 2)] [] = Some (s', a)
  /\ get_any ex_state (ex_H (id_data_of ex_ct current (lit "A") ONo [(lit "v", VInt 2)] (kd_of (heap ex_state) []))) = None.
Proof. eexists _, _. split; vm_compute; reflexivity. Qed.

(* ---- the code before the D4 repair: x.detach_self(); y = twin; x.detach_self() loses the live, never
        detached y (D4); the repaired code keeps it ---- *)
Theorem C03_refuted_double_detach :
  let s := run demo_H demo_ct no_late false (init_st 2) demo_ops in
  exists c, cell_at s 1 = Some c /\ reachable s 1 = true /\ ~ In 1 (det s) /\ ~ In 1 (gone s) /\
            get_any s (k_id c) = None.
Proof. exact refuted_double_detach. Qed.
Theorem C03_repaired_double_detach :
  let s := run demo_H demo_ct no_late true (init_st 2) demo_ops in
  exists c, cell_at s 1 = Some c /\ get_any s (k_id c) = Some 1.
Proof. exact repaired_double_detach. Qed.

(* ---- as_dict / as_obj.  `AsDict src slot` (slot = x.as_dict(): a VALUE carrying the id of every node; it is no reference
        and keeps nothing alive) and `AsObj slot dst` (dst = Cls.as_obj(slot)) are operations of `step` / `run`, so
        C03_inv_step, C03_invS_step, C03_lookup_live, C03_fail_frame (an as_obj rejected half-way by a class's own
        validation) and C03_no_fuel_out above cover them.  Below: what is specific to them (Model/Registry.v: `ser_st`,
        `deser` = ASTNode._deserialize, `force_id fx` = its forced-id branch; fx = true: the code in /repo, the serialized id
        is forced only WHILE IT IS FREE; fx = false: the code before that repair) ---- *)
(* a registered id is answered by the registered node, whichever node that is (C04's premise "no other live node has
   meanwhile taken over its id" is what makes it the original) *)
Theorem C03_deser_registered : forall H ct late fx fuel s i c o ps ks b, lookup i (reg s) = Some b ->
  deser H ct late fx (S fuel) s (SNode i c o ps ks) = DOk s b.
Proof. exact deser_registered. Qed.
(* the forced-id branch keeps the invariant, in both variants: the fresh id is popped, the node just built carries and is
   registered under the serialized id; before the repair an entry the id has meanwhile got was overwritten and the evicted
   node is recorded in the ghost `det` (C03_refuted_forced_id_evicts_child); the code in /repo leaves everything as it is
   when the id is held *)
Theorem C03_force_inv : forall fx s a cl i, Inv0 s -> cell_at s a = Some cl -> In (k_id cl, a) (reg s) -> k_id cl <> i ->
  Inv0 (force_id fx s a cl i).
Proof. exact force_inv. Qed.
Theorem C03_force_no_takeover : forall fx s a cl i, k_id cl <> i -> lookup i (reg s) = None ->
  det (force_id fx s a cl i) = det s /\ get_any (force_id fx s a cl i) i = Some a.
Proof. exact force_no_takeover. Qed.
Theorem C03_force_frame : forall fx s a cl i x, x <> a -> cell_at (force_id fx s a cl i) x = cell_at s x.
Proof. exact force_frame. Qed.
(* the whole recursive reading - returning, or rejected half-way by a class's own validation - keeps Inv0 (both variants) *)
Theorem C03_deser_inv : forall H ct late fx fuel s v, Inv0 s ->
  match deser H ct late fx fuel s v with
  | DOk s' a => Inv0 s' /\ len_le s s' /\ a < length (heap s')
  | DLate s' => Inv0 s' /\ len_le s s'
  | DFuel => True
  end.
Proof. exact deser_inv. Qed.
(* the would-be step `x = as_obj(d)` + collection re-establishes RInv for ANY value d (was C03_asobj_step_inv_partial
   while as_obj was outside `step`; for the values a program can hold it is now an instance of C03_inv_step) *)
Theorem C03_asobj_step_inv : forall H ct late fx fuel s v dst, RInv s ->
  match deser H ct late fx fuel s v with
  | DOk s' a => RInv (gc (set_var s' dst (Some a)))
  | DLate s' => RInv (gc s')
  | DFuel => True
  end.
Proof. exact deser_step_inv. Qed.
(* THE CODE IN /repo NEVER EVICTS ANYBODY: whatever value is read, in whatever state (every H: collisions included),
   whether the call returns or a class rejects a node half-way - every lookup that answered before the call answers the
   same after it (the registry before is a sub-map of the registry after), every existing node is what it was, nothing
   is marked detached *)
Theorem C03_deser_never_evicts : forall H ct late fuel s v s', Inv0 s ->
  (deser H ct late true fuel s v = DLate s' \/ exists a, deser H ct late true fuel s v = DOk s' a) ->
  (forall j b, get_any s j = Some b -> get_any s' j = Some b) /\
  (forall a, a < length (heap s) -> cell_at s' a = cell_at s a) /\ det s' = det s /\ Inv0 s'.
Proof. exact deser_never_evicts. Qed.
(* ... and as a step of a history (bind the result, collect): a node found under its id before the step and still
   referenced after it is found under that id after it *)
Theorem C03_asobj_step_never_evicts : forall H ct late s slot dst s' r, RInv s ->
  step H ct late true s (AsObj slot dst) = (s', r) ->
  forall j b, get_any s j = Some b -> reachable s' b = true -> get_any s' j = Some b.
Proof. exact asobj_step_never_evicts. Qed.
(* no as_dict / as_obj runs out of fuel (C03_no_fuel_out is the statement for steps) *)
Theorem C03_asobj_total : forall H ct late fx s v, asobj H ct late fx s v <> DFuel.
Proof. exact asobj_no_fuel. Qed.
(* the suffixed id of a twin survives the trip although no twin is registered any more (forced id, the id being free) *)
Example C03_ex_asobj_forced :
  let s1 := run ex_H ex_ct no_late true ex_state [Drop 2] in
  exists d s' a, ser_st ex_state 1 = Some d /\ get_any s1 (lit ")_1") = None /\ RInv s1
    /\ deser ex_H ex_ct no_late true 2 s1 d = DOk s' a /\ a = 3
    /\ option_map k_id (cell_at s' a) = Some (lit ")_1") /\ get_any s' (lit ")_1") = Some a /\ get_any s' (lit ")") = None
    /\ det s' = det s1.
Proof.
  eexists _, _, _. split; [vm_compute; reflexivity|]. split; [vm_compute; reflexivity|].
  split; [apply run_inv; exact ex_state_inv|]. split; [vm_compute; reflexivity|]. vm_compute. repeat split.
Qed.
(* partly alive: x = A(1); y = A(2); p = B((x, y)); d = p.as_dict(); del p, y; q = B.as_obj(d): x comes back as the very
   same object, y and p are new objects carrying the serialized ids; all alive: the very same root comes back *)
Example C03_ex_asobj_partly_alive :
  let s := run ser_H ser_ct no_late true (init_st 4) ser_ops in
  RInvS s /\ vars s = [Some 0; None; None; Some 4] /\ tree_of s 4 = [4; 0; 3] /\ length (heap s) = 5 /\
  option_map k_id (cell_at s 4) = option_map k_id (cell_at s 2) /\
  option_map k_id (cell_at s 3) = option_map k_id (cell_at s 1) /\ map snd (reg s) = [4; 3; 0].
Proof. split; [exact (run_invS ser_H ser_ct no_late ser_ops _ (invS_init 4))|vm_compute; repeat split]. Qed.
(* an as_obj rejected by a class's own validation (premise of C03_fail_frame inhabited by an AsObj): constant digest, class
   B rejects ids ending in _1; p = B(()) was built as d_2 while d and d_1 were held; read back while d_1 is free it is
   first given d_1 - and rejected: everything is as before, the half-built node is unreachable *)
Definition ex_late_sfx : st -> nat -> bool := late_of ex_ct [VIdSuffix (lit "B") (lit "_1")].
Example C03_ex_asobj_rejected :
  let s := run evict_H ex_ct ex_late_sfx true (init_st 3)
             [ex_leaf 0 1; ex_leaf 1 2; New 2 (lit "B") ONo [] [(lit "xs", (ShMany, []))]; AsDict (2, 0) 0; Drop 2; Drop 1] in
  let r := step evict_H ex_ct ex_late_sfx true s (AsObj 0 2) in
  RInv s /\ snd r = Raised EValue /\ length (heap s) = 3 /\ length (heap (fst r)) = 4
  /\ get_any (fst r) (lit "d") = Some 0 /\ get_any (fst r) (lit "d_1") = None /\ reachable (fst r) 3 = false.
Proof. split; [apply run_inv; apply inv_init|vm_compute; repeat split]. Qed.
(* what the code did BEFORE the repair when the serialized id is taken over DURING the reading (one-character digest:
   collisions): a detached child x and its parent p share an id; reading p's dict back re-creates the child under that id,
   then forces the id onto the parent over the child's entry: the re-created child is referenced, was never detached by the
   program, and get_any(child.id) returns the parent (reproduced on pyoak with ID_DIGEST_SIZE = 1, design.d/C03.md) *)
Theorem C03_refuted_forced_id_evicts_child :
  exists s' p, evict_res false = DOk s' p /\ reg evict_s1 = [] /\
    let s2 := gc (set_var s' 0 (Some p)) in
    tree_of s2 p = [3; 2] /\ reachable s2 2 = true /\
    option_map k_id (cell_at s2 2) = Some (lit "d") /\ option_map k_id (cell_at s2 3) = Some (lit "d") /\
    get_any s2 (lit "d") = Some 3 /\ In 2 (det s2) /\ det evict_s1 = [0].
Proof. exact refuted_forced_id_evicts_child. Qed.
(* ... and the code in /repo on the same input: the child keeps the shared id and is found under it, the parent keeps the
   unique id it was given and is found under that *)
Theorem C03_repaired_forced_id_keeps_child :
  exists s' p, evict_res true = DOk s' p /\
    let s2 := gc (set_var s' 0 (Some p)) in
    tree_of s2 p = [3; 2] /\
    option_map k_id (cell_at s2 2) = Some (lit "d") /\ option_map k_id (cell_at s2 3) = Some (lit "d_1") /\
    get_any s2 (lit "d") = Some 2 /\ get_any s2 (lit "d_1") = Some 3 /\ det s2 = det evict_s1.
Proof. exact repaired_forced_id_keeps_child. Qed.
(* the same two facts as histories of the machine *)
Theorem C03_refuted_forced_id_history :
  let s := run evict_H ex_ct no_late false (init_st 2) evict_hist in
  vars s = [Some 3; None] /\ tree_of s 3 = [3; 2] /\ get_any s (lit "d") = Some 3 /\ In 2 (det s) /\ reachable s 2 = true.
Proof. exact refuted_forced_id_history. Qed.
Theorem C03_repaired_forced_id_history :
  let s := run evict_H ex_ct no_late true (init_st 2) evict_hist in
  vars s = [Some 3; None] /\ tree_of s 3 = [3; 2] /\ get_any s (lit "d") = Some 2 /\ get_any s (lit "d_1") = Some 3 /\ det s = [0].
Proof. exact repaired_forced_id_history. Qed.
