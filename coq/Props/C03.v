(* C03 - Registry holds exactly the live, not-detached nodes under unique ids.
   ONLY statements; proofs are `exact <lemma of Proofs/RegistryProofs.v>`.  Everything holds for EVERY digest H
   (collisions allowed: this is the "whatever the digest size" clause).  The state machine is Model/Registry.v;
   `step H ct true` is the code in /repo (after the D4 repair), `step H ct false` the code before it. *)
From Oak Require Import Model.Registry Proofs.RegistryProofs Proofs.RegistryReach.

(* ---- the invariant is inductive over every history of public operations ---- *)
Theorem C03_inv_init : forall n, RInv (init_st n).
Proof. exact inv_init. Qed.
Theorem C03_inv_step : forall H ct s o, RInv s -> RInv (fst (step H ct true s o)).
Proof. exact step_inv. Qed.
Theorem C03_inv_reachable : forall H ct n l, RInv (run H ct true (init_st n) l).
Proof. intros H ct n l. exact (run_inv H ct l _ (inv_init n)). Qed.
Example C03_ex_inv : RInv ex_state /\ length (reg ex_state) = 2 /\ det ex_state = [0].
Proof. split; [exact ex_state_inv|split; vm_compute; reflexivity]. Qed.

(* ---- lookups: get_any(i) returns a exactly when a is a node carrying id i that was neither detached /
        replaced away nor found unreferenced; what it returns is reachable from the program's variables ---- *)
Theorem C03_lookup_exact : forall s i a, RInv s ->
  (get_any s i = Some a <->
   exists c, cell_at s a = Some c /\ k_id c = i /\ ~ In a (det s) /\ ~ In a (gone s)).
Proof. exact lookup_exact. Qed.
Theorem C03_registered_reachable : forall s i a, RInv s -> get_any s i = Some a -> reachable s a = true.
Proof. exact registered_reachable. Qed.
Theorem C03_unreachable_not_returned : forall s a, RInv s -> reachable s a = false -> forall i, get_any s i <> Some a.
Proof. exact unreachable_not_returned. Qed.
Theorem C03_detached_not_returned : forall s a, RInv s -> In a (det s) -> forall i, get_any s i <> Some a.
Proof. exact detached_not_returned. Qed.
(* get(): the node get_any returns, and only for its own class (strict) / a superclass (strict=False) *)
Theorem C03_get_class : forall ct s cls i strict a, RInv s ->
  (get ct s cls i strict = Some a <->
   exists c, get_any s i = Some a /\ cell_at s a = Some c /\
             (if strict then k_cls c = cls else subclass ct (k_cls c) cls = true)).
Proof. exact get_class. Qed.
Example C03_ex_lookup :
  get_any ex_state (lit "n") = Some 2 /\ get_any ex_state (lit ")_1") = Some 1 /\ get_any ex_state (lit ")") = None
  /\ reachable ex_state 0 = true /\ get ex_ct ex_state (lit "A") (lit "n") false = None
  /\ get ex_ct ex_state (lit "ASTNode") (lit "n") false = Some 2.
Proof. vm_compute. repeat split. Qed.

(* ---- the main clause.  RInvS = RInv + "whatever a collection once found unreferenced is unreferenced now"; it is
        inductive as well, and under it the registry holds EXACTLY the nodes that are still referenced (reachable from
        the program's variables through child fields) and were not themselves detached / replaced away ---- *)
Theorem C03_invS_init : forall n, RInvS (init_st n).
Proof. exact invS_init. Qed.
Theorem C03_invS_step : forall H ct s o, RInvS s -> RInvS (fst (step H ct true s o)).
Proof. exact step_invS. Qed.
Theorem C03_invS_reachable : forall H ct n l, RInvS (run H ct true (init_st n) l).
Proof. intros H ct n l. exact (run_invS H ct l _ (invS_init n)). Qed.
Theorem C03_lookup_live : forall s i a, RInvS s ->
  (get_any s i = Some a <->
   exists c, cell_at s a = Some c /\ k_id c = i /\ ~ In a (det s) /\ reachable s a = true).
Proof. exact lookup_live. Qed.
Example C03_ex_live : RInvS ex_state /\ reachable ex_state 1 = true /\ get_any ex_state (lit ")_1") = Some 1
  /\ reachable ex_state 0 = true /\ In 0 (det ex_state) /\ get_any ex_state (lit ")") = None.
Proof. split; [exact (run_invS ex_H ex_ct ex_ops _ (invS_init 4))|vm_compute; intuition]. Qed.

(* ---- ids of simultaneously registered nodes are pairwise different, whatever H ---- *)
Theorem C03_unique_ids : forall s a b ca cb, RInv s ->
  cell_at s a = Some ca -> cell_at s b = Some cb ->
  get_any s (k_id ca) = Some a -> get_any s (k_id cb) = Some b -> k_id ca = k_id cb -> a = b.
Proof. exact unique_ids. Qed.
Theorem C03_unique_ids_entries : forall s i a b, RInv s -> In (i, a) (reg s) -> In (i, b) (reg s) -> a = b.
Proof. exact unique_ids_entries. Qed.

(* ---- _get_next_unique_id terminates (pigeonhole: fuel = number of registered ids) and returns an unused id;
        no step of the machine ever exhausts a fuel ---- *)
Theorem C03_next_id_fuel : forall d r, exists i, next_unique d 0 (length r) r = Some i /\ lookup i r = None.
Proof. exact next_unique_ok. Qed.
Theorem C03_alloc_total : forall H ct s c o ps ks, alloc H ct s c o ps ks <> None.
Proof. exact alloc_some. Qed.
Theorem C03_no_fuel_out : forall H ct s o, RInv s -> snd (step H ct true s o) <> FuelOut.
Proof. exact step_no_fuel_out. Qed.

(* ---- a replace() that raises leaves heap, variables and every lookup as they were ---- *)
Theorem C03_replace_fail_frame : forall H ct s dst src ch s' e, RInv s ->
  step H ct true s (Replace dst src ch) = (s', Raised e) ->
  heap s' = heap s /\ vars s' = vars s /\ forall j, get_any s' j = get_any s j.
Proof. exact replace_fail_frame. Qed.
Example C03_ex_replace_fail :
  snd (step ex_H ex_ct true ex_state (Replace 3 (2, 0) [(lit "id", CProp (VInt 1))])) = Raised EValue
  /\ snd (step ex_H ex_ct true ex_state (Replace 3 (2, 1) [(lit "nosuch", CProp (VInt 1))])) = Raised EType.
Proof. vm_compute. split; reflexivity. Qed.

(* ---- the id of a new node: the bare digest of its preimage when no registered node holds it (adopted reading
        of "gets the same id every time", DESIGN 2.10), otherwise the digest with the first free suffix; the
        preimage reads class, origin fqn, comparable properties and the direct children's (content_id, fqn) ---- *)
Theorem C03_id_deterministic : forall H ct s c o ps ks s' a,
  alloc H ct s c o ps ks = Some (s', a) ->
  get_any s (H (id_data_of ct current c o ps (kd_of (heap s) ks))) = None ->
  exists cl, cell_at s' a = Some cl /\ k_id cl = H (id_data_of ct current c o ps (kd_of (heap s) ks)).
Proof. exact id_deterministic. Qed.
Theorem C03_id_is_first_free : forall H ct s c o ps ks s' a,
  alloc H ct s c o ps ks = Some (s', a) ->
  exists cl k, cell_at s' a = Some cl /\
    k_id cl = cand (H (id_data_of ct current c o ps (kd_of (heap s) ks))) k /\ get_any s (k_id cl) = None.
Proof. exact id_is_first_free. Qed.
Theorem C03_id_data_deps : forall ct vr c o o' ps ps' kd,
  ofqn o = ofqn o' -> enc_props ct c ps = enc_props ct c ps' ->
  id_data_of ct vr c o ps kd = id_data_of ct vr c o' ps' kd.
Proof. exact id_data_deps. Qed.
Example C03_ex_alloc : exists s' a, alloc ex_H ex_ct ex_state (lit "A") ONo [(lit "v", VInt 2)] [] = Some (s', a)
  /\ get_any ex_state (ex_H (id_data_of ex_ct current (lit "A") ONo [(lit "v", VInt 2)] (kd_of (heap ex_state) []))) = None.
Proof. eexists _, _. split; vm_compute; reflexivity. Qed.

(* ---- the code before the D4 repair: x.detach_self(); y = twin; x.detach_self() loses the live, never
        detached y (D4); the repaired code keeps it ---- *)
Theorem C03_refuted_double_detach :
  let s := run demo_H demo_ct false (init_st 2) demo_ops in
  exists c, cell_at s 1 = Some c /\ reachable s 1 = true /\ ~ In 1 (det s) /\ ~ In 1 (gone s) /\
            get_any s (k_id c) = None.
Proof. exact refuted_double_detach. Qed.
Theorem C03_repaired_double_detach :
  let s := run demo_H demo_ct true (init_st 2) demo_ops in
  exists c, cell_at s 1 = Some c /\ get_any s (k_id c) = Some 1.
Proof. exact repaired_double_detach. Qed.
