(* C03 - Registry holds exactly the live, not-detached nodes under unique ids.
   ONLY statements; proofs are `exact <lemma of Proofs/RegistryProofs.v>`.  Everything holds for EVERY digest H
   (collisions allowed: this is the "whatever the digest size" clause).  The state machine is Model/Registry.v;
   `step H ct late true` is the code in /repo (after the D4 repair), `step H ct late false` the code before it;
   `late` is ANY validation a user subclass performs in its own __post_init__ after super().__post_init__() has given
   the new node its id and registered it (late s a = true: it raises for the node at address a just built in state s). *)
From Oak Require Import Model.Registry Proofs.RegistryProofs Proofs.RegistryReach.
From Oak Require Import Model.RegistrySer Proofs.RegistrySerProofs.

(* ---- the invariant is inductive over every history of public operations ---- *)
Theorem C03_inv_init : forall n, RInv (init_st n).
Proof. exact inv_init. Qed.
Theorem C03_inv_step : forall H ct late s o, RInv s -> RInv (fst (step H ct late true s o)).
Proof. exact step_inv. Qed.
Theorem C03_inv_reachable : forall H ct late n l, RInv (run H ct late true (init_st n) l).
Proof. intros H ct late n l. exact (run_inv H ct late l _ (inv_init n)). Qed.
Example C03_ex_inv : RInv ex_state /\ length (reg ex_state) = 2 /\ det ex_state = [0].
Proof. split; [exact ex_state_inv|split; vm_compute; reflexivity]. Qed.

(* ---- lookups: get_any(i) returns a exactly when a is a node carrying id i that was neither detached /
        replaced away nor found unreferenced; what it returns is reachable from the program's variables ---- *)
Theorem C03_lookup_exact : forall s i a, RInv s ->
  (get_any s i = Some a <->
   exists c, cell_at s a = Some c /\ k_id c = i /\ ~ In a (det s) /\ ~ In a (gone s)).
Proof. exact lookup_exact. Qed.
Theorem C03_registered_reachable : forall s i a, RInv s -> get_any s i = Some a -> reachable s a = true.
Proof. exact registered_reachable. Qed.
Theorem C03_unreachable_not_returned : forall s a, RInv s -> reachable s a = false -> forall i, get_any s i <> Some a.
Proof. exact unreachable_not_returned. Qed.
Theorem C03_detached_not_returned : forall s a, RInv s -> In a (det s) -> forall i, get_any s i <> Some a.
Proof. exact detached_not_returned. Qed.
(* get(): the node get_any returns, and only for its own class (strict) / a superclass (strict=False) *)
Theorem C03_get_class : forall ct s cls i strict a, RInv s ->
  (get ct s cls i strict = Some a <->
   exists c, get_any s i = Some a /\ cell_at s a = Some c /\
             (if strict then k_cls c = cls else subclass ct (k_cls c) cls = true)).
Proof. exact get_class. Qed.
Example C03_ex_lookup :
  get_any ex_state (lit "n") = Some 2 /\ get_any ex_state (lit ")_1") = Some 1 /\ get_any ex_state (lit ")") = None
  /\ reachable ex_state 0 = true /\ get ex_ct ex_state (lit "A") (lit "n") false = None
  /\ get ex_ct ex_state (lit "ASTNode") (lit "n") false = Some 2.
Proof. vm_compute. repeat split. Qed.

(* ---- the main clause.  RInvS = RInv + "whatever a collection once found unreferenced is unreferenced now"; it is
        inductive as well, and under it the registry holds EXACTLY the nodes that are still referenced (reachable from
        the program's variables through child fields) and were not themselves detached / replaced away ---- *)
Theorem C03_invS_init : forall n, RInvS (init_st n).
Proof. exact invS_init. Qed.
Theorem C03_invS_step : forall H ct late s o, RInvS s -> RInvS (fst (step H ct late true s o)).
Proof. exact step_invS. Qed.
Theorem C03_invS_reachable : forall H ct late n l, RInvS (run H ct late true (init_st n) l).
Proof. intros H ct late n l. exact (run_invS H ct late l _ (invS_init n)). Qed.
Theorem C03_lookup_live : forall s i a, RInvS s ->
  (get_any s i = Some a <->
   exists c, cell_at s a = Some c /\ k_id c = i /\ ~ In a (det s) /\ reachable s a = true).
Proof. exact lookup_live. Qed.
Example C03_ex_live : RInvS ex_state /\ reachable ex_state 1 = true /\ get_any ex_state (lit ")_1") = Some 1
  /\ reachable ex_state 0 = true /\ In 0 (det ex_state) /\ get_any ex_state (lit ")") = None.
Proof. split; [exact (run_invS ex_H ex_ct no_late ex_ops _ (invS_init 4))|vm_compute; intuition]. Qed.

(* ---- ids of simultaneously registered nodes are pairwise different, whatever H ---- *)
Theorem C03_unique_ids : forall s a b ca cb, RInv s ->
  cell_at s a = Some ca -> cell_at s b = Some cb ->
  get_any s (k_id ca) = Some a -> get_any s (k_id cb) = Some b -> k_id ca = k_id cb -> a = b.
Proof. exact unique_ids. Qed.
Theorem C03_unique_ids_entries : forall s i a b, RInv s -> In (i, a) (reg s) -> In (i, b) (reg s) -> a = b.
Proof. exact unique_ids_entries. Qed.

(* ---- _get_next_unique_id terminates (pigeonhole: fuel = number of registered ids) and returns an unused id;
        no step of the machine ever exhausts a fuel ---- *)
Theorem C03_next_id_fuel : forall d r, exists i, next_unique d 0 (length r) r = Some i /\ lookup i r = None.
Proof. exact next_unique_ok. Qed.
Theorem C03_alloc_total : forall H ct s c o ps ks, alloc H ct s c o ps ks <> None.
Proof. exact alloc_some. Qed.
Theorem C03_no_fuel_out : forall H ct late s o, RInv s -> snd (step H ct late true s o) <> FuelOut.
Proof. exact step_no_fuel_out. Qed.

(* ---- a replace() that raises leaves the registry exactly as it was.  It may raise EARLY (dataclasses.replace rejects a
        non-init or unknown key before any object exists) or LATE (the class validates in its own __post_init__ after
        super().__post_init__(): the replacement has already been given an id - possibly the original's own, which
        detach_self had just freed - and registered when the exception leaves; the except-branch then writes the
        original back over whatever sits under its id).  In both cases: the variables are what they were, the heap has
        only grown (by the half-built node, which nothing can reach), and EVERY lookup returns what it returned ---- *)
Theorem C03_replace_fail_frame : forall H ct late s dst src ch s' e, RInv s ->
  step H ct late true s (Replace dst src ch) = (s', Raised e) ->
  (exists ext, heap s' = heap s ++ ext) /\ vars s' = vars s /\ (forall j, get_any s' j = get_any s j) /\
  (forall x, length (heap s) <= x -> reachable s' x = false).
Proof. intros H ct late s dst src ch. exact (fail_frame H ct late s (Replace dst src ch)). Qed.
(* ... in particular the original (every node that existed) keeps its id and is found under it exactly as before *)
Theorem C03_replace_fail_keeps_id : forall H ct late s dst src ch s' e a c, RInv s ->
  step H ct late true s (Replace dst src ch) = (s', Raised e) ->
  resolve s src = Some a -> cell_at s a = Some c ->
  cell_at s' a = Some c /\ get_any s' (k_id c) = get_any s (k_id c).
Proof. intros H ct late s dst src ch s' e a c Hs Er _ Hc. exact (fail_keeps_id H ct late s _ s' e Hs Er a c Hc). Qed.
(* the same frame for EVERY operation that raises: a constructor call, dataclasses.replace or duplicate() rejected late
   (duplicate: after any number of copies had been built and registered) *)
Theorem C03_fail_frame : forall H ct late s o s' e, RInv s -> step H ct late true s o = (s', Raised e) ->
  (exists ext, heap s' = heap s ++ ext) /\ vars s' = vars s /\ (forall j, get_any s' j = get_any s j) /\
  (forall x, length (heap s) <= x -> reachable s' x = false).
Proof. exact fail_frame. Qed.
Example C03_ex_replace_fail :
  snd (step ex_H ex_ct no_late true ex_state (Replace 3 (2, 0) [(lit "id", CProp (VInt 1))])) = Raised EValue
  /\ snd (step ex_H ex_ct no_late true ex_state (Replace 3 (2, 1) [(lit "nosuch", CProp (VInt 1))])) = Raised EType.
Proof. vm_compute. split; reflexivity. Qed.
(* class A rejects note == "bad" after super().__post_init__(): x = A(1, "n"); x.replace(note="bad") raises with the
   replacement (address 1) already registered under x's own id; afterwards x is found under its id, the replacement
   is unreachable *)
Definition ex_late : st -> nat -> bool := late_of ex_ct [VReject (lit "A") (lit "note") (VStr (lit "bad"))].
Example C03_ex_replace_fail_late :
  let s := fst (step ex_H ex_ct ex_late true (init_st 2) (ex_leaf 0 1)) in
  let r := step ex_H ex_ct ex_late true s (Replace 1 (0, 0) [(lit "note", CProp (VStr (lit "bad")))]) in
  RInv s /\ snd r = Raised EValue /\ length (heap s) = 1 /\ length (heap (fst r)) = 2
  /\ option_map k_id (cell_at (fst r) 0) = option_map k_id (cell_at (fst r) 1)
  /\ get_any s (lit ")") = Some 0 /\ get_any (fst r) (lit ")") = Some 0 /\ reachable (fst r) 1 = false
  /\ snd (step ex_H ex_ct ex_late true s (New 1 (lit "A") ONo [(lit "v", VInt 5); (lit "note", VStr (lit "bad"))] [])) = Raised EValue.
Proof. split; [apply step_inv; apply inv_init|vm_compute; repeat split]. Qed.

(* ---- the id of a new node: the bare digest of its preimage when no registered node holds it (adopted reading
        of "gets the same id every time", DESIGN 2.10), otherwise the digest with the first free suffix; the
        preimage reads class, origin fqn, comparable properties and the direct children's (content_id, fqn) ---- *)
Theorem C03_id_deterministic : forall H ct s c o ps ks s' a,
  alloc H ct s c o ps ks = Some (s', a) ->
  get_any s (H (id_data_of ct current c o ps (kd_of (heap s) ks))) = None ->
  exists cl, cell_at s' a = Some cl /\ k_id cl = H (id_data_of ct current c o ps (kd_of (heap s) ks)).
Proof. exact id_deterministic. Qed.
Theorem C03_id_is_first_free : forall H ct s c o ps ks s' a,
  alloc H ct s c o ps ks = Some (s', a) ->
  exists cl k, cell_at s' a = Some cl /\
    k_id cl = cand (H (id_data_of ct current c o ps (kd_of (heap s) ks))) k /\ get_any s (k_id cl) = None.
Proof. exact id_is_first_free. Qed.
Theorem C03_id_data_deps : forall ct vr c o o' ps ps' kd,
  ofqn o = ofqn o' -> enc_props ct c ps = enc_props ct c ps' ->
  id_data_of ct vr c o ps kd = id_data_of ct vr c o' ps' kd.
Proof. exact id_data_deps. Qed.
Example C03_ex_alloc : exists s' a, alloc ex_H ex_ct ex_state (lit "A") ONo [(lit "v", VInt 2)] [] = Some (s', a)
  /\ get_any ex_state (ex_H (id_data_of ex_ct current (lit "A") ONo [(lit "v", VInt 2)] (kd_of (heap ex_state) []))) = None.
Proof. eexists _, _. split; vm_compute; reflexivity. Qed.

(* ---- the code before the D4 repair: x.detach_self(); y = twin; x.detach_self() loses the live, never
        detached y (D4); the repaired code keeps it ---- *)
Theorem C03_refuted_double_detach :
  let s := run demo_H demo_ct no_late false (init_st 2) demo_ops in
  exists c, cell_at s 1 = Some c /\ reachable s 1 = true /\ ~ In 1 (det s) /\ ~ In 1 (gone s) /\
            get_any s (k_id c) = None.
Proof. exact refuted_double_detach. Qed.
Theorem C03_repaired_double_detach :
  let s := run demo_H demo_ct no_late true (init_st 2) demo_ops in
  exists c, cell_at s 1 = Some c /\ get_any s (k_id c) = Some 1.
Proof. exact repaired_double_detach. Qed.

(* ---- as_dict / as_obj as far as the registry is concerned (Model/RegistrySer.v: `ser_st` = the id-carrying value of a
        held tree, `deser` = ASTNode._deserialize, node.py:258-283, `force_id` = its forced-id branch) ---- *)
(* a registered id is answered by the registered node, whichever node that is (C04's premise "no other live node has
   meanwhile taken over its id" is what makes it the original) *)
Theorem C03_deser_registered : forall H ct late fuel s i c o ps ks b, lookup i (reg s) = Some b ->
  deser H ct late (S fuel) s (SNode i c o ps ks) = DOk s b.
Proof. exact deser_registered. Qed.
(* the forced-id branch keeps the invariant: the fresh id is popped, the node just built carries and is registered under the
   serialized id; if that id has an entry (see C03_refuted_forced_id_evicts_child) it is overwritten and the evicted node
   is recorded in the ghost `det` *)
Theorem C03_force_inv : forall s a cl i, Inv0 s -> cell_at s a = Some cl -> In (k_id cl, a) (reg s) -> k_id cl <> i ->
  Inv0 (force_id s a cl i).
Proof. exact force_inv. Qed.
Theorem C03_force_no_takeover : forall s a cl i, lookup i (remove_id (k_id cl) (reg s)) = None ->
  det (force_id s a cl i) = det s /\ get_any (force_id s a cl i) i = Some a.
Proof. exact force_no_takeover. Qed.
Theorem C03_force_frame : forall s a cl i x, x <> a -> cell_at (force_id s a cl i) x = cell_at s x.
Proof. exact force_frame. Qed.
(* the whole recursive reading - returning, or rejected half-way by a class's own validation - keeps Inv0 *)
Theorem C03_deser_inv : forall H ct late fuel s v, Inv0 s ->
  match deser H ct late fuel s v with
  | DOk s' a => Inv0 s' /\ len_le s s' /\ a < length (heap s')
  | DLate s' => Inv0 s' /\ len_le s s'
  | DFuel => True
  end.
Proof. exact deser_inv. Qed.
(* PARTIAL: as_dict/as_obj are not operations of `step`/`run` (so RInvS, C03_fail_frame and the correspondence run do not
   cover them); what is proved is that the would-be step `x = as_obj(d)` + collection re-establishes RInv *)
Theorem C03_asobj_step_inv_partial : forall H ct late fuel s v dst, RInv s ->
  match deser H ct late fuel s v with
  | DOk s' a => RInv (gc (set_var s' dst (Some a)))
  | DLate s' => RInv (gc s')
  | DFuel => True
  end.
Proof. exact deser_step_inv. Qed.
(* the suffixed id of a twin survives the trip although no twin is registered any more (forced id) *)
Example C03_ex_asobj_forced :
  let s1 := run ex_H ex_ct no_late true ex_state [Drop 2] in
  exists d s' a, ser_st ex_state 1 = Some d /\ get_any s1 (lit ")_1") = None /\ RInv s1
    /\ deser ex_H ex_ct no_late 2 s1 d = DOk s' a /\ a = 3
    /\ option_map k_id (cell_at s' a) = Some (lit ")_1") /\ get_any s' (lit ")_1") = Some a /\ get_any s' (lit ")") = None
    /\ det s' = det s1.
Proof.
  eexists _, _, _. split; [vm_compute; reflexivity|]. split; [vm_compute; reflexivity|].
  split; [apply run_inv; exact ex_state_inv|]. split; [vm_compute; reflexivity|]. vm_compute. repeat split.
Qed.
(* what the code does when the serialized id is taken over DURING the reading (one-character digest: collisions): a
   detached child x and its parent p share an id; reading p's dict back re-creates the child under that id, then forces
   the id onto the parent over the child's entry: the re-created child is referenced, was never detached by the
   program, and get_any(child.id) returns the parent (reproduced on pyoak with ID_DIGEST_SIZE = 1, design.d/C03.md) *)
Theorem C03_refuted_forced_id_evicts_child :
  exists s' p, evict_res = DOk s' p /\ reg evict_s1 = [] /\
    let s2 := gc (set_var s' 0 (Some p)) in
    tree_of s2 p = [3; 2] /\ reachable s2 2 = true /\
    option_map k_id (cell_at s2 2) = Some (lit "d") /\ option_map k_id (cell_at s2 3) = Some (lit "d") /\
    get_any s2 (lit "d") = Some 3 /\ In 2 (det s2) /\ det evict_s1 = [0].
Proof. exact refuted_forced_id_evicts_child. Qed.
