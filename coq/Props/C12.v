(* C12 - Child and property accessors return exactly what the class definition dictates.
   ONLY statements; proofs are `exact <lemma of Proofs/AccessProofs.v>`. *)
From Oak Require Import Model.Access Proofs.AccessProofs.
From Coq Require Import Permutation Sorted.

(* every combination of the skip flags, sorted or not: the yielded fields are exactly those the sentence names *)
Theorem C12_props_spec : forall ct c fl sort,
  get_properties_fields true ct c fl sort =
  filter (spec_yields fl) (if sort then sort_fields (all_props ct c) else all_props ct c).
Proof. exact props_spec. Qed.
(* the static accessor agrees with the per-instance one *)
Theorem C12_static_eq_dynamic : forall ct c fl,
  get_property_fields true ct c fl = get_properties_fields true ct c fl false.
Proof. exact static_eq_dynamic. Qed.
(* sort_keys: a permutation of the declaration order, sorted by field name *)
Theorem C12_sorted_is_perm_sorted : forall l : list fdecl,
  Permutation l (sort_fields l) /\
  LocallySorted (fun f g => pystr_leb (fd_name f) (fd_name g) = true) (sort_fields l).
Proof. exact sorted_is_perm_sorted. Qed.
(* absent optional children are omitted, single children have index None, tuple elements are indexed from 0 *)
Theorem C12_field_children_spec : forall (A : Type) (l : list A) (x : A),
  field_children (ShNone, l) = [] /\
  field_children (ShOne, [x]) = [(x, None)] /\
  map fst (field_children (ShMany, l)) = l /\
  map snd (field_children (ShMany, l)) = map Some (seq 0 (length l)).
Proof. exact @field_children_spec. Qed.
Theorem C12_children_spec : forall ct n sort,
  get_child_nodes_with_field ct n sort =
  flat_map (fun f => map (fun ci => (fst ci, fd_name f, snd ci)) (field_children (field_value (nkids n) f)))
           (if sort then sort_fields (child_fields ct (cls n)) else child_fields ct (cls n)).
Proof. exact children_spec. Qed.
Theorem C12_child_nodes_proj : forall ct n sort,
  get_child_nodes ct n sort = map (fun t => fst (fst t)) (get_child_nodes_with_field ct n sort)
  /\ children ct n = get_child_nodes ct n false.
Proof. exact child_nodes_proj. Qed.
Theorem C12_iter_fields_spec : forall ct n sort,
  map fst (iter_child_fields ct n sort) =
  map fd_name (if sort then sort_fields (child_fields ct (cls n)) else child_fields ct (cls n)).
Proof. exact iter_fields_spec. Qed.
Theorem C12_edges_from_fields : forall ct n sort,
  get_child_nodes_with_field ct n sort =
  flat_map (fun p => map (fun ci => (fst ci, fst p, snd ci)) (field_children (snd p))) (iter_child_fields ct n sort).
Proof. exact edges_from_fields. Qed.
(* each field lands in exactly one accessor family *)
Theorem C12_partition : forall ct c f,
  In f (fields_of ct c) <-> (In f (prop_fields ct c) \/ In f (child_fields ct c)).
Proof. exact partition. Qed.
Theorem C12_partition_excl : forall ct c f, ~ (In f (prop_fields ct c) /\ In f (child_fields ct c)).
Proof. exact partition_excl. Qed.
Theorem C12_to_properties_dict : forall ct n,
  (forall f, In f (prop_fields ct (cls n)) -> builtin f = false) ->
  map fst (to_properties_dict true ct n) = map fd_name (prop_fields ct (cls n)).
Proof. exact to_properties_dict_names. Qed.
(* inheritance: merging a subclass's own fields keeps the inherited ones in place and appends the new ones;
   results are a function of the merged field list alone *)
Theorem C12_merge_prefix : forall own acc, exists extra, map fd_name (merge_fields acc own) = map fd_name acc ++ extra.
Proof. exact merge_prefix. Qed.
Theorem C12_inheritance_determined : forall ct1 ct2 c fl sort,
  fields_of ct1 c = fields_of ct2 c ->
  get_properties_fields true ct1 c fl sort = get_properties_fields true ct2 c fl sort
  /\ kid_fields ct1 c sort = kid_fields ct2 c sort.
Proof. exact inheritance_determined. Qed.
(* the two defects repaired in /repo, refuted against the pre-repair cascades *)
Theorem C12_refuted_D11 : yields false wit_flags wit_field = true /\ spec_yields wit_flags wit_field = false.
Proof. exact refuted_D11. Qed.
Theorem C12_refuted_D19 : static_yields false wit_flags2 f_id = false /\ spec_yields wit_flags2 f_id = true.
Proof. exact refuted_D19. Qed.
