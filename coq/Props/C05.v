(* C05 - Traversals visit exactly the descendants, in order, with exact position info.
   ONLY statements; proofs are `exact <lemma of Proofs/TraverseProofs.v>`.
   The orders pre / post / levels_from (Spec/TraverseSpec.v) are plain structural recursion over the stored tree;
   dfs / bfs / gather (Model/Traverse.v) are the stack / deque machines of node.py. prune and filt are arbitrary
   functions; wf_node = the node conforms to its class declaration. *)
From Oak Require Import Spec.TraverseSpec Proofs.TraverseProofs Proofs.TraversePerm.
From Coq Require Import Permutation.

Theorem C05_dfs_pre : forall ct prune filt n, wf_node ct n = true ->
  dfs ct prune filt (size n) false n = Some (pre prune filt n).
Proof. exact dfs_pre. Qed.
Theorem C05_dfs_post : forall ct prune filt n, wf_node ct n = true ->
  dfs ct prune filt (size n) true n = Some (post prune filt n).
Proof. exact dfs_post. Qed.
Theorem C05_bfs : forall ct prune filt n, wf_node ct n = true ->
  bfs ct prune filt (size n) n = Some (levels_from prune filt (size n) (direct_infos n)).
Proof. exact bfs_levels. Qed.
(* the machines for any stack / queue content (the invariant behind the three above) *)
Theorem C05_dfs_td_spec : forall ct prune filt fuel st acc, wfs ct st -> work st <= fuel ->
  dfs_td ct prune filt fuel st acc = Some (rev acc ++ flat_map (pre_info prune filt) st).
Proof. exact dfs_td_spec. Qed.
Theorem C05_dfs_bu_spec : forall ct prune filt fuel st acc, wfs ct st -> work st <= fuel ->
  dfs_bu ct prune filt fuel st acc = Some (flat_map (post_info prune filt) (rev st) ++ acc).
Proof. exact dfs_bu_spec. Qed.
(* the orders unfold position by position: pruned => offered to the filter, descendants skipped *)
Theorem C05_pre_unfold : forall prune filt p, pre prune filt p = flat_map (pre_info prune filt) (direct_infos p).
Proof. exact pre_unfold. Qed.
Theorem C05_post_unfold : forall prune filt p, post prune filt p = flat_map (post_info prune filt) (direct_infos p).
Proof. exact post_unfold. Qed.
(* the start node is never yielded *)
Theorem C05_no_self : forall prune filt n ti, In ti (pre prune filt n) -> size (ti_node ti) < size n.
Proof. exact pre_smaller. Qed.
(* a filtered-out node is skipped without affecting descent *)
Theorem C05_filter_commutes : forall prune filt n, pre prune filt n = filter filt (pre prune (fun _ => true) n).
Proof. exact filter_commutes. Qed.
Theorem C05_filter_commutes_post : forall prune filt n, post prune filt n = filter filt (post prune (fun _ => true) n).
Proof. exact filter_commutes_post. Qed.
(* exact position info *)
Theorem C05_info_sound : forall ct prune filt n, wf_node ct n = true -> forall ti, In ti (pre prune filt n) ->
  child_at (ti_parent ti) (ti_field ti) (ti_index ti) = Some (ti_node ti).
Proof. exact info_sound. Qed.
Theorem C05_info_sound_post : forall ct prune filt n, wf_node ct n = true -> forall ti, In ti (post prune filt n) ->
  child_at (ti_parent ti) (ti_field ti) (ti_index ti) = Some (ti_node ti).
Proof. exact info_sound_post. Qed.
(* without prune and filter every position below the start node is yielded (count = size - 1) *)
Theorem C05_visits_all : forall ct n, wf_node ct n = true ->
  length (pre (fun _ => false) (fun _ => true) n) = size n - 1.
Proof. exact visits_all. Qed.
Theorem C05_gather : forall ct classes exact extra prune n, wf_node ct n = true ->
  gather ct (size n) classes exact extra prune n =
  Some (map ti_node (pre prune (fun ti => class_filter ct classes exact ti && extra ti) n)).
Proof. exact gather_spec. Qed.
(* the three orders enumerate the same positions the same number of times, for ALL prune / filter functions:
   post-order and level order are permutations of pre-order ("each position exactly once" transfers between them) *)
Theorem C05_post_perm_pre : forall prune filt n, Permutation (post prune filt n) (pre prune filt n).
Proof. exact post_perm_pre. Qed.
Theorem C05_bfs_perm_pre : forall prune filt n,
  Permutation (levels_from prune filt (size n) (direct_infos n)) (pre prune filt n).
Proof. exact bfs_perm_pre. Qed.
(* level order from any frontier whose subtrees hold at most d nodes: the pre-orders below it, permuted; and further
   levels add nothing (the fuel given to bfs is not visible in its result) *)
Theorem C05_levels_perm_pre : forall prune filt d l, work l <= d ->
  Permutation (levels_from prune filt d l) (flat_map (pre_info prune filt) l).
Proof. exact levels_perm_pre. Qed.
Theorem C05_levels_stable : forall prune filt d l, work l <= d ->
  levels_from prune filt (S d) l = levels_from prune filt d l.
Proof. exact levels_from_stable. Qed.
(* consequences for the level and post orders: same members as pre-order, all size-1 positions without predicates,
   never the start node *)
Theorem C05_bfs_in_iff_pre : forall prune filt n ti,
  In ti (levels_from prune filt (size n) (direct_infos n)) <-> In ti (pre prune filt n).
Proof. exact bfs_in_iff_pre. Qed.
Theorem C05_bfs_visits_all : forall ct n, wf_node ct n = true ->
  length (levels_from (fun _ => false) (fun _ => true) (size n) (direct_infos n)) = size n - 1.
Proof. exact bfs_visits_all. Qed.
Theorem C05_post_visits_all : forall ct n, wf_node ct n = true ->
  length (post (fun _ => false) (fun _ => true) n) = size n - 1.
Proof. exact post_visits_all. Qed.
Theorem C05_no_self_post : forall prune filt n ti, In ti (post prune filt n) -> size (ti_node ti) < size n.
Proof. exact no_self_post. Qed.
Theorem C05_no_self_bfs : forall prune filt n ti,
  In ti (levels_from prune filt (size n) (direct_infos n)) -> size (ti_node ti) < size n.
Proof. exact no_self_bfs. Qed.
(* what the machines read through the class table is what the node stores *)
Theorem C05_infos_direct : forall ct n, wf_node ct n = true -> infos ct n = direct_infos n.
Proof. exact infos_direct. Qed.

(* premises are inhabited: a conforming three-level tree *)
Definition ex_ct : ctable :=
  [ {| cd_name := lit "A"; cd_bases := [];
       cd_own := [ {| fd_name := lit "x"; fd_role := RProp; fd_compare := true; fd_init := true; fd_kwonly := false |};
                   {| fd_name := lit "c"; fd_role := RChild (KOpt true); fd_compare := true; fd_init := true; fd_kwonly := false |};
                   {| fd_name := lit "t"; fd_role := RChild KTup; fd_compare := true; fd_init := true; fd_kwonly := false |} ] |} ].
Definition ex_leaf (a : nat) : node := Node a (lit "A") ONo [(lit "x", VInt 1)] [(lit "c", (ShNone, [])); (lit "t", (ShMany, []))].
Definition ex_tree : node :=
  Node 0 (lit "A") ONo [(lit "x", VInt 0)]
       [(lit "c", (ShOne, [Node 1 (lit "A") ONo [(lit "x", VInt 2)] [(lit "c", (ShNone, [])); (lit "t", (ShMany, [ex_leaf 2; ex_leaf 3]))]]));
        (lit "t", (ShMany, [ex_leaf 4]))].
Example C05_nonvacuous : wf_node ex_ct ex_tree = true /\ size ex_tree = 5
  /\ option_map (map (fun ti => addr (ti_node ti))) (dfs ex_ct (fun _ => false) (fun _ => true) 5 false ex_tree) = Some [1; 2; 3; 4]
  /\ option_map (map (fun ti => addr (ti_node ti))) (dfs ex_ct (fun _ => false) (fun _ => true) 5 true ex_tree) = Some [2; 3; 1; 4]
  /\ option_map (map (fun ti => addr (ti_node ti))) (bfs ex_ct (fun _ => false) (fun _ => true) 5 ex_tree) = Some [1; 4; 2; 3].
Proof. vm_compute. repeat split. Qed.

(* non-vacuity witnesses *)
From Oak Require Import Proofs.C05Witness.
(* the premise wf_node of C05_dfs_pre, C05_dfs_post, C05_bfs, C05_visits_all, C05_infos_direct: a table with a subclass
   (B extends A: merged fields x c t y u), a three-level tree of 7 nodes; the three orders differ and prune / filter act *)
Theorem C05_ex_wf :
  wf_node w5_ct w5_tree = true /\ size w5_tree = 7
  /\ fields_of w5_ct (lit "B") = [w5_fd "x" RProp; w5_fd "c" (RChild (KOpt true)); w5_fd "t" (RChild KTup);
                                    w5_fd "y" RProp; w5_fd "u" (RChild (KOpt false))]
  /\ w5_addrs (dfs w5_ct w5_none w5_all 7 false w5_tree) = Some [1; 2; 3; 5; 4; 6]
  /\ w5_addrs (dfs w5_ct w5_none w5_all 7 true w5_tree) = Some [2; 3; 5; 1; 4; 6]
  /\ w5_addrs (bfs w5_ct w5_none w5_all 7 w5_tree) = Some [1; 4; 6; 2; 3; 5]
  /\ w5_addrs (dfs w5_ct w5_prune w5_all 7 false w5_tree) = Some [1; 4; 6]
  /\ w5_addrs (dfs w5_ct w5_none w5_filt 7 false w5_tree) = Some [2; 4; 6]
  /\ w5_addrs (bfs w5_ct w5_prune w5_filt 7 w5_tree) = Some [4; 6].
Proof. exact w5_wf. Qed.
(* C05_gather: exact and subclass matching differ on this tree *)
Theorem C05_ex_gather :
  wf_node w5_ct w5_tree = true
  /\ option_map (map addr) (gather w5_ct 7 [lit "A"] false w5_all w5_none w5_tree) = Some [1; 2; 3; 5; 4; 6]
  /\ option_map (map addr) (gather w5_ct 7 [lit "A"] true w5_all w5_none w5_tree) = Some [2; 3; 5; 4; 6]
  /\ option_map (map addr) (gather w5_ct 7 [lit "B"] false w5_filt w5_none w5_tree) = Some []
  /\ option_map (map addr) (gather w5_ct 7 [lit "B"; lit "Q"] false w5_all w5_prune w5_tree) = Some [1].
Proof. exact w5_gather. Qed.
(* C05_dfs_td_spec, C05_dfs_bu_spec: a three-entry stack with pending descendants, a non-empty accumulator, fuel = work *)
Theorem C05_ex_stack :
  wfs w5_ct w5_stack /\ work w5_stack <= 6 /\ length w5_stack = 3 /\ work w5_stack = 6
  /\ w5_addrs (dfs_td w5_ct w5_prune w5_filt 6 w5_stack w5_acc) = Some [3; 4; 6]
  /\ w5_addrs (dfs_td w5_ct w5_none w5_filt 6 w5_stack w5_acc) = Some [3; 2; 4; 6]
  /\ w5_addrs (dfs_bu w5_ct w5_none w5_all 6 w5_stack w5_acc) = Some [6; 4; 2; 3; 5; 1; 3].
Proof. exact w5_stack_ok. Qed.
(* C05_no_self, C05_info_sound, C05_info_sound_post: element 1 of a tuple two levels down is yielded (and is not
   when its parent is pruned); its parent is not the start node *)
Theorem C05_ex_member :
  wf_node w5_ct w5_tree = true
  /\ In w5_ti_3 (pre w5_none w5_odd w5_tree) /\ In w5_ti_3 (post w5_none w5_odd w5_tree)
  /\ In w5_ti_mid (pre w5_prune w5_odd w5_tree)
  /\ ~ In w5_ti_3 (pre w5_prune w5_odd w5_tree)
  /\ size (ti_node w5_ti_3) = 1 /\ ti_parent w5_ti_3 <> w5_tree
  /\ child_at (ti_parent w5_ti_3) (ti_field w5_ti_3) (ti_index w5_ti_3) = Some (w5_leaf 3).
Proof. exact w5_member. Qed.
