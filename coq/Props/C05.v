(* C05 - Traversals visit exactly the descendants, in order, with exact position info.
   ONLY statements; proofs are `exact <lemma of Proofs/TraverseProofs.v>`.
   The orders pre / post / levels_from (Spec/TraverseSpec.v) are plain structural recursion over the stored tree;
   dfs / bfs / gather (Model/Traverse.v) are the stack / deque machines of node.py. prune and filt are arbitrary
   functions; wf_node = the node conforms to its class declaration. *)
From Oak Require Import Spec.TraverseSpec Proofs.TraverseProofs.

Theorem C05_dfs_pre : forall ct prune filt n, wf_node ct n = true ->
  dfs ct prune filt (size n) false n = Some (pre prune filt n).
Proof. exact dfs_pre. Qed.
Theorem C05_dfs_post : forall ct prune filt n, wf_node ct n = true ->
  dfs ct prune filt (size n) true n = Some (post prune filt n).
Proof. exact dfs_post. Qed.
Theorem C05_bfs : forall ct prune filt n, wf_node ct n = true ->
  bfs ct prune filt (size n) n = Some (levels_from prune filt (size n) (direct_infos n)).
Proof. exact bfs_levels. Qed.
(* the machines for any stack / queue content (the invariant behind the three above) *)
Theorem C05_dfs_td_spec : forall ct prune filt fuel st acc, wfs ct st -> work st <= fuel ->
  dfs_td ct prune filt fuel st acc = Some (rev acc ++ flat_map (pre_info prune filt) st).
Proof. exact dfs_td_spec. Qed.
Theorem C05_dfs_bu_spec : forall ct prune filt fuel st acc, wfs ct st -> work st <= fuel ->
  dfs_bu ct prune filt fuel st acc = Some (flat_map (post_info prune filt) (rev st) ++ acc).
Proof. exact dfs_bu_spec. Qed.
(* the orders unfold position by position: pruned => offered to the filter, descendants skipped *)
Theorem C05_pre_unfold : forall prune filt p, pre prune filt p = flat_map (pre_info prune filt) (direct_infos p).
Proof. exact pre_unfold. Qed.
Theorem C05_post_unfold : forall prune filt p, post prune filt p = flat_map (post_info prune filt) (direct_infos p).
Proof. exact post_unfold. Qed.
(* the start node is never yielded *)
Theorem C05_no_self : forall prune filt n ti, In ti (pre prune filt n) -> size (ti_node ti) < size n.
Proof. exact pre_smaller. Qed.
(* a filtered-out node is skipped without affecting descent *)
Theorem C05_filter_commutes : forall prune filt n, pre prune filt n = filter filt (pre prune (fun _ => true) n).
Proof. exact filter_commutes. Qed.
Theorem C05_filter_commutes_post : forall prune filt n, post prune filt n = filter filt (post prune (fun _ => true) n).
Proof. exact filter_commutes_post. Qed.
(* exact position info *)
Theorem C05_info_sound : forall ct prune filt n, wf_node ct n = true -> forall ti, In ti (pre prune filt n) ->
  child_at (ti_parent ti) (ti_field ti) (ti_index ti) = Some (ti_node ti).
Proof. exact info_sound. Qed.
Theorem C05_info_sound_post : forall ct prune filt n, wf_node ct n = true -> forall ti, In ti (post prune filt n) ->
  child_at (ti_parent ti) (ti_field ti) (ti_index ti) = Some (ti_node ti).
Proof. exact info_sound_post. Qed.
(* without prune and filter every position below the start node is yielded (count = size - 1) *)
Theorem C05_visits_all : forall ct n, wf_node ct n = true ->
  length (pre (fun _ => false) (fun _ => true) n) = size n - 1.
Proof. exact visits_all. Qed.
Theorem C05_gather : forall ct classes exact extra prune n, wf_node ct n = true ->
  gather ct (size n) classes exact extra prune n =
  Some (map ti_node (pre prune (fun ti => class_filter ct classes exact ti && extra ti) n)).
Proof. exact gather_spec. Qed.
(* what the machines read through the class table is what the node stores *)
Theorem C05_infos_direct : forall ct n, wf_node ct n = true -> infos ct n = direct_infos n.
Proof. exact infos_direct. Qed.

(* premises are inhabited: a conforming three-level tree *)
Definition ex_ct : ctable :=
  [ {| cd_name := lit "A"; cd_bases := [];
       cd_own := [ {| fd_name := lit "x"; fd_role := RProp; fd_compare := true; fd_init := true; fd_kwonly := false |};
                   {| fd_name := lit "c"; fd_role := RChild (KOpt true); fd_compare := true; fd_init := true; fd_kwonly := false |};
                   {| fd_name := lit "t"; fd_role := RChild KTup; fd_compare := true; fd_init := true; fd_kwonly := false |} ] |} ].
Definition ex_leaf (a : nat) : node := Node a (lit "A") ONo [(lit "x", VInt 1)] [(lit "c", (ShNone, [])); (lit "t", (ShMany, []))].
Definition ex_tree : node :=
  Node 0 (lit "A") ONo [(lit "x", VInt 0)]
       [(lit "c", (ShOne, [Node 1 (lit "A") ONo [(lit "x", VInt 2)] [(lit "c", (ShNone, [])); (lit "t", (ShMany, [ex_leaf 2; ex_leaf 3]))]]));
        (lit "t", (ShMany, [ex_leaf 4]))].
Example C05_nonvacuous : wf_node ex_ct ex_tree = true /\ size ex_tree = 5
  /\ option_map (map (fun ti => addr (ti_node ti))) (dfs ex_ct (fun _ => false) (fun _ => true) 5 false ex_tree) = Some [1; 2; 3; 4]
  /\ option_map (map (fun ti => addr (ti_node ti))) (dfs ex_ct (fun _ => false) (fun _ => true) 5 true ex_tree) = Some [2; 3; 1; 4]
  /\ option_map (map (fun ti => addr (ti_node ti))) (bfs ex_ct (fun _ => false) (fun _ => true) 5 ex_tree) = Some [1; 4; 2; 3].
Proof. vm_compute. repeat split. Qed.
