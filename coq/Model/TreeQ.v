(* tree.py: the two tables of Tree.__init__ filled from one dfs(), and every query.  Definitions only.
   Tables are Python dicts keyed by id(node) (object identity = [addr]) after repair D15. *)
From Oak Require Export Model.Traverse.

(* result of a query: a value, or the exception kind it raises *)
Inductive res (A : Type) := Ok (a : A) | KeyError | ValueError.
Arguments Ok {A} a. Arguments KeyError {A}. Arguments ValueError {A}.

(* dict with int keys, insertion ordered: d[k] (None = KeyError), d[k] = v (in place when present) *)
Fixpoint dget {V} (k : nat) (d : list (nat * V)) : option V :=
  match d with
  | [] => None
  | (k', v) :: r => if Nat.eqb k' k then Some v else dget k r
  end.
Fixpoint dset {V} (k : nat) (v : V) (d : list (nat * V)) : list (nat * V) :=
  match d with
  | [] => [(k, v)]
  | (k', v') :: r => if Nat.eqb k' k then (k, v) :: r else (k', v') :: dset k v r
  end.
Definition dmem {V} (k : nat) (d : list (nat * V)) : bool := match dget k d with Some _ => true | None => false end.

Record ptree := { t_root : node;
                  t_pinfo : list (nat * tinfo);     (* _node_to_parent_info: ParentInfo(parent, field, findex) *)
                  t_xpath : list (nat * pystr) }.   (* _node_to_xpath *)

Definition no_prune (_ : tinfo) : bool := false.
Definition all_pos (_ : tinfo) : bool := true.

(* f"[{n.findex or '0'}]": None and 0 are falsy *)
Definition idx_str (i : option nat) : pystr :=
  match i with
  | Some (S k) => dec (S k)
  | _ => lit "0"
  end.
(* f"/@{n.field.name}[{n.findex or '0'}]{n.node.__class__.__name__}" *)
Definition xp_seg (ti : tinfo) : pystr :=
  lit "/@" ++ ti_field ti ++ lit "[" ++ idx_str (ti_index ti) ++ lit "]" ++ cls (ti_node ti).
Definition root_xpath (root : node) : pystr := lit "/@root[0]" ++ cls root.

(* one iteration of `for n in root.dfs()`; None = the KeyError of self._node_to_xpath[id(n.parent)] *)
Definition tree_step (acc : option (list (nat * tinfo) * list (nat * pystr))) (ti : tinfo)
  : option (list (nat * tinfo) * list (nat * pystr)) :=
  match acc with
  | None => None
  | Some (pinfo, xp) =>
    let pinfo' := dset (addr (ti_node ti)) ti pinfo in
    match dget (addr (ti_parent ti)) xp with
    | None => None
    | Some pxp => Some (pinfo', dset (addr (ti_node ti)) (pxp ++ xp_seg ti) xp)
    end
  end.

(* Tree(root); None = out of fuel (or the KeyError above): never for conforming nodes (TreeQProofs.build_ok) *)
Definition tree_build (ct : ctable) (root : node) : option ptree :=
  match dfs ct no_prune all_pos (size root) false root with
  | None => None
  | Some tis =>
    match fold_left tree_step tis (Some ([], [(addr root, root_xpath root)])) with
    | None => None
    | Some (pinfo, xp) => Some {| t_root := root; t_pinfo := pinfo; t_xpath := xp |}
    end
  end.

Definition same (a b : node) : bool := Nat.eqb (addr a) (addr b).     (* a is b *)

Definition get_xpath (t : ptree) (x : node) : res pystr :=
  match dget (addr x) (t_xpath t) with Some s => Ok s | None => KeyError end.

Definition get_parent_info (t : ptree) (x : node) : res (option tinfo) :=
  if same x (t_root t) then Ok None
  else match dget (addr x) (t_pinfo t) with Some ti => Ok (Some ti) | None => KeyError end.

Definition get_parent (t : ptree) (x : node) : res (option node) :=
  if same x (t_root t) then Ok None
  else match dget (addr x) (t_pinfo t) with Some ti => Ok (Some (ti_parent ti)) | None => KeyError end.

Definition is_root (t : ptree) (x : node) : bool := same (t_root t) x.
Definition is_in_tree (t : ptree) (x : node) : bool := dmem (addr x) (t_xpath t).

(* the generator get_ancestors run until it ends: the nodes it yields and whether it ended by raising KeyError.
   `while parent is not None: yield parent; parent = self.get_parent(parent)` *)
Fixpoint anc_loop (fuel : nat) (t : ptree) (parent : option node) : option (list node * bool) :=
  match parent with
  | None => Some ([], false)
  | Some p =>
    match fuel with
    | 0 => None
    | S f =>
      match get_parent t p with
      | Ok p' => match anc_loop f t p' with Some (l, e) => Some (p :: l, e) | None => None end
      | _ => Some ([p], true)
      end
    end
  end.
Definition ancestors_gen (t : ptree) (x : node) : option (list node * bool) :=
  match get_parent t x with
  | Ok p => anc_loop (size (t_root t)) t p
  | _ => Some ([], true)
  end.

(* list(tree.get_ancestors(x)) *)
Definition get_ancestors (t : ptree) (x : node) : option (res (list node)) :=
  match ancestors_gen t x with
  | None => None
  | Some (l, false) => Some (Ok l)
  | Some (_, true) => Some KeyError
  end.

(* `for a in self.get_ancestors(node): if a is ancestor: return True` / `return False` *)
Definition is_ancestor (t : ptree) (x anc : node) : option (res bool) :=
  match ancestors_gen t x with
  | None => None
  | Some (l, e) => Some (if existsb (same anc) l then Ok true else if e then KeyError else Ok false)
  end.

Definition class_test (ct : ctable) (classes : list pystr) (exact : bool) (a : node) : bool :=
  if exact then existsb (pystr_eqb (cls a)) classes        (* type(ancestor) in ancestor_classes *)
  else existsb (subclass ct (cls a)) classes.              (* isinstance(ancestor, ancestor_classes) *)
Definition get_first_ancestor_of_type (ct : ctable) (t : ptree) (x : node) (classes : list pystr) (exact : bool)
  : option (res (option node)) :=
  match ancestors_gen t x with
  | None => None
  | Some (l, e) =>
    Some (match find (class_test ct classes exact) l with
          | Some a => Ok (Some a)
          | None => if e then KeyError else Ok None
          end)
  end.

(* get_depth(node, relative_to, check_ancestor) *)
Fixpoint get_depth (fuel : nat) (t : ptree) (x : node) (rel : option node) (check : bool) : option (res nat) :=
  match fuel with
  | 0 => None
  | S f =>
    match (match rel, check with
           | Some r, true => is_ancestor t x r
           | _, _ => Some (Ok true)
           end) with
    | None => None
    | Some KeyError => Some KeyError
    | Some ValueError => Some ValueError
    | Some (Ok false) => Some ValueError            (* relative_to must be an ancestor of the node *)
    | Some (Ok true) =>
      match get_parent t x with
      | KeyError => Some KeyError
      | ValueError => Some ValueError
      | Ok None => Some (Ok 0)
      | Ok (Some p) =>
        if (match rel with Some r => same p r | None => false end) then Some (Ok 1)
        else match get_depth f t p rel false with
             | Some (Ok d) => Some (Ok (d + 1))
             | o => o
             end
      end
    end
  end.
Definition depth (t : ptree) (x : node) (rel : option node) (check : bool) : option (res nat) :=
  get_depth (S (size (t_root t))) t x rel check.

(* ---- a small tree used by the Examples here and in Props ---- *)
Definition ex_ct : ctable :=
  [ {| cd_name := lit "L"; cd_bases := []; cd_own := [] |};
    {| cd_name := lit "M"; cd_bases := [lit "L"]; cd_own := [] |};
    {| cd_name := lit "P"; cd_bases := [];
       cd_own := [ {| fd_name := lit "child"; fd_role := RChild (KOpt false); fd_compare := true; fd_init := true; fd_kwonly := false |};
                   {| fd_name := lit "items"; fd_role := RChild KTup; fd_compare := true; fd_init := true; fd_kwonly := false |} ] |} ].
Definition ex_leaf (a : nat) (c : string) : node := Node a (lit c) ONo [] [].
Definition ex_p (a : nat) (child : node) (items : list node) : node :=
  Node a (lit "P") ONo [] [(lit "child", (ShOne, [child])); (lit "items", (ShMany, items))].
(* P1( child = P2(child = L3, items = ()), items = (L4, M5, L6) ); L3, L4, L6 are content-identical twins *)
Definition ex_root : node := ex_p 1 (ex_p 2 (ex_leaf 3 "L") []) [ex_leaf 4 "L"; ex_leaf 5 "M"; ex_leaf 6 "L"].

Example ex_build_xpaths :
  option_map (fun t => map snd (t_xpath t)) (tree_build ex_ct ex_root)
  = Some [lit "/@root[0]P"; lit "/@root[0]P/@child[0]P"; lit "/@root[0]P/@child[0]P/@child[0]L";
          lit "/@root[0]P/@items[0]L"; lit "/@root[0]P/@items[1]M"; lit "/@root[0]P/@items[2]L"].
Proof. vm_compute. reflexivity. Qed.
Example ex_depth :
  option_map (fun t => (depth t (ex_leaf 3 "L") None true, depth t (ex_leaf 3 "L") (Some (ex_leaf 2 "")) true,
                        depth t (ex_leaf 3 "L") (Some (ex_leaf 4 "")) true, depth t (ex_leaf 9 "L") None true))
             (tree_build ex_ct ex_root)
  = Some (Some (Ok 2), Some (Ok 1), Some ValueError, Some KeyError).
Proof. vm_compute. reflexivity. Qed.
