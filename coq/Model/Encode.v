(* The digest preimages of ASTNode.__post_init__ (node.py:202-242), byte for byte. Definitions only.
   H is the digest (blake2b hexdigest at config.ID_DIGEST_SIZE): a variable, never modelled. *)
From Oak Require Export Model.Access.

(* rendering of a property value: str(val) before the D2 repair; after it, frozensets are rendered with
   their elements' reprs sorted (and tuples recursively), so that the rendering is a function of the value *)
Fixpoint stable_repr (v : pval) : pystr :=
  match v with
  | VTuple l =>
      lit "(" ++ join_with (lit ", ") (map stable_repr l) ++ (match l with [_] => lit "," | _ => [] end) ++ lit ")"
  | VFset l =>
      lit "frozenset({" ++ join_with (lit ", ") (isort pystr_leb (map stable_repr l)) ++ lit "})"
  | _ => py_repr v
  end.
Definition stable_str (v : pval) : pystr :=
  match v with
  | VTuple _ | VFset _ => stable_repr v
  | _ => py_str v
  end.

Record variant := { v_framed : bool;    (* D1 repaired: values length-framed in the content_id preimage *)
                    v_stable : bool }.  (* D2 repaired: canonical frozenset rendering *)
Definition current : variant := {| v_framed := true; v_stable := true |}.
Definition legacy_enc : variant := {| v_framed := false; v_stable := false |}.

Definition render (vr : variant) (v : pval) : pystr := if v_stable vr then stable_str v else py_str v.
Definition frame (s : pystr) : pystr := dec (cplen s) ++ lit ":" ++ s.

(* i or -1 *)
Definition ridx (i : option nat) : pystr :=
  match i with None | Some 0 => lit "-1" | Some k => dec k end.

Definition prop_piece (vr : variant) (for_cid : bool) (name : pystr) (v : pval) : pystr :=
  let s := render vr v in
  lit ":" ++ name ++ lit "=" ++ tytag v ++ lit "(" ++ (if for_cid && v_framed vr then frame s else s) ++ lit ")".

Section Enc.
  Variable H : pystr -> pystr.
  Variable ct : ctable.
  Variable vr : variant.

  (* comparable properties, sorted by name: get_properties(skip_*=True, skip_non_compare=True, sort_keys=True) *)
  Definition enc_flags : pflags :=
    {| skip_id := true; skip_origin := true; skip_content_id := true; skip_non_compare := true; skip_non_init := false |}.
  Definition enc_props (c : pystr) (ps : list (pystr * pval)) : list (pystr * pval) :=
    flat_map (fun f => match assoc (fd_name f) ps with Some v => [(fd_name f, v)] | None => [] end)
             (get_properties_fields true ct c enc_flags true).

  Definition props_data (for_cid : bool) (c : pystr) (ps : list (pystr * pval)) : pystr :=
    flat_map (fun p => prop_piece vr for_cid (fst p) (snd p)) (enc_props c ps).

  (* per child: (content_id, origin fqn) *)
  Definition kid_digests := list (pystr * (kshape * list (pystr * pystr))).
  Definition kids_cid_data (c : pystr) (kd : kid_digests) : pystr :=
    flat_map (fun e => match e with (d, f, i) => lit ":" ++ f ++ lit "[" ++ ridx i ++ lit "]=" ++ fst d end)
             (edges_view (kid_fields ct c true) kd).
  Definition kids_id_data (c : pystr) (kd : kid_digests) : pystr :=
    flat_map (fun e => match e with (d, f, i) => lit ":" ++ f ++ lit "[" ++ ridx i ++ lit "]=" ++ fst d ++ lit "@" ++ snd d end)
             (edges_view (kid_fields ct c true) kd).

  Definition cid_data_of (c : pystr) (ps : list (pystr * pval)) (kd : kid_digests) : pystr :=
    c ++ props_data true c ps ++ kids_cid_data c kd.
  Definition id_data_of (c : pystr) (o : origin) (ps : list (pystr * pval)) (kd : kid_digests) : pystr :=
    c ++ lit "@" ++ ofqn o ++ props_data false c ps ++ kids_id_data c kd.

  Fixpoint content_id (n : node) : pystr :=
    match n with
    | Node _ c _ ps ks =>
      H (cid_data_of c ps
           (map (fun k => (fst k, (fst (snd k), map (fun m => (content_id m, ofqn (norigin m))) (snd (snd k))))) ks))
    end.

  Definition digests_of (n : node) : kid_digests :=
    map (fun k => (fst k, (fst (snd k), map (fun m => (content_id m, ofqn (norigin m))) (snd (snd k))))) (nkids n).
  Definition cid_data (n : node) : pystr := cid_data_of (cls n) (nprops n) (digests_of n).
  Definition id_data (n : node) : pystr := id_data_of (cls n) (norigin n) (nprops n) (digests_of n).
  Definition base_id (n : node) : pystr := H (id_data n).

  (* is_equal (node.py:474-483) *)
  Definition is_equal (a b : node) : bool := pystr_eqb (cls a) (cls b) && pystr_eqb (content_id a) (content_id b).
End Enc.
