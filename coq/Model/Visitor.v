(* visitor.py (ASTVisitor.visit, ASTTransformVisitor._transform_children / generic_visit / transform) and
   node.py ASTNode.accept, transcribed. Definitions only (plus Examples by vm_compute).

   A visitor class is given by its rule table: which visit_<Class> methods it defines and what each of them
   does (the family of rule sets of property C09).  Object identity is the node address; objects created while
   the transformation runs (dataclasses.replace) get the next number of an allocation counter. *)
From Oak Require Export Model.Access.
From Oak Require Import Base.Term.

(* ---------- rule sets ---------- *)
Inductive action :=
| AKeep                                  (* def visit_C(self, n): return n                  (children not visited) *)
| AGeneric                               (* return self.generic_visit(n) *)
| ASetProp (f : pystr) (v : pval)        (* return n.replace(f=v)                            (children not visited) *)
| AGenSetProp (f : pystr) (v : pval)     (* m = self.generic_visit(n); return m.replace(f=v) (bottom-up rewrite) *)
| AReplaceBy (t : node)                  (* return T  where T is a node built before the call *)
| AReplaceNew (t : node)                 (* return dataclasses.replace(T): a new object with T's fields *)
| ARemove                                (* return None *)
| ARaise.                                (* raise RuleError() *)
Definition methods := list (pystr * action).       (* class name C |-> body of visit_C; absent: not defined *)

Definition has_method (ms : methods) (c : pystr) : bool :=
  match assoc c ms with Some _ => true | None => false end.

(* ---------- ASTNode.accept (node.py:451-496) ----------
   strict: getattr(visitor, "visit_" + type(self).__name__, None)
   else  : the first class of getmro(type(self))[:-1] (everything but object) for which the attribute exists;
   None = no method found: visitor.generic_visit is called.
   [mro] of the class table lists the class, its bases and ASTNode (classes between ASTNode and object are not
   ASTNode classes: a rule set never names them). *)
Definition dispatch (ct : ctable) (strict : bool) (has : pystr -> bool) (c : pystr) : option pystr :=
  if strict then (if has c then Some c else None)
  else find has (mro ct c).

(* ---------- state threaded through a transformation ---------- *)
Record vst := { next : nat;                               (* allocation counter: address of the next new object *)
                calls : list (nat * option pystr) }.      (* accept() decisions, latest first: (node, visit_<C> | generic) *)
Definition bump (s : vst) : vst := {| next := S (next s); calls := calls s |}.
Definition logc (s : vst) (a : nat) (d : option pystr) : vst := {| next := next s; calls := (a, d) :: calls s |}.

Inductive result := RNode (n : node) | RNone | RErr.       (* a node, None, an exception left the call *)

(* ---------- dataclasses.replace(n, **changes) ----------
   a new object (address a) of the same class with the same origin; every init field is copied unless named in
   the changes. (Non-init property fields are re-initialised from their default by dataclasses; the model keeps
   the value, see the assumption in design.d/C09.md. id / content_id are recomputed and not part of a node term.) *)
Definition upd {A} (chg : list (pystr * A)) (kv : pystr * A) : pystr * A :=
  match assoc (fst kv) chg with Some v => (fst kv, v) | None => kv end.
Definition dc_replace (a : nat) (n : node) (pchg : list (pystr * pval)) (kchg : list (pystr * (kshape * list node))) : node :=
  Node a (cls n) (norigin n) (map (upd pchg) (nprops n)) (map (upd kchg) (nkids n)).

(* n.replace(f=v) for a property field: TypeError when the class has no such field (unexpected keyword),
   ValueError when it is init=False; both leave the visitor method as an exception *)
Definition set_prop (ct : ctable) (a : nat) (n : node) (f : pystr) (v : pval) : option node :=
  match find (fun d => pystr_eqb (fd_name d) f) (prop_fields ct (cls n)) with
  | Some d => if fd_init d then Some (dc_replace a n [(f, v)] []) else None
  | None => None
  end.

(* ---------- dict / set used by _transform_children ---------- *)
Definition changes := list (pystr * (kshape * list node)).    (* insertion-ordered dict; (ShMany, l) is the list/tuple *)
Fixpoint dict_set {A} (k : pystr) (v : A) (d : list (pystr * A)) : list (pystr * A) :=
  match d with
  | [] => [(k, v)]
  | (k', v') :: r => if pystr_eqb k' k then (k, v) :: r else (k', v') :: dict_set k v r
  end.
Definition dict_has {A} (k : pystr) (d : list (pystr * A)) : bool :=
  match assoc k d with Some _ => true | None => false end.
Definition set_add (k : pystr) (m : list pystr) : list pystr :=
  if existsb (pystr_eqb k) m then m else m ++ [k].
(* changes[fname].append(x) *)
Definition dict_append (k : pystr) (x : node) (d : changes) : changes :=
  match assoc k d with
  | Some (sh, l) => dict_set k (sh, l ++ [x]) d
  | None => d
  end.

Definition visitfn := node -> vst -> option (vst * result).

(* the for loop of _transform_children (visitor.py:88-114) over (child, f, index) triples; an exception raised
   by self.visit(child) leaves the loop at once.  inl tt = exception. *)
Fixpoint tc_loop (v : visitfn) (edges : list (node * pystr * option nat)) (s : vst) (chg : changes) (marked : list pystr)
  : option (vst * option (changes * list pystr)) :=
  match edges with
  | [] => Some (s, Some (chg, marked))
  | (child, fname, index) :: rest =>
    match index with
    | Some _ =>
      let chg1 := if dict_has fname chg then chg else dict_set fname (ShMany, []) chg in
      do sr <- v child s;
      match snd sr with
      | RErr => Some (fst sr, None)
      | RNode c' =>
        let chg2 := dict_append fname c' chg1 in
        let marked2 := if Nat.eqb (addr c') (addr child) then marked else set_add fname marked in   (* is not *)
        tc_loop v rest (fst sr) chg2 marked2
      | RNone => tc_loop v rest (fst sr) chg1 (set_add fname marked)
      end
    | None =>
      do sr <- v child s;
      match snd sr with
      | RErr => Some (fst sr, None)
      | RNode c' =>
        tc_loop v rest (fst sr) (dict_set fname (ShOne, [c']) chg)
                (if Nat.eqb (addr c') (addr child) then marked else set_add fname marked)
      | RNone => tc_loop v rest (fst sr) (dict_set fname (ShNone, []) chg) (set_add fname marked)
      end
    end
  end.

(* _transform_children: {} when nothing is marked, else the marked entries (lists become tuples) *)
Definition transform_children (ct : ctable) (v : visitfn) (n : node) (s : vst) : option (vst * option changes) :=
  do r <- tc_loop v (get_child_nodes_with_field ct n false) s [] [];
  match snd r with
  | None => Some (fst r, None)
  | Some (chg, marked) =>
    match marked with
    | [] => Some (fst r, Some [])
    | _ => Some (fst r, Some (filter (fun kv => existsb (pystr_eqb (fst kv)) marked) chg))
    end
  end.

(* generic_visit (visitor.py:132-143) *)
Definition generic_visit (ct : ctable) (v : visitfn) (n : node) (s : vst) : option (vst * result) :=
  do r <- transform_children ct v n s;
  match snd r with
  | None => Some (fst r, RErr)
  | Some [] => Some (fst r, RNode n)
  | Some chg => Some (bump (fst r), RNode (dc_replace (next (fst r)) n [] chg))
  end.

Section Visit.
  Variables (ct : ctable) (strict : bool) (ms : methods).

  (* visitor.visit(n) = n.accept(visitor); fuel bounds the depth of the recursion *)
  Fixpoint visit (fuel : nat) (n : node) (s : vst) : option (vst * result) :=
    match fuel with
    | 0 => None
    | S k =>
      let d := dispatch ct strict (has_method ms) (cls n) in
      let s0 := logc s (addr n) d in
      match d with
      | None => generic_visit ct (visit k) n s0
      | Some m =>
        match assoc m ms with
        | None => generic_visit ct (visit k) n s0        (* not reachable: has_method ms m *)
        | Some AKeep => Some (s0, RNode n)
        | Some AGeneric => generic_visit ct (visit k) n s0
        | Some (ASetProp f v) =>
          match set_prop ct (next s0) n f v with
          | Some n' => Some (bump s0, RNode n')
          | None => Some (s0, RErr)
          end
        | Some (AGenSetProp f v) =>
          do r <- generic_visit ct (visit k) n s0;
          match snd r with
          | RNode m' =>
            match set_prop ct (next (fst r)) m' f v with
            | Some n' => Some (bump (fst r), RNode n')
            | None => Some (fst r, RErr)
            end
          | other => Some (fst r, other)
          end
        | Some (AReplaceBy t) => Some (s0, RNode t)
        | Some (AReplaceNew t) => Some (bump s0, RNode (dc_replace (next s0) t [] []))
        | Some ARemove => Some (s0, RNone)
        | Some ARaise => Some (s0, RErr)
        end
      end
    end.

  (* depth of a tree: enough fuel *)
  Fixpoint depth (n : node) : nat :=
    match n with
    | Node _ _ _ _ ks => S (list_max (map (fun k => list_max (map depth (snd (snd k)))) ks))
    end.

  (* ASTTransformVisitor.transform = visit *)
  Definition transform (n : node) (s : vst) : option (vst * result) := visit (depth n) n s.
End Visit.

(* ---------- examples ---------- *)
Module VisitorExamples.
  Definition fld (n : string) (r : frole) : fdecl := {| fd_name := lit n; fd_role := r; fd_compare := true; fd_init := true; fd_kwonly := false |}.
  (* class B(ASTNode): x: int ; class C(B): pass ; class P(ASTNode): one: B | None; many: tuple[B, ...] *)
  Definition ct0 : ctable :=
    [ {| cd_name := lit "B"; cd_bases := []; cd_own := [fld "x" RProp] |};
      {| cd_name := lit "C"; cd_bases := [lit "B"]; cd_own := [] |};
      {| cd_name := lit "P"; cd_bases := []; cd_own := [fld "one" (RChild (KOpt true)); fld "many" (RChild KTup)] |} ].
  Definition leaf (a : nat) (c : string) (x : Z) : node := Node a (lit c) ONo [(lit "x", VInt x)] [].
  Definition tree0 : node :=
    Node 1 (lit "P") ONo [] [(lit "one", (ShOne, [leaf 2 "C" 5])); (lit "many", (ShMany, [leaf 3 "B" 1; leaf 4 "C" 2; leaf 5 "B" 3]))].
  Definition s0 : vst := {| next := 100; calls := [] |}.

  (* non-strict: visit_B catches C as well; strict: only B *)
  Example dispatch_nonstrict : dispatch ct0 false (has_method [(lit "B", ARemove)]) (lit "C") = Some (lit "B").
  Proof. vm_compute. reflexivity. Qed.
  Example dispatch_strict : dispatch ct0 true (has_method [(lit "B", ARemove)]) (lit "C") = None.
  Proof. vm_compute. reflexivity. Qed.

  (* strict visitor removing B: the middle element (a C) stays, first and last are dropped, parent is new *)
  Example remove_first_last :
    option_map snd (transform ct0 true [(lit "B", ARemove)] tree0 s0) =
    Some (RNode (Node 100 (lit "P") ONo [] [(lit "one", (ShOne, [leaf 2 "C" 5])); (lit "many", (ShMany, [leaf 4 "C" 2]))])).
  Proof. vm_compute. reflexivity. Qed.
  (* non-strict: every B and C goes; the optional single field becomes None *)
  Example remove_all :
    option_map snd (transform ct0 false [(lit "B", ARemove)] tree0 s0) =
    Some (RNode (Node 100 (lit "P") ONo [] [(lit "one", (ShNone, [])); (lit "many", (ShMany, []))])).
  Proof. vm_compute. reflexivity. Qed.
  (* nothing applies: the very same tree, no allocation *)
  Example unchanged_same :
    option_map (fun r => (next (fst r), snd r)) (transform ct0 true [(lit "Q", ARemove)] tree0 s0) = Some (100, RNode tree0).
  Proof. vm_compute. reflexivity. Qed.
  Example raise_propagates :
    option_map snd (transform ct0 true [(lit "C", ARaise)] tree0 s0) = Some RErr.
  Proof. vm_compute. reflexivity. Qed.
End VisitorExamples.
