(* Accessors that codegen.py generates per class (get_properties, get_child_nodes*, iter_child_fields)
   and their static counterparts in node.py, as functions of (class table, node). Definitions only. *)
From Oak Require Export Model.Node.

Record pflags := { skip_id : bool; skip_origin : bool; skip_content_id : bool;
                   skip_non_compare : bool; skip_non_init : bool }.
Definition default_flags : pflags :=
  {| skip_id := true; skip_origin := true; skip_content_id := true; skip_non_compare := false; skip_non_init := false |}.

(* the three fields every node inherits from ASTNode, in dataclass order *)
Definition f_id : fdecl := {| fd_name := lit "id"; fd_role := RProp; fd_compare := false; fd_init := false; fd_kwonly := false |}.
Definition f_cid : fdecl := {| fd_name := lit "content_id"; fd_role := RProp; fd_compare := false; fd_init := false; fd_kwonly := false |}.
Definition f_origin : fdecl := {| fd_name := lit "origin"; fd_role := RProp; fd_compare := true; fd_init := true; fd_kwonly := true |}.
Definition all_props (ct : ctable) (c : pystr) : list fdecl := f_id :: f_cid :: f_origin :: prop_fields ct c.

(* _gen_get_properties_func._build_body: the if-cascade emitted for one field.
   [fixed]=false is the cascade of the code before the D11 repair (one flag tested only),
   [fixed]=true the repaired one (both flags). *)
Definition yields (fixed : bool) (fl : pflags) (f : fdecl) : bool :=
  if pystr_eqb (fd_name f) (lit "id") then negb (skip_id fl)
  else if pystr_eqb (fd_name f) (lit "content_id") then negb (skip_content_id fl)
  else if pystr_eqb (fd_name f) (lit "origin") then negb (skip_origin fl)
  else if fixed then
    (fd_compare f || negb (skip_non_compare fl)) && (fd_init f || negb (skip_non_init fl))
  else if negb (fd_compare f) then negb (skip_non_compare fl)
  else if negb (fd_init f) then negb (skip_non_init fl)
  else true.

(* get_properties: fields (values are looked up by the caller: user props from the node, the three
   built-ins from the object) *)
Definition get_properties_fields (fixed : bool) (ct : ctable) (c : pystr) (fl : pflags) (sort : bool) : list fdecl :=
  let fs := all_props ct c in
  filter (yields fixed fl) (if sort then sort_fields fs else fs).

Definition get_properties (fixed : bool) (ct : ctable) (n : node) (fl : pflags) (sort : bool)
  : list (pystr * option pval) :=
  map (fun f => (fd_name f, assoc (fd_name f) (nprops n))) (get_properties_fields fixed ct (cls n) fl sort).

(* ASTNode.get_property_fields (node.py:705-748), static.
   [fixed]=false: the code before the D19 repair (the compare/init tests also hit id and content_id, which
   are declared compare=False, init=False); [fixed]=true: built-in fields follow their own flags only. *)
Definition static_yields (fixed : bool) (fl : pflags) (f : fdecl) : bool :=
  if fixed then
    if pystr_eqb (fd_name f) (lit "id") then negb (skip_id fl)
    else if pystr_eqb (fd_name f) (lit "content_id") then negb (skip_content_id fl)
    else if pystr_eqb (fd_name f) (lit "origin") then negb (skip_origin fl)
    else negb ((negb (fd_compare f) && skip_non_compare fl) || (negb (fd_init f) && skip_non_init fl))
  else
  negb ((pystr_eqb (fd_name f) (lit "id") && skip_id fl)
        || (pystr_eqb (fd_name f) (lit "content_id") && skip_content_id fl)
        || (pystr_eqb (fd_name f) (lit "origin") && skip_origin fl)
        || (negb (fd_compare f) && skip_non_compare fl)
        || (negb (fd_init f) && skip_non_init fl)).
Definition get_property_fields (fixed : bool) (ct : ctable) (c : pystr) (fl : pflags) : list fdecl :=
  filter (static_yields fixed fl) (all_props ct c).

(* child accessors *)
Definition kid_fields (ct : ctable) (c : pystr) (sort : bool) : list fdecl :=
  if sort then sort_fields (child_fields ct c) else child_fields ct c.

(* child-field views are polymorphic in what is stored per child, so that the digest computation
   (children replaced by their digests) reads the fields through the very same code *)
Definition field_value {A} (ks : list (pystr * (kshape * list A))) (f : fdecl) : kshape * list A :=
  match assoc (fd_name f) ks with Some v => v | None => (ShNone, []) end.
Definition edges_view {A} (fs : list fdecl) (ks : list (pystr * (kshape * list A))) : list (A * pystr * option nat) :=
  flat_map (fun f => map (fun ci => (fst ci, fd_name f, snd ci)) (field_children (field_value ks f))) fs.

(* get_child_nodes_with_field: (child, field name, index) *)
Definition get_child_nodes_with_field (ct : ctable) (n : node) (sort : bool) : list (node * pystr * option nat) :=
  edges_view (kid_fields ct (cls n) sort) (nkids n).
Definition get_child_nodes (ct : ctable) (n : node) (sort : bool) : list node :=
  map (fun t => fst (fst t)) (get_child_nodes_with_field ct n sort).
Definition children (ct : ctable) (n : node) : list node := get_child_nodes ct n false.
(* iter_child_fields: the raw field value and the field *)
Definition iter_child_fields (ct : ctable) (n : node) (sort : bool) : list (pystr * (kshape * list node)) :=
  map (fun f => (fd_name f, field_value (nkids n) f)) (kid_fields ct (cls n) sort).
Definition get_child_fields (ct : ctable) (c : pystr) : list pystr := map fd_name (child_fields ct c).
Definition to_properties_dict (fixed : bool) (ct : ctable) (n : node) : list (pystr * option pval) :=
  get_properties fixed ct n default_flags false.
