(* Tree patterns of pyoak/match/pattern.py: the pattern AST (what the grammar of match/grammar.py derives),
   the matcher classes as one datatype, PatternDefInterpreter as [compile], the six _match / match methods as
   [run], MultiPatternMatcher.match as [multi_match], and the pattern cache as a generic keyed table.
   Definitions only (plus Examples).  Oracles (Section variables): the digest H, Python's re (re_ok = re.compile
   succeeds, re_match = re.Pattern.match, i.e. anchored at the start), repr of a node (node_repr). *)
From Oak Require Export Model.Encode.
From Oak Require Import Base.Term.
From Coq Require Import List ZArith Bool Ascii.
Import ListNotations.

(* ------------------------------------------------------------------ pattern syntax, as the grammar has it *)
Inductive pat :=
  PTree (cls : option (list pystr))                   (* None = '*', Some [A; B] = A | B *)
        (fs : list (pystr * fspec))                   (* @name spec ... *)
with fspec :=
| FAny (cap : option pystr)                           (* @f            [-> c] *)
| FVal (v : vpat) (cap : option pystr)                (* @f = value    [-> c] *)
| FSeq (items : list (vpat * option pystr))           (* @f = [ v [-> c] ... [* [-> t]] ]  [-> c] *)
       (tail : option (option pystr)) (cap : option pystr)
with vpat :=
| VTree (p : pat) | VVar (x : pystr) | VNoneP | VRegex (r : pystr).

(* ------------------------------------------------------------------ matcher objects *)
Inductive mconst := KNone | KEmpty.                   (* ValueMatcher(None), ValueMatcher(()) *)
Inductive matcher :=
| MAny (name : option pystr)
| MValue (name : option pystr) (k : mconst)
| MRegex (name : option pystr) (r : pystr)
| MVar (name : option pystr) (x : pystr)
| MSeq (name : option pystr) (ms : list matcher) (tail : option matcher)   (* matchers, tail_matcher *)
| MNode (name : option pystr) (types : list pystr) (content : list (pystr * matcher)).

Definition mname (m : matcher) : option pystr :=
  match m with
  | MAny n | MValue n _ | MRegex n _ | MVar n _ | MSeq n _ _ | MNode n _ _ => n
  end.
Definition is_any (m : matcher) : bool := match m with MAny _ => true | _ => false end.

(* SequenceMatcher.__post_init__ (pattern.py:121-130).  None = RuntimeError. *)
Definition seq_post (name : option pystr) (ms : list matcher) (tail : option matcher) : option matcher :=
  match ms, tail with
  | [], None => None
  | _, Some _ => Some (MSeq name ms tail)
  | _, None => if is_any (last ms (MAny None))
               then Some (MSeq name (removelast ms) (Some (last ms (MAny None))))
               else Some (MSeq name ms None)
  end.

(* dataclasses.replace(matcher, name=n): the init fields are passed to the constructor again, __post_init__ runs
   again.  tail_init = tail_matcher is an init field (the D8 repair); before it the stripped tail was dropped. *)
Definition replace_name (tail_init : bool) (m : matcher) (n : option pystr) : option matcher :=
  match m with
  | MAny _ => Some (MAny n)
  | MValue _ k => Some (MValue n k)
  | MRegex _ r => Some (MRegex n r)
  | MVar _ x => Some (MVar n x)
  | MSeq _ ms tail => seq_post n ms (if tail_init then tail else None)
  | MNode _ ty c => Some (MNode n ty c)
  end.

(* ------------------------------------------------------------------ compile = PatternDefInterpreter *)
Inductive perr :=
| ESyntax                (* lark UnexpectedInput: "Incorrect pattern definition. Context:" *)
| EUnknownClass          (* "Unknown AST type: <X>" *)
| ENotNode               (* "<X> is not an AST type" *)
| EDupCapture            (* "Capture name <x> used more than once" *)
| EVarBefore             (* "Pattern uses match variable x before it was captured" *)
| EUnexpected.           (* "Incorrect pattern definition. Unexpected error" (regex does not compile, RuntimeError) *)

Inductive cres (A : Type) := COk (a : A) (seen : list pystr) | CErr (e : perr).
Arguments COk {A}. Arguments CErr {A}.

Definition mem (x : pystr) (l : list pystr) : bool := existsb (pystr_eqb x) l.

(* serialize.TYPES: the classes of the table, ASTNode, and pyoak's own serializable non-node classes *)
Definition builtin_nonnode : list pystr :=
  map lit ["CodeOrigin"; "CodePoint"; "CodeRange"; "EntireSourcePosition"; "FileSource"; "GeneratedCodeOrigin";
           "MemoryTextSource"; "MultiOrigin"; "NoOrigin"; "NoPosition"; "NoSource"; "Origin"; "Position";
           "PositionSet"; "Source"; "SourceSet"; "TextFileSource"; "TextSource"; "XMLFileOrigin"; "XMLPath";
           "ZippedFileSource"]%string.
Definition cls_kind (ct : ctable) (c : pystr) : option bool :=      (* Some true: node class *)
  if pystr_eqb c astnode then Some true
  else match find_class ct c with
       | Some _ => Some true
       | None => if mem c builtin_nonnode then Some false else None
       end.
(* helpers.check_and_get_ast_node_type *)
Definition check_class (ct : ctable) (c : pystr) : option perr :=
  match cls_kind ct c with
  | None => Some EUnknownClass
  | Some false => Some ENotNode
  | Some true => None
  end.
Fixpoint check_classes (ct : ctable) (l : list pystr) : option perr :=
  match l with
  | [] => None
  | c :: r => match check_class ct c with Some e => Some e | None => check_classes ct r end
  end.

(* visiting a list of children left to right, threading the set of captures seen *)
Definition c_list {A B : Type} (f : A -> list pystr -> cres B) : list A -> list pystr -> cres (list B) :=
  fix go (l : list A) (seen : list pystr) {struct l} : cres (list B) :=
    match l with
    | [] => COk [] seen
    | x :: r =>
      match f x seen with
      | CErr e => CErr e
      | COk y seen1 =>
        match go r seen1 with
        | CErr e => CErr e
        | COk ys seen2 => COk (y :: ys) seen2
        end
      end
    end.

Section Compile.
  Variable ct : ctable.
  Variable re_ok : pystr -> bool.          (* re.compile(text) succeeds *)
  Variable tail_init : bool.               (* true = current code (D8 repaired) *)

  (* _check_unique_and_get_capture on an optional capture child *)
  Definition take_capture (cap : option pystr) (seen : list pystr) : cres (option pystr) :=
    match cap with
    | None => COk None seen
    | Some c => if mem c seen then CErr EDupCapture else COk (Some c) (c :: seen)
    end.
  (* "if there is a capture: replace(matcher, name=capture)" *)
  Definition attach (m : matcher) (cap : option pystr) (seen : list pystr) : cres matcher :=
    match take_capture cap seen with
    | CErr e => CErr e
    | COk None seen' => COk m seen'
    | COk (Some c) seen' =>
      match replace_name tail_init m (Some c) with
      | Some m' => COk m' seen'
      | None => CErr EUnexpected
      end
    end.

  Fixpoint c_pat (p : pat) (seen : list pystr) {struct p} : cres matcher :=
    match p with
    | PTree cls fs =>
      match (match cls with None => None | Some l => check_classes ct l end) with
      | Some e => CErr e
      | None =>
        match c_list (fun (fs : pystr * fspec) seen =>
                        match c_fspec (snd fs) seen with
                        | CErr e => CErr e
                        | COk m seen1 => COk (fst fs, m) seen1
                        end) fs seen with
        | CErr e => CErr e
        | COk content seen' =>
          COk (MNode None (match cls with None => [astnode] | Some l => l end) content) seen'
        end
      end
    end
  with c_fspec (s : fspec) (seen : list pystr) {struct s} : cres matcher :=
    match s with
    | FAny cap =>
      match take_capture cap seen with
      | CErr e => CErr e
      | COk n seen' => COk (MAny n) seen'
      end
    | FVal v cap =>
      match c_vpat v seen with
      | CErr e => CErr e
      | COk m seen1 => attach m cap seen1
      end
    | FSeq items tail cap =>
      (* sequence(): one matcher per value (with its capture attached), then the '*' matcher *)
      match c_list (fun (it : vpat * option pystr) seen =>
                      match c_vpat (fst it) seen with
                      | CErr e => CErr e
                      | COk m seen1 => attach m (snd it) seen1
                      end) items seen with
      | CErr e => CErr e
      | COk ms seen1 =>
        match (match tail with
               | None => COk ms seen1
               | Some tc => match take_capture tc seen1 with
                            | CErr e => CErr e
                            | COk n seen2 => COk (ms ++ [MAny n]) seen2
                            end
               end) with
        | CErr e => CErr e
        | COk all seen2 =>
          match all with
          | [] => attach (MValue None KEmpty) cap seen2
          | _ => match seq_post None all None with
                 | None => CErr EUnexpected
                 | Some m => attach m cap seen2
                 end
          end
        end
      end
    end
  with c_vpat (v : vpat) (seen : list pystr) {struct v} : cres matcher :=
    match v with
    | VTree p => c_pat p seen
    | VVar x => if mem x seen then COk (MVar None x) seen else CErr EVarBefore
    | VNoneP => COk (MValue None KNone) seen
    | VRegex r => if re_ok r then COk (MRegex None r) seen else CErr EUnexpected
    end.

  (* PatternDefInterpreter().visit(tree): a fresh interpreter per call *)
  Definition compile (p : pat) : matcher + perr :=
    match c_pat p [] with COk m _ => inl m | CErr e => inr e end.
End Compile.

(* ------------------------------------------------------------------ values a matcher is applied to *)
Inductive mval :=
| XP (v : pval)                  (* a property value; also None of an absent optional child *)
| XN (n : node)                  (* a node *)
| XNs (ns : list node).          (* a tuple of nodes *)

(* capture dictionaries: insertion-ordered, assignment overwrites in place *)
Definition dict := list (pystr * mval).
Fixpoint dset (k : pystr) (v : mval) (d : dict) : dict :=
  match d with
  | [] => [(k, v)]
  | (k', v') :: r => if pystr_eqb k' k then (k', v) :: r else (k', v') :: dset k v r
  end.
Definition dupdate (d new : dict) : dict := fold_left (fun acc kv => dset (fst kv) (snd kv) acc) new d.
Fixpoint dget (k : pystr) (d : dict) : option mval :=
  match d with
  | [] => None
  | (k', v) :: r => if pystr_eqb k' k then Some v else dget k r
  end.

(* (ok, vars) of _match / match; RRaise = VarMatcher raised ASTPatternDefinitionError *)
Inductive res := RFail | ROk (vars : dict) | RRaise.

(* BaseMatcher.match: {self.name: value, **new_vars} *)
Definition named (name : option pystr) (v : mval) (r : res) : res :=
  match r with
  | ROk nv => ROk (match name with None => nv | Some k => dupdate [(k, v)] nv end)
  | o => o
  end.

(* Python == on property values (ints, bools and integral floats compare by number; frozensets as sets) *)
Definition float_int (r : pystr) : option Z :=
  let '(neg, body) := match r with "-"%char :: b => (true, b) | _ => (false, r) end in
  let '(ip, rest) := span is_digit body in
  match ip, rest with
  | _ :: _, ["."%char; "0"%char] => Some (if neg then Z.opp (Z.of_N (undecN ip)) else Z.of_N (undecN ip))
  | _, _ => None
  end.
Definition num_of (v : pval) : option Z :=
  match v with
  | VBool b => Some (if b then 1%Z else 0%Z)
  | VInt z => Some z
  | VFloat r => float_int r
  | _ => None
  end.
Fixpoint py_eq (a b : pval) : bool :=
  match num_of a, num_of b with
  | Some x, Some y => Z.eqb x y
  | _, _ =>
    match a, b with
    | VNone, VNone => true
    | VStr x, VStr y => pystr_eqb x y
    | VEnum c m _, VEnum c' m' _ => pystr_eqb c c' && pystr_eqb m m'
    | VFloat x, VFloat y => pystr_eqb x y
    | VPath x, VPath y => pystr_eqb x y
    | VTuple x, VTuple y =>
      (fix go (x y : list pval) {struct x} : bool :=
         match x, y with
         | [], [] => true
         | p :: x', q :: y' => py_eq p q && go x' y'
         | _, _ => false
         end) x y
    | VFset x, VFset y =>
      forallb (fun p => existsb (fun q => py_eq p q) y) x && forallb (fun q => existsb (fun p => py_eq p q) x) y
    | _, _ => false
    end
  end.

(* code points of a str (UTF-8: continuation bytes stay with their lead byte) *)
Fixpoint cp_split (s : pystr) : list pystr :=
  match s with
  | [] => []
  | c :: r =>
    match cp_split r with
    | [] => [[c]]
    | g :: gs => match g with
                 | d :: _ => if is_cont d then (c :: g) :: gs else [c] :: g :: gs
                 | [] => [c] :: gs
                 end
    end
  end.

(* isinstance(value, Sequence): tuples and str; the elements, and value[k:] *)
Definition seq_items (v : mval) : option (list mval) :=
  match v with
  | XNs l => Some (map XN l)
  | XP (VTuple l) => Some (map XP l)
  | XP (VStr s) => Some (map (fun c => XP (VStr c)) (cp_split s))
  | _ => None
  end.
Definition seq_drop (k : nat) (v : mval) : mval :=
  match v with
  | XNs l => XNs (skipn k l)
  | XP (VTuple l) => XP (VTuple (skipn k l))
  | XP (VStr s) => XP (VStr (List.concat (skipn k (cp_split s))))
  | o => o
  end.
Definition is_none (v : mval) : bool := match v with XP VNone => true | _ => false end.           (* value == None *)
Definition is_empty_tuple (v : mval) : bool :=                                                      (* value == () *)
  match v with XNs [] | XP (VTuple []) => true | _ => false end.

Fixpoint list_eqb {A} (eq : A -> A -> bool) (x y : list A) : bool :=
  match x, y with
  | [], [] => true
  | a :: x', b :: y' => eq a b && list_eqb eq x' y'
  | _, _ => false
  end.
(* origins of the descendants in pre-order (what _eq_fn walks with dfs) *)
Fixpoint desc_origins (n : node) : list origin :=
  match n with
  | Node _ _ _ _ ks => flat_map (fun k => flat_map (fun m => norigin m :: desc_origins m) (snd (snd k))) ks
  end.

(* the two loops of the _match methods: every sub-matcher in turn, each seeing the captures made so far
   (local_ctx.update(new_vars); ret_vars.update(new_vars)); the first failure ends the loop *)
Definition zip_loop {A : Type} (f : A -> mval -> dict -> res) (fin : dict -> dict -> res)
  : list A -> list mval -> dict -> dict -> res :=
  fix go (l : list A) (items : list mval) (lctx ret : dict) {struct l} : res :=
    match l, items with
    | a :: l', x :: items' =>
      match f a x lctx with
      | ROk nv => go l' items' (dupdate lctx nv) (dupdate ret nv)
      | RFail => RFail
      | RRaise => RRaise
      end
    | _, _ => fin lctx ret                          (* zip is exhausted *)
    end.
Definition field_loop {A : Type} (f : A -> mval -> dict -> res) (getf : pystr -> option mval)
  : list (pystr * A) -> dict -> dict -> res :=
  fix go (l : list (pystr * A)) (lctx ret : dict) {struct l} : res :=
    match l with
    | [] => ROk ret
    | fa :: l' =>
      match getf (fst fa) with
      | None => RFail                                (* not hasattr(value, fname) *)
      | Some fv =>
        match f (snd fa) fv lctx with
        | ROk nv => go l' (dupdate lctx nv) (dupdate ret nv)
        | RFail => RFail
        | RRaise => RRaise
        end
      end
    end.

Section Run.
  Variable H : pystr -> pystr.
  Variable ct : ctable.
  Variable re_match : pystr -> pystr -> bool.     (* re.compile(regex).match(text) is not None *)
  Variable node_repr : node -> pystr.             (* repr(node), the dataclass repr: not modelled *)
  Variable len_fixed : bool.                      (* true = current code (D7 repaired) *)

  Definition cid (n : node) : pystr := content_id H ct current n.
  Definition node_is_equal (a b : node) : bool := is_equal H ct current a b.
  (* node == node (_eq_fn): same class, content and origin, and equal origins all the way down *)
  Definition node_eq (a b : node) : bool :=
    pystr_eqb (cls a) (cls b) && pystr_eqb (cid a) (cid b) && origin_eqb (norigin a) (norigin b)
    && list_eqb origin_eqb (desc_origins a) (desc_origins b).

  (* VarMatcher / the property's "$name equals the value captured earlier":
     content equality when the captured value is a node, == otherwise *)
  Definition veq (w v : mval) : bool :=
    match w, v with
    | XN a, XN b => node_is_equal a b
    | XN _, _ => false
    | XP a, XP b => py_eq a b
    | XP (VTuple []), XNs [] => true
    | XNs [], XP (VTuple []) => true
    | XNs a, XNs b => list_eqb (fun x y => Nat.eqb (addr x) (addr y) || node_eq x y) a b
    | _, _ => false
    end.

  (* str(value) *)
  Definition mstr (v : mval) : pystr :=
    match v with
    | XP p => py_str p
    | XN n => node_repr n
    | XNs l => lit "(" ++ join_with (lit ", ") (map node_repr l) ++ (match l with [_] => lit "," | _ => [] end) ++ lit ")"
    end.

  (* hasattr / getattr for the names the model covers: dataclass fields and content_id *)
  Definition kid_val (k : kshape * list node) : mval :=
    match k with
    | (ShMany, l) => XNs l
    | (ShOne, n :: _) => XN n
    | _ => XP VNone
    end.
  Definition attr (n : node) (f : pystr) : option mval :=
    match assoc f (nprops n) with
    | Some v => Some (XP v)
    | None =>
      match assoc f (nkids n) with
      | Some k => Some (kid_val k)
      | None => if pystr_eqb f (lit "content_id") then Some (XP (VStr (cid n))) else None
      end
    end.

  (* the early exit of SequenceMatcher._match *)
  Definition seq_len_ok (any_tail : bool) (nvalue nmatchers : nat) : bool :=
    if any_tail
    then (if len_fixed then Nat.leb nmatchers nvalue else Z.leb (Z.of_nat nmatchers - 1) (Z.of_nat nvalue))
    else Nat.eqb nvalue nmatchers.

  Fixpoint run (m : matcher) (v : mval) (ctx : dict) {struct m} : res :=
    match m with
    | MAny name => named name v (ROk [])
    | MValue name KNone => named name v (if is_none v then ROk [] else RFail)
    | MValue name KEmpty => named name v (if is_empty_tuple v then ROk [] else RFail)
    | MRegex name r => named name v (if re_match r (mstr v) then ROk [] else RFail)
    | MVar name x =>
      named name v
        match dget x ctx with
        | None => RRaise
        | Some w => if veq w v then ROk [] else RFail
        end
    | MSeq name ms tail =>
      named name v
        match seq_items v with
        | None => RFail
        | Some items =>
          if negb (seq_len_ok (match tail with Some _ => true | None => false end) (length items) (length ms))
          then RFail
          else
            zip_loop run
              (fun lctx ret =>
                 match tail with
                 | None => ROk ret
                 | Some tm =>
                   match run tm (seq_drop (length ms) v) lctx with
                   | ROk nv => ROk (dupdate ret nv)
                   | RFail => ROk ret           (* "_, new_vars = ...": the verdict is ignored, vars are {} *)
                   | RRaise => RRaise
                   end
                 end) ms items ctx []
        end
    | MNode name types content =>
      named name v
        match v with
        | XN n =>
          if negb (existsb (subclass ct (cls n)) types) then RFail
          else
            field_loop run (attr n) content ctx []
        | _ => RFail
        end
    end.

  (* MultiPatternMatcher.match(node, rules): the first rule, in the given order, whose matcher matches *)
  Fixpoint multi_match (rules : list (pystr * matcher)) (v : mval) : option (pystr * res) :=
    match rules with
    | [] => None
    | (name, m) :: r =>
      match run m v [] with
      | RFail => multi_match r v
      | o => Some (name, o)
      end
    end.
End Run.

(* ------------------------------------------------------------------ the matcher cache (_MATCHER_CACHE) *)
Section Cache.
  Variables (K M E : Type).
  Variable keq : K -> K -> bool.
  Variable comp : K -> M + E.                      (* parse + interpret, no state *)
  Definition cache := list (K * M).
  Fixpoint cget (k : K) (c : cache) : option M :=
    match c with
    | [] => None
    | (k', m) :: r => if keq k' k then Some m else cget k r
    end.
  (* NodeMatcher.from_pattern: cached matcher, or compile and remember *)
  Definition from_key (c : cache) (k : K) : cache * (M + E) :=
    match cget k c with
    | Some m => (c, inl m)
    | None =>
      match comp k with
      | inl m => ((k, m) :: c, inl m)
      | inr e => (c, inr e)
      end
    end.
  Definition after (ks : list K) : cache := fold_left (fun c k => fst (from_key c k)) ks [].
End Cache.
