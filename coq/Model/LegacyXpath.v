(* legacy/match/xpath.py: XPathTransformer (steps -> ASTXpathElement / ASTXpathAnywhereElement list, leaf first),
   _match_node_xpath (recursion up the parent chain with the ancestor loop), ASTXpath.match;
   legacy/node.py: _set_xpath / calculate_xpath (108-118, 961-981).  Definitions only.
   The grammar is the one of the current module, so an xpath is the same list of steps (Model/Xpath.v: step, xpath,
   tr_element = XPathTransformer.element / .self / .index_spec after repair D5: int("".join(digits))); the
   text -> steps direction (lark) is tied by the correspondence run.  The class written `ASTNode` in the model
   stands for the legacy base class (printed `AwareASTNode` for pyoak). *)
From Oak Require Export Model.Xpath Model.LegacyTrav.

(* ASTXpathElement(ast_class, parent_field, parent_index, anywhere) | ASTXpathAnywhereElement() *)
Inductive lelement := LEl (e : element) | LAnywhere.

(* XPathTransformer.xpath: `for el in reversed(args)` with the inner `while ast_class is None: anywhere = True;
   next_el = next(elements, None)` sharing the iterator.  [anywhere] = an empty step has just been consumed;
   [ret] = the list being appended to.  Here (unlike the current module) the flag lands on the element ABOVE
   the `//`: "this element may sit on any ancestor of the place it would otherwise be". *)
Fixpoint ltx (rargs : list raw) (anywhere : bool) (ret : list lelement) : list lelement :=
  match rargs with
  | [] => if anywhere then ret ++ [LAnywhere] else ret            (* next_el is None: append, return *)
  | (pf, pi, None) :: rest => ltx rest true ret                    (* while ast_class is None *)
  | (pf, pi, Some c) :: rest =>
    ltx rest false (ret ++ [LEl {| e_cls := c; e_field := pf; e_index := pi; e_any := anywhere |}])
  end.

(* ASTXpath.__init__: "//" in front of a text that does not start with "/"; the grammar (rule `self`) demands a
   class on the last step: otherwise lark raises UnexpectedInput -> ASTXpathDefinitionError (None here) *)
Definition legacy_elements (x : xpath) : option (list lelement) :=
  if well_formed x
  then Some (ltx (rev (map tr_element ((if xp_relative x then [empty_step] else []) ++ xp_steps x))) false [])
  else None.

(* class_spec: check_and_get_ast_node_type raises ASTXpathDefinitionError for a name that is not a registered legacy
   node class; ASTXpath.__init__ as a whole: None = ASTXpathDefinitionError *)
Definition lknown_class (ct : ctable) (c : pystr) : bool :=
  pystr_eqb c astnode || match find_class ct c with Some _ => true | None => false end.
Definition legacy_compile (ct : ctable) (x : xpath) : option (list lelement) :=
  if forallb (fun s => match st_class s with Some c => lknown_class ct c | None => true end) (xp_steps x)
  then legacy_elements x else None.

(* the code before repair D5 (index_spec: `int(args[0])`, the first DIGIT token only): for the canonical spelling
   of an index that is its leading decimal digit *)
Fixpoint lead_digit (fuel k : nat) : nat :=
  match fuel with
  | 0 => k
  | S f => if Nat.ltb k 10 then k else lead_digit f (k / 10)
  end.
Definition tr_element_d5 (s : step) : raw :=
  match tr_element s with
  | (f, Some k, c) => (f, Some (lead_digit k k), c)
  | r => r
  end.
Definition legacy_elements_d5 (x : xpath) : option (list lelement) :=
  if well_formed x
  then Some (ltx (rev (map tr_element_d5 ((if xp_relative x then [empty_step] else []) ++ xp_steps x))) false [])
  else None.

(* a position on the parent chain: the node (for its class), parent_field.name and parent_index (None / None on
   the attached root) - the same triple as Spec/PathSem.pos *)
Definition lpos := (node * option pystr * option nat)%type.

(* `for ancestor in node.ancestors(): if _match_node_xpath(ancestor, elements): return True`; an ancestor is
   given by its own chain: the non-empty suffixes of the chain above the node *)
Definition any_ancestor (f : list lpos -> bool) : list lpos -> bool :=
  fix go (up : list lpos) : bool :=
    match up with
    | [] => false
    | _ :: up' => f up || go up'
    end.

(* _match_node_xpath(node, elements): [chain] = node, node.parent, node.parent.parent, ... ([] = node is None);
   [elements] leaf first *)
Fixpoint lmatch (ct : ctable) (chain : list lpos) (elements : list lelement) {struct chain} : bool :=
  match chain with
  | [] =>                                                (* node is None: called from the root of the AST *)
    match elements with
    | [] => true
    | LAnywhere :: _ => true
    | LEl _ :: _ => false
    end
  | (n, pfield, pindex) :: up =>
    match elements with
    | [] => false
    | LAnywhere :: _ => true
    | LEl element :: tail =>
      (e_any element && any_ancestor (fun a => lmatch ct a elements) up)
      || (match_node_element ct n pfield pindex element && lmatch ct up tail)
    end
  end.

(* the chain of the object stored at the end of a path from the attached root (root first in Spec/PathSem.chain) *)
Definition lchain (root : node) (l : list tinfo) : list lpos :=
  rev ((root, None, None) :: map (fun ti => (ti_node ti, Some (ti_field ti), ti_index ti)) l).

(* ASTXpath(x).match(node) for the node at path l of the attached tree under root; None = definition error *)
Definition legacy_match (ct : ctable) (x : xpath) (root : node) (l : list tinfo) : option bool :=
  match legacy_elements x with
  | Some els => Some (lmatch ct (lchain root l) els)
  | None => None
  end.

(* ---------- calculate_xpath ---------- *)
Inductive xp_result := XpOk (l : list (lobj * pystr)) | XpNoParentField.   (* RuntimeError("Parent field is not set") *)

(* `for child in node.get_child_nodes(): _set_xpath(child, xpath)`: [g] = the call on one child; the first
   failure propagates; [acc] = the assignments made so far, in execution order *)
Definition xp_each (g : lobj -> option xp_result) : list lobj -> list (lobj * pystr) -> option xp_result :=
  fix each (cs : list lobj) (acc : list (lobj * pystr)) : option xp_result :=
    match cs with
    | [] => Some (XpOk acc)
    | c :: cs' =>
      match g c with
      | Some (XpOk l) => each cs' (acc ++ l)
      | r => r
      end
    end.

(* _set_xpath(node, parent_xpath): f"{parent_xpath}/@{node.parent_field.name}[{node.parent_index or '0'}]{cls}",
   the node's own attribute, then the children in get_child_nodes() order.  None = out of fuel *)
Fixpoint set_xpath (ct : ctable) (fuel : nat) (o : lobj) (parent_xpath : pystr) : option xp_result :=
  match fuel with
  | 0 => None
  | S f =>
    match lo_pos o with
    | None => Some XpNoParentField
    | Some (_, fld, idx) =>
      let xpath := parent_xpath ++ lit "/@" ++ fld ++ lit "[" ++ idx_str idx ++ lit "]" ++ cls (lo_node o) in
      xp_each (fun c => set_xpath ct f c xpath) (lget_child_nodes ct o) [(o, xpath)]
    end
  end.

(* root.calculate_xpath() on an attached root (is_attached_root holds: otherwise it returns False and sets
   nothing): the children first, the root's own attribute last *)
Definition calculate_xpath (ct : ctable) (fuel : nat) (root : lobj) : option xp_result :=
  let xpath := lit "/@root[0]" ++ cls (lo_node root) in
  match xp_each (fun c => set_xpath ct fuel c xpath) (lget_child_nodes ct root) [] with
  | Some (XpOk l) => Some (XpOk (l ++ [(root, xpath)]))
  | r => r
  end.

(* ---------- examples: legacy tests test_xpath_match / test_xpath ---------- *)
Definition lx_f (n : string) (r : frole) : fdecl :=
  {| fd_name := lit n; fd_role := r; fd_compare := true; fd_init := true; fd_kwonly := false |}.
Definition lx_ct : ctable :=
  [ {| cd_name := lit "Nested"; cd_bases := []; cd_own := [lx_f "attr" RProp] |};
    {| cd_name := lit "NestedSub"; cd_bases := [lit "Nested"]; cd_own := [lx_f "attr1" RProp] |};
    {| cd_name := lit "Middle"; cd_bases := []; cd_own := [lx_f "nested" (RChild (KOpt false))] |};
    {| cd_name := lit "Root"; cd_bases := []; cd_own := [lx_f "middle_tuple" (RChild KTup)] |} ].
Definition lx_n : node := Node 5 (lit "Nested") ONo [(lit "attr", VStr (lit "test"))] [].
Definition lx_n2 : node := Node 2 (lit "NestedSub") ONo [(lit "attr", VStr (lit "test2")); (lit "attr1", VStr (lit "test"))] [].
Definition lx_mid (a : nat) (x : node) : node := Node a (lit "Middle") ONo [] [(lit "nested", (ShOne, [x]))].
(* Root((mm, m2)): mm = Middle(m1 = Middle(n)), m2 = Middle(n2) *)
Definition lx_m1 := lx_mid 4 lx_n.
Definition lx_mm := lx_mid 3 lx_m1.
Definition lx_m2 := lx_mid 1 lx_n2.
Definition lx_root : node := Node 0 (lit "Root") ONo [] [(lit "middle_tuple", (ShMany, [lx_mm; lx_m2]))].
Definition lx_ti (x p : node) (f : string) (i : option nat) : tinfo :=
  {| ti_node := x; ti_parent := p; ti_field := lit f; ti_index := i |}.
Definition lx_path_n : list tinfo :=
  [lx_ti lx_mm lx_root "middle_tuple" (Some 0); lx_ti lx_m1 lx_mm "nested" None; lx_ti lx_n lx_m1 "nested" None].
Definition lx_path_n2 : list tinfo := [lx_ti lx_m2 lx_root "middle_tuple" (Some 1); lx_ti lx_n2 lx_m2 "nested" None].
Definition lx_both (x : xpath) := (legacy_match lx_ct x lx_root lx_path_n2, legacy_match lx_ct x lx_root lx_path_n).
Definition absx (l : list step) : xpath := {| xp_relative := false; xp_steps := l |}.
Definition relx (l : list step) : xpath := {| xp_relative := true; xp_steps := l |}.

(* "//Nested" *)
Example lx1 : lx_both (absx [empty_step; st "" IAbsent "Nested"]) = (Some true, Some true).
Proof. vm_compute. reflexivity. Qed.
(* "/Root/Middle/Nested" *)
Example lx2 : lx_both (absx [st "" IAbsent "Root"; st "" IAbsent "Middle"; st "" IAbsent "Nested"]) = (Some true, Some false).
Proof. vm_compute. reflexivity. Qed.
(* "/Root/[0]Middle//Nested" *)
Example lx3 : lx_both (absx [st "" IAbsent "Root"; st "" (IVal 0) "Middle"; empty_step; st "" IAbsent "Nested"]) = (Some false, Some true).
Proof. vm_compute. reflexivity. Qed.
(* "/Root/[]Middle//Nested" *)
Example lx4 : lx_both (absx [st "" IAbsent "Root"; st "" IEmpty "Middle"; empty_step; st "" IAbsent "Nested"]) = (Some true, Some true).
Proof. vm_compute. reflexivity. Qed.
(* "@middle_tuple/@nested[]Nested" (relative) *)
Example lx5 : lx_both (relx [st "middle_tuple" IAbsent ""; st "nested" IEmpty "Nested"]) = (Some true, Some false).
Proof. vm_compute. reflexivity. Qed.
(* "//@middle_tuple/Middle/@nested[]Nested" *)
Example lx6 : lx_both (absx [empty_step; st "middle_tuple" IAbsent ""; st "" IAbsent "Middle"; st "nested" IEmpty "Nested"]) = (Some false, Some true).
Proof. vm_compute. reflexivity. Qed.
(* "/Root/" is rejected by the grammar *)
Example lx_bad : lx_both (absx [st "" IAbsent "Root"; empty_step]) = (None, None).
Proof. vm_compute. reflexivity. Qed.

(* test_xpath: r.calculate_xpath() *)
Example lx_calc :
  match calculate_xpath lx_ct (size lx_root) (root_obj lx_root) with
  | Some (XpOk l) => map (fun p => (addr (lo_node (fst p)), snd p)) l
  | _ => []
  end =
  [ (3, lit "/@root[0]Root/@middle_tuple[0]Middle");
    (4, lit "/@root[0]Root/@middle_tuple[0]Middle/@nested[0]Middle");
    (5, lit "/@root[0]Root/@middle_tuple[0]Middle/@nested[0]Middle/@nested[0]Nested");
    (1, lit "/@root[0]Root/@middle_tuple[1]Middle");
    (2, lit "/@root[0]Root/@middle_tuple[1]Middle/@nested[0]NestedSub");
    (0, lit "/@root[0]Root") ].
Proof. vm_compute. reflexivity. Qed.

(* witnesses used by Props/C20.v *)
(* "/Root/[0]Middle//Nested": matches n (under middle_tuple[0]), not n2 *)
Definition ex_x : xpath := absx [st "" IAbsent "Root"; st "" (IVal 0) "Middle"; empty_step; st "" IAbsent "Nested"].
(* "/Root/@middle_tuple[12]Middle" and the node stored at index 1 *)
Definition ex_x12 : xpath := absx [st "" IAbsent "Root"; st "middle_tuple" (IVal 12) "Middle"].
Definition ex_path_m2 : list tinfo := [lx_ti lx_m2 lx_root "middle_tuple" (Some 1)].
