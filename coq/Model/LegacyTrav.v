(* legacy/node.py (AwareASTNode), traversal part: _is_field_child / get_child_nodes / get_child_nodes_with_field /
   children (1199-1235, 1462-1491), dfs (1237-1283), bfs (1285-1316), gather (1318-1358).  Definitions only.

   A legacy node is a mutable, parent-aware object.  C20 speaks about ATTACHED trees built once by construction:
   there the attributes parent / parent_field / parent_index of an object are a function of the position it is
   stored at (the parent's constructor sets them, node.py:478-489), so a legacy object is modelled as the stored
   node (Model/Node.v, [addr] = object identity) together with what those three attributes say.  List-valued and
   tuple-valued child fields are both [ShMany] (the code treats `isinstance(o, (list, tuple))` alike). *)
From Oak Require Export Model.Traverse.

(* node, and (parent, parent_field.name, parent_index); None = the attributes are None (an attached root) *)
Record lobj := { lo_node : node; lo_pos : option (node * pystr * option nat) }.

(* _is_field_child(field): `if not field.init: return False`, then the VALUE decides: a node, or a list / tuple
   holding a node, is a child; None or an empty sequence falls back to the static table get_child_fields().
   In the model property values never hold nodes and child fields hold None / a node / a sequence of nodes,
   so the value test and the static table agree: init and declared as a child field. *)
Definition is_field_child (f : fdecl) : bool := fd_init f && is_child f.

(* get_child_nodes_with_field(): `for f in fields(self): if not self._is_field_child(f): continue`, then
   enumerate(list / tuple) with the index, or the single object with None *)
Definition lchild_nodes_with_field (ct : ctable) (n : node) : list (node * pystr * option nat) :=
  edges_view (filter is_field_child (fields_of ct (cls n))) (nkids n).

(* get_child_nodes() / .children: the same objects; each child object of an attached tree carries
   parent = self, parent_field = f, parent_index = i *)
Definition lget_child_nodes (ct : ctable) (o : lobj) : list lobj :=
  map (fun t => {| lo_node := fst (fst t); lo_pos := Some (lo_node o, snd (fst t), snd t) |})
      (lchild_nodes_with_field ct (lo_node o)).

(* `for c in l: dq.appendleft(c)` *)
Definition appendleft_all {A} (l dq : list A) : list A := fold_left (fun d c => c :: d) l dq.

Section LTrav.
  Variable ct : ctable.
  Variables (prune filt : lobj -> bool).   (* prune=None is (fun _ => false), filter=None is (fun _ => true) *)

  (* dfs: build_queue is a deque used from the left only (popleft / appendleft); yield_queue is a deque
     (append on the right top-down, appendleft bottom-up) drained from the left at the end.
     [skip_self] is the loop-carried flag: it is reset after the first node. *)
  Fixpoint ldfs_loop (fuel : nat) (bottom_up skip_self : bool) (build_queue yield_queue : list lobj)
    : option (list lobj) :=
    match build_queue with
    | [] => Some yield_queue                                  (* while yield_queue: yield popleft() *)
    | child :: build' =>
      match fuel with
      | 0 => None
      | S f =>
        let walk :=                                           (* "Walk through children" *)
          if bottom_up then appendleft_all (lget_child_nodes ct child) build'
          else appendleft_all (rev (lget_child_nodes ct child)) build' in
        if skip_self then ldfs_loop f bottom_up false walk yield_queue
        else
          let yq := if filt child
                    then (if bottom_up then child :: yield_queue else yield_queue ++ [child])
                    else yield_queue in
          if prune child then ldfs_loop f bottom_up false build' yq     (* continue *)
          else ldfs_loop f bottom_up false walk yq
      end
    end.
  Definition ldfs (fuel : nat) (bottom_up skip_self : bool) (self : lobj) : option (list lobj) :=
    ldfs_loop fuel bottom_up skip_self [self] [].

  (* bfs: one deque, popleft / extend; a generator: [out] collects what is yielded, in order *)
  Fixpoint lbfs_loop (fuel : nat) (skip_self : bool) (queue out : list lobj) : option (list lobj) :=
    match queue with
    | [] => Some out
    | child :: q =>
      match fuel with
      | 0 => None
      | S f =>
        if skip_self then lbfs_loop f false (q ++ lget_child_nodes ct child) out
        else
          let out' := if filt child then out ++ [child] else out in
          if prune child then lbfs_loop f false q out'
          else lbfs_loop f false (q ++ lget_child_nodes ct child) out'
      end
    end.
  Definition lbfs (fuel : nat) (skip_self : bool) (self : lobj) : option (list lobj) :=
    lbfs_loop fuel skip_self [self] [].
End LTrav.

(* gather: dfs(prune, filter_fn, bottom_up=False, skip_self) with
   filter_fn = isinstance(obj, obj_classes) [or type(obj) in obj_classes] and (extra_filter is None or extra_filter(obj)) *)
Definition lclass_filter (ct : ctable) (classes : list pystr) (exact : bool) (o : lobj) : bool :=
  if exact then existsb (pystr_eqb (cls (lo_node o))) classes
  else existsb (subclass ct (cls (lo_node o))) classes.
Definition lgather (ct : ctable) (fuel : nat) (classes : list pystr) (exact : bool)
           (extra prune : lobj -> bool) (skip_self : bool) (self : lobj) : option (list lobj) :=
  ldfs ct prune (fun o => lclass_filter ct classes exact o && extra o) fuel false skip_self self.

(* ---------- the objects of an attached tree ---------- *)
(* the object stored at a traversal position of the immutable model, and the attached root *)
Definition of_tinfo (ti : tinfo) : lobj :=
  {| lo_node := ti_node ti; lo_pos := Some (ti_parent ti, ti_field ti, ti_index ti) |}.
Definition root_obj (root : node) : lobj := {| lo_node := root; lo_pos := None |}.

(* every child field can be given to the constructor (what the legacy code needs to see a child at all) *)
Definition ct_child_init (ct : ctable) : bool :=
  forallb (fun d => forallb fd_init (child_fields ct (cd_name d))) ct.

(* ---------- example: the tree of legacy test_walkers ---------- *)
Definition lw_f (n : string) (r : frole) : fdecl :=
  {| fd_name := lit n; fd_role := r; fd_compare := true; fd_init := true; fd_kwonly := false |}.
Definition lw_ct : ctable :=
  [ {| cd_name := lit "LegacyNested"; cd_bases := []; cd_own := [lw_f "attr" RProp] |};
    {| cd_name := lit "LegacyMiddle"; cd_bases := []; cd_own := [lw_f "nested" (RChild (KOpt false))] |};
    {| cd_name := lit "LegacyRoot"; cd_bases := []; cd_own := [lw_f "middle_tuple" (RChild KTup)] |} ].
Definition lw_n (a : nat) (s : string) : node := Node a (lit "LegacyNested") ONo [(lit "attr", VStr (lit s))] [].
Definition lw_m (a : nat) (x : node) : node := Node a (lit "LegacyMiddle") ONo [] [(lit "nested", (ShOne, [x]))].
(* r = Root((middle_nested2, middle_middle)); addresses: r 0, middle_nested2 1, n2 2, middle_middle 3, middle_nested1 4, n1 5 *)
Definition lw_root : node :=
  Node 0 (lit "LegacyRoot") ONo []
       [(lit "middle_tuple", (ShMany, [lw_m 1 (lw_n 2 "test2"); lw_m 3 (lw_m 4 (lw_n 5 "test1"))]))].
Definition lw_addrs (o : option (list lobj)) : option (list nat) := option_map (map (fun x => addr (lo_node x))) o.
Definition lw_none (_ : lobj) : bool := false.
Definition lw_all (_ : lobj) : bool := true.

Example lw_dfs : lw_addrs (ldfs lw_ct lw_none lw_all 6 false false (root_obj lw_root)) = Some [0; 1; 2; 3; 4; 5].
Proof. vm_compute. reflexivity. Qed.
Example lw_dfs_bu : lw_addrs (ldfs lw_ct lw_none lw_all 6 true false (root_obj lw_root)) = Some [2; 1; 5; 4; 3; 0].
Proof. vm_compute. reflexivity. Qed.
Example lw_dfs_skip : lw_addrs (ldfs lw_ct lw_none lw_all 6 false true (root_obj lw_root)) = Some [1; 2; 3; 4; 5].
Proof. vm_compute. reflexivity. Qed.
Example lw_dfs_bu_skip : lw_addrs (ldfs lw_ct lw_none lw_all 6 true true (root_obj lw_root)) = Some [2; 1; 5; 4; 3].
Proof. vm_compute. reflexivity. Qed.
(* prune=lambda n: isinstance(n, LegacyMiddle) *)
Example lw_dfs_prune :
  lw_addrs (ldfs lw_ct (fun o => pystr_eqb (cls (lo_node o)) (lit "LegacyMiddle")) lw_all 6 false false (root_obj lw_root))
  = Some [0; 1; 3].
Proof. vm_compute. reflexivity. Qed.
Example lw_bfs : lw_addrs (lbfs lw_ct lw_none lw_all 6 false (root_obj lw_root)) = Some [0; 1; 3; 2; 4; 5].
Proof. vm_compute. reflexivity. Qed.
Example lw_bfs_skip : lw_addrs (lbfs lw_ct lw_none lw_all 6 true (root_obj lw_root)) = Some [1; 3; 2; 4; 5].
Proof. vm_compute. reflexivity. Qed.
