(* C11 model: classification of field annotations.  Transcribes pyoak/typing.py
   has_check_type_in_type (162), _is_valid_child_field_type (185), is_valid_child_field_type (241),
   is_valid_property_type (263), check_annotations (290, definition time), get_field_types (359),
   process_node_fields (387, first use).

   Two variant flags (DESIGN 2.6); [false] = the code as it is in /repo, [true] = what the property demands:
   - v_nt  (D14): has_check_type_in_type looks through NewType objects (get_args(NewType) is ()).
   - v_fwd (D20): get_field_types resolves string forward references nested inside a non-string annotation
                  (the code only calls get_type_hints when the whole annotation is a string). *)
From Oak Require Export Model.PyTypes.

Record variant := { v_nt : bool; v_fwd : bool }.
Definition as_code : variant := {| v_nt := false; v_fwd := false |}.
Definition as_property : variant := {| v_nt := true; v_fwd := true |}.

Inductive reason := ROk | ROptInSeq | RMutSeq | RNonNode | REmptyTuple | ROther | RMutProp.
Inductive verdict := VChild | VProp | VReject (r : reason).

(* typing.py:162  issubclass(type_, check_type) (TypeError swallowed) or any(... for t in get_args(type_)).
   get_args: union members / tuple and container arguments; (t, Ellipsis) for a variadic tuple, Ellipsis is inert
   (issubclass raises, get_args(Ellipsis) = ()); the values of a Literal are inert for the same reason. *)
Fixpoint has_node (vnt : bool) (t : ty) : bool :=
  if is_node_class t then true else
  match t with
  | TUnion ts | TTuple ts | TGen _ ts => existsb (has_node vnt) ts
  | TTupleVar a => has_node vnt a
  | TNewType a => vnt && has_node vnt a
  | _ => false
  end.

(* all(x == OK for x in ...) over results computed in order: a TypeError (None) met before the first non-OK
   result propagates, otherwise the first non-OK result makes the whole NON_NODE_TYPE *)
Fixpoint all_ok (l : list (option reason)) : option reason :=
  match l with
  | [] => Some ROk
  | None :: _ => None
  | Some ROk :: r => all_ok r
  | Some _ :: _ => Some RNonNode
  end.

(* typing.py:185  None = a TypeError escapes *)
Fixpoint vchild (t : ty) (allow_sequence : bool) {struct t} : option reason :=
  if negb allow_sequence && is_optional t then Some ROptInSeq
  else if is_optional t || is_union t then
    match t with
    | TUnion ts =>
      (* all(issubclass(t, node) for t in args if t is not NoneType); TypeError -> NON_NODE_TYPE *)
      if forallb is_node_class (filter (fun a => negb (is_noneT a)) ts) then Some ROk else Some RNonNode
    | _ => Some ROk
    end
  else if allow_sequence && is_tuple t then
    match t with
    | TTupleVar a => vchild a false                                  (* len(args) == 2 and args[1] is Ellipsis *)
    | TTuple [] | TBare CTuple => Some REmptyTuple                   (* len(args) == 0 *)
    | TTuple ts => all_ok (map (fun a => vchild a false) ts)
    | _ => Some ROk
    end
  else if is_mutable_collection t then Some RMutSeq
  else match sub_node t with                                         (* if not issubclass(type_, node_base_type) *)
       | None => None
       | Some false => Some RNonNode
       | Some true => Some ROk
       end.

(* typing.py:241 *)
Definition valid_child (t : ty) : reason :=
  match vchild t true with Some r => r | None => ROther end.

(* typing.py:263.  is_valid_property_type(unwrap_newtype(t)) is written as recursion through each NewType layer
   (same value: a NewType is neither a collection nor a union) *)
Fixpoint vprop (t : ty) : bool :=
  if is_collection t then
    if is_mutable_collection t then false
    else match t with
         | TTuple ts | TGen _ ts => forallb vprop ts
         | TTupleVar a => vprop a                                    (* Ellipsis: falls to `return True` *)
         | _ => true                                                 (* no arguments *)
         end
  else match t with
       | TUnion ts => forallb vprop ts
       | TNewType a => vprop a
       | _ => true
       end.

(* the body of the loops of check_annotations / process_node_fields for one resolved field type *)
Definition classify (vnt : bool) (t : ty) : verdict :=
  if has_node vnt t then
    match valid_child t with ROk => VChild | r => VReject r end
  else if vprop t then VProp else VReject RMutProp.

(* ---------- how an annotation reaches pyoak ---------- *)
(* get_type_hints: every string is evaluated (nested strings of generic aliases become ForwardRefs and are
   evaluated too); never descends into a NewType's supertype (wf_ty forbids strings there) *)
Fixpoint resolve_deep (t : ty) : ty :=
  match t with
  | TFwd c => TNode c
  | TUnion ts => TUnion (map resolve_deep ts)
  | TTuple ts => TTuple (map resolve_deep ts)
  | TTupleVar a => TTupleVar (resolve_deep a)
  | TGen c ts => TGen c (map resolve_deep ts)
  | _ => t
  end.
Definition resolve_top (t : ty) : ty := match t with TFwd c => TNode c | _ => t end.

(* a field as written in the class body: [quoted] = the whole annotation is a string (always so under
   `from __future__ import annotations`) *)
Record afield := { af_name : pystr; af_quoted : bool; af_ty : ty }.

(* typing.py:359 get_field_types for one field: field.type is used as is unless it is a str;
   a top-level NewType is unwrapped *)
Definition field_type (v : variant) (f : afield) : ty :=
  unwrap_newtype (if af_quoted f || v_fwd v then resolve_deep (af_ty f) else resolve_top (af_ty f)).

(* dataclass / get_type_hints merge over the MRO: base order kept, an override stays in place *)
Fixpoint upsert_af (f : afield) (l : list afield) : list afield :=
  match l with
  | [] => [f]
  | g :: r => if pystr_eqb (af_name g) (af_name f) then f :: r else g :: upsert_af f r
  end.
Definition merge_af (acc own : list afield) : list afield := fold_left (fun a f => upsert_af f a) own acc.

Inductive outcome :=
| OFields (children props : list pystr)
| OReject (bad : list (pystr * reason)).

(* typing.py:387 process_node_fields *)
Fixpoint process_fields (v : variant) (fs : list afield) (ch pr : list pystr) (bad : list (pystr * reason)) : outcome :=
  match fs with
  | [] => match bad with [] => OFields (rev ch) (rev pr) | _ => OReject (rev bad) end
  | f :: r =>
    match classify (v_nt v) (field_type v f) with
    | VChild => process_fields v r (af_name f :: ch) pr bad
    | VProp => process_fields v r ch (af_name f :: pr) bad
    | VReject x => process_fields v r ch pr ((af_name f, x) :: bad)
    end
  end.
Definition first_use (v : variant) (fs : list afield) : outcome := process_fields v fs [] [] [].

(* typing.py:290 check_annotations at class definition: get_type_hints resolves everything or raises NameError
   (-> skipped); no NewType unwrapping here *)
Inductive defcheck := DSkipped | DOk | DReject (bad : list (pystr * reason)).
Definition def_bad (vnt : bool) (f : afield) : list (pystr * reason) :=
  (* the D14 repair must also unwrap the outermost NewType here, as get_field_types does: otherwise `x: NA`
     (NA = NewType("NA", A)) would now mention a node, fail is_valid_child_field_type and be rejected *)
  match classify vnt ((if vnt then unwrap_newtype else fun t => t) (resolve_deep (af_ty f))) with
  | VReject r => [(af_name f, r)]
  | _ => []
  end.
(* [anns]: every annotation found in the MRO, overridden ones included - get_type_hints evaluates them all and a
   single unbound name (NameError) skips the whole check; [fs]: the merged fields that are then examined *)
Definition def_check (v : variant) (bound : list pystr) (anns fs : list afield) : defcheck :=
  if forallb (fun f => forallb (fun n => existsb (pystr_eqb n) bound) (names_of (af_ty f))) anns then
    match flat_map (def_bad (v_nt v)) fs with [] => DOk | bad => DReject bad end
  else DSkipped.

(* ---------- a chain of classes K0 <- K1 <- ... defined in this order ---------- *)
Record acls := { ac_name : pystr; ac_own : list afield }.
Inductive clsobs := ClsObs (d : defcheck) (u : option outcome).   (* u = None: the definition raised *)

(* bound: node class names bound in the module when the class statement runs (its own name is not) *)
Fixpoint run_chain (v : variant) (bound : list pystr) (anns inherited : list afield) (cs : list acls) : list clsobs :=
  match cs with
  | [] => []
  | c :: r =>
    let fs := merge_af inherited (ac_own c) in
    let anns' := anns ++ ac_own c in
    match def_check v bound anns' fs with
    | DReject bad => [ClsObs (DReject bad) None]                      (* the class statement raises: chain ends *)
    | d => ClsObs d (Some (first_use v fs)) :: run_chain v (ac_name c :: bound) anns' fs r
    end
  end.

(* the class body of an unquoted annotation is executed: every node class object mentioned must be bound *)
Fixpoint chain_executable (bound : list pystr) (cs : list acls) : bool :=
  match cs with
  | [] => true
  | c :: r =>
    forallb (fun f => af_quoted f || forallb (fun n => existsb (pystr_eqb n) bound) (eager_names (af_ty f))) (ac_own c)
    && chain_executable (ac_name c :: bound) r
  end.
